"""Shared driver for the LR-family checks (C01 C02 C04 …): run the `lr` harness
sub-command and the extracted validators/interpreter on the same dumps."""
from vlib import core


def case_line(kind, src, inputs):
    return "%s %s ; %s" % (kind, src.encode().hex(), " ; ".join(" ".join(i) for i in inputs))


def sections(line):
    return [s.split() for s in line.split(" # ")]


class LRResult:
    def __init__(self, gram, src, inputs, impl_line, model_line):
        self.gram, self.src, self.inputs_req = gram, src, inputs
        self.impl_line, self.model_line = impl_line, model_line
        self.ok = impl_line.startswith("G ")
        self.err = None if self.ok else impl_line
        self.secs = sections(impl_line) if self.ok else []
        self.nstates = 0
        self.conflicts = None        # None = no conflicts reported, else (sr, rr)
        self.inputs, self.impl_out, self.impl_out_rec = [], [], []
        # per input: (setter order, entry point) the harness used for the recovery-off parse (`# BO`), or None
        self.builder = []
        for s in self.secs:
            if not s:
                continue
            if s[0] == "N":
                self.nstates = int(s[1])
            elif s[0] == "X" and s[1] != "none":
                self.conflicts = (int(s[1]), int(s[2]))
            elif s[0] == "I":
                self.inputs.append([int(x) for x in s[1:]])
                self.builder.append(None)
            elif s[0] == "BO" and self.builder:
                self.builder[-1] = (int(s[1]), int(s[2]))
            elif s[0] == "O":
                self.impl_out.append(" ".join(s[1:]))
            elif s[0] == "OR":
                self.impl_out_rec.append(" ".join(s[1:]))
        self.verdict = {}
        self.model_out = []
        self.vdetail = ""
        if self.ok and model_line:
            for s in sections(model_line):
                if not s:
                    continue
                if s[0] == "V":
                    for kv in s[1:]:
                        k, v = kv.split("=")
                        self.verdict[k] = (v == "1")
                elif s[0] in ("VS", "VC", "VE"):
                    self.vdetail += " %s=%s" % (s[0], s[1] if len(s) > 1 else "")
                elif s[0] == "O":
                    self.model_out.append(" ".join(s[1:]))

    def ntoks(self):
        return int(self.secs[0][1])


BUILDER_ORDERS = {0: ".recoverer(None)", 1: ".recoverer(None).term_costs(f)", 2: ".term_costs(f).recoverer(None)"}
ENTRY_POINTS = {0: "parse_map", 1: "parse_generictree", 2: "parse_actions", 3: "parse_noaction"}


def builder_text(bo):
    """human-readable form of a `# BO` pair (how the recovery-off parser was configured and run)"""
    if bo is None:
        return "?"
    return "RTParserBuilder::new(..)%s.%s(..)" % (BUILDER_ORDERS.get(bo[0], "?"), ENTRY_POINTS.get(bo[1], "?"))


def run_cases(cases, kind="O", rec=False):
    """cases: list of (gram, [inputs as lists of token names]) -> list of LRResult"""
    exe = core.build_harness("lr")
    mexe = core.build_model("lr")
    lines, srcs = [], []
    for g, inputs in cases:
        src = g if isinstance(g, str) else g.render()
        srcs.append(src)
        lines.append(case_line(kind, src, inputs))
    cmd = [exe] + (["rec"] if rec else [])
    impl = core.run_lines(cmd, lines)
    # a HANG/CRASH loses the whole case: redo it input by input (short watchdog) and
    # stitch the dump and the per-input outcomes back together
    for i, out in enumerate(impl):
        if out.startswith("HANG") or out.startswith("CRASH"):
            g, inputs = cases[i]
            sub = [case_line(kind, srcs[i], [])] + [case_line(kind, srcs[i], [inp]) for inp in inputs]
            outs = core.run_lines(cmd, sub, env={"GVH_CASE_TIMEOUT_MS": "1500"})
            if not outs[0].startswith("G "):
                continue                      # construction itself hangs/crashes: leave as is
            stitched = outs[0]
            for inp, o in zip(inputs, outs[1:]):
                if o.startswith("G "):
                    tail = [x for x in o.split(" # ") if x.split()[:1] and x.split()[0] in ("I", "BO", "O", "OR")]
                    if tail:
                        stitched += " # " + " # ".join(tail)
                else:
                    # unknown names are skipped by the harness, so re-derive the tidxs from the dump
                    names = {}
                    for sct in sections(outs[0]):
                        if sct and sct[0] == "TN":
                            names[bytes.fromhex(sct[2]).decode()] = sct[1]
                    if all(t in names for t in inp):
                        stitched += " # I %s # O %s" % (" ".join(names[t] for t in inp), o.split()[0].lower())
                        if rec:
                            stitched += " # OR %s" % o.split()[0].lower()
            impl[i] = stitched
    model = core.run_lines([mexe], impl)
    return [LRResult(c[0], s, c[1], a, b) for c, s, a, b in zip(cases, srcs, impl, model)]
