"""Shared driver of the error-recovery checks (C05, C07): run the `repair` harness
(Parser::lr with CPCT+, all repair sequences reported) and the extracted mirror
(Repair/Semantics.v) on the same dumps; independent Python oracles."""
from vlib import core, cfg

BUDGET_MS = 1200          # recovery time budget given to the implementation (hook)
CASE_TIMEOUT_MS = 40000   # watchdog per case line
ONE_TIMEOUT_MS = 7000     # watchdog when a single input is re-run in isolation
ONE_BUDGET_MS = 1500


def case_line(g, costs, inputs, kind="O"):
    src = g if isinstance(g, str) else g.render()
    cs = " ".join("%s=%d" % (k, v) for k, v in sorted(costs.items()))
    # (no trailing separator: an empty part after ';' IS the empty input)
    return "%s %s ; costs %s%s" % (kind, src.encode().hex(), cs, "".join(" ; " + " ".join(i) for i in inputs))


def sections(line):
    return [s.split() for s in line.split(" # ")]


class Inp:
    """one parsed input: what the implementation reported and what the mirror says"""

    def __init__(self, toks):
        self.toks = toks
        self.errors = []          # [pos, state, nseq, [seq...]] ; seq = list of step strings I<t> D<i> S<i>
        self.value = None         # 'acc <tree>' | 'none' | 'panic …' | 'lexerr' | 'hang'
        self.ms = 0
        self.odd_lexemes = 0      # leaves that are faulty xor zero-length
        self.misplaced_inserts = 0  # inserted (zero-length) leaves that are not at the start of the next real lexeme
        self.costs_first = None   # BO section: True = the harness called .term_costs(..) BEFORE .recoverer(..) for this input
        self.model = {}           # facts of the J section
        self.model_value = None

    def first_seqs(self):
        return [e[3][0] if e[3] else None for e in self.errors]


class RepResult:
    def __init__(self, fam, gram, src, cname, costs, inputs_req, impl_line, model_line):
        self.fam, self.gram, self.src, self.cname, self.costs = fam, gram, src, cname, costs
        self.inputs_req = inputs_req
        self.impl_line, self.model_line = impl_line, model_line
        self.ok = impl_line.startswith("G ")
        self.err = None if self.ok else impl_line
        self.secs = sections(impl_line) if self.ok else []
        self.nstates, self.conflicts = 0, None
        self.PN, self.TRYMAX, self.budget = 3, 250, 0
        self.cost_by_tidx, self.avoid = [], []
        self.inputs = []
        self.sr_cells, self.rr_cells = [], []
        cur = None
        for s in self.secs:
            if not s:
                continue
            k = s[0]
            if k == "N":
                self.nstates = int(s[1])
            elif k == "X" and s[1] != "none":
                self.conflicts = (int(s[1]), int(s[2]))
            elif k == "XS":
                self.sr_cells.append(tuple(int(x) for x in s[1:]))
            elif k == "XR":
                self.rr_cells.append(tuple(int(x) for x in s[1:]))
            elif k == "KN":
                self.PN, self.TRYMAX, self.budget = int(s[1]), int(s[2]), int(s[3])
            elif k == "CO":
                self.cost_by_tidx = [int(x) for x in s[1:]]
            elif k == "AV":
                self.avoid = [int(x) for x in s[1:]]
            elif k == "I":
                cur = Inp([int(x) for x in s[1:]])
                self.inputs.append(cur)
            elif k == "BO" and cur is not None and len(s) > 1:
                cur.costs_first = s[1] == "1"
            elif k == "ER" and cur is not None:
                cur.errors.append([int(s[1]), int(s[2]), int(s[3]), []])
            elif k == "RS" and cur is not None and cur.errors:
                cur.errors[-1][3].append(s[1:])
            elif k == "VL" and cur is not None:
                cur.value = " ".join(s[1:])
            elif k == "ZL" and cur is not None:
                cur.odd_lexemes = int(s[1])
            elif k == "ZP" and cur is not None:
                cur.misplaced_inserts = int(s[1])
            elif k == "TM" and cur is not None:
                cur.ms = int(s[1])
        self.verdict = {}
        if self.ok and model_line and model_line.startswith("V "):
            js = []
            for s in sections(model_line):
                if not s:
                    continue
                if s[0] == "V":
                    for kv in s[1:]:
                        a, b = kv.split("=")
                        self.verdict[a] = (b == "1")
                elif s[0] == "J":
                    d = {}
                    for kv in s[1:]:
                        a, b = kv.split("=", 1)
                        d[a] = b
                    js.append(d)
                elif s[0] == "MV" and js:
                    js[-1]["mvalue"] = " ".join(s[1:])
            for inp, j in zip(self.inputs, js):
                inp.model = j
        self.dgram = cfg.DGram(self.secs) if self.ok else None

    def tname(self, t):
        return self.dgram.tnames.get(t, "<eof>")

    def names(self, toks):
        return [self.tname(x) for x in toks]

    def eps_cycles(self):
        """(token, [states]) such that under lookahead token the table reduces empty productions
        round a cycle of states: Parser::lr never leaves it (the stack grows for ever)"""
        act, goto = {}, {}
        for s in self.secs:
            if s and s[0] == "A" and s[3] == "R":
                act[(int(s[1]), int(s[2]))] = int(s[4])
            elif s and s[0] == "T":
                goto[(int(s[1]), int(s[2]))] = int(s[3])
        g = self.dgram
        res = []
        for tok in range(g.ntoks):
            nxt = {}
            for (st, a), p in act.items():
                if a == tok and len(g.prods[p][1]) == 0 and (st, g.prods[p][0]) in goto:
                    nxt[st] = goto[(st, g.prods[p][0])]
            for s0 in nxt:
                seen, s = [], s0
                while s in nxt and s not in seen:
                    seen.append(s)
                    s = nxt[s]
                if s in seen:
                    cyc = seen[seen.index(s):]
                    if s0 == min(cyc):
                        res.append((tok, cyc))
        return res


BUILDER_ORDER_RULE = ("the order of the builder's setter calls is an input of the `repair`/`stall` harness: "
                      ".recoverer(CPCTPlus).term_costs(f) when (index of the input within its case line + number of lexemes of the "
                      "input) is even, .term_costs(f).recoverer(CPCTPlus) when it is odd (reported per input in the BO section); the "
                      "models know nothing about an order, so a result that depends on it (e.g. a cost function dropped by a later "
                      "setter) shows as a difference on the inputs with non-unit costs")


MODEL_ERR_CAP = 301       # the OCaml driver replays at most 300 errors per input and flags the rest as truncated


def shrink_for_model(line):
    """drop the ER/RS sections of errors beyond the model's cap (an input can carry hundreds of thousands of
    errors when a repair does not move the parser on); the Python checks still see all of them"""
    if line.count(" # ER ") <= MODEL_ERR_CAP:
        return line
    out, n, skipping = [], 0, False
    for sec in line.split(" # "):
        k = sec.split(" ", 1)[0]
        if k == "I":
            n, skipping = 0, False
        elif k == "ER":
            n += 1
            skipping = n > MODEL_ERR_CAP
        if skipping and k in ("ER", "RS"):
            continue
        out.append(sec)
    return " # ".join(out)


def _stitch(dump_line, per_input):
    """dump (no inputs) + per-input tails"""
    out = dump_line
    for tail in per_input:
        out += tail
    return out


def run_cases(cases, budget_ms=BUDGET_MS):
    """cases: list of (family, Gram, costname, costs, inputs) -> list of RepResult"""
    exe = core.build_harness("repair")
    mexe = core.build_model("repair")
    lines = [case_line(g, costs, inputs) for _, g, _, costs, inputs in cases]
    env = {"GRMTOOLS_VERIF_RECOVERY_BUDGET_MS": str(budget_ms), "GVH_CASE_TIMEOUT_MS": str(CASE_TIMEOUT_MS)}
    impl = core.run_lines([exe], lines, env=env)
    # a HANG/CRASH loses the whole case line: redo that case input by input under a short watchdog
    for i, out in enumerate(impl):
        if out.startswith("HANG") or out.startswith("CRASH"):
            _, g, _, costs, inputs = cases[i]
            sub = [case_line(g, costs, [])] + [case_line(g, costs, [inp]) for inp in inputs]
            env1 = {"GRMTOOLS_VERIF_RECOVERY_BUDGET_MS": str(ONE_BUDGET_MS), "GVH_CASE_TIMEOUT_MS": str(ONE_TIMEOUT_MS)}
            outs = core.run_lines([exe], sub, env=env1, shards=min(core.NPROC, len(sub)))
            if not outs[0].startswith("G "):
                continue
            names = {}
            for sct in sections(outs[0]):
                if sct and sct[0] == "TN":
                    names[bytes.fromhex(sct[2]).decode()] = sct[1]
            tails = []
            for inp, o in zip(inputs, outs[1:]):
                if o.startswith("G "):
                    k = o.find(" # I")
                    tails.append(o[k:] if k >= 0 else "")
                elif all(x in names for x in inp):
                    tails.append(" # I %s # VL %s # TM %d" % (" ".join(names[x] for x in inp), o.split()[0].lower(), ONE_TIMEOUT_MS))
            impl[i] = _stitch(outs[0], tails)
    model = core.run_lines([mexe], [shrink_for_model(l) for l in impl])
    return [RepResult(c[0], c[1], c[1].render() if not isinstance(c[1], str) else c[1], c[2], c[3], c[4], a, b)
            for c, a, b in zip(cases, impl, model)]


def expected_leaves(inp):
    """leaves (tok, lexeme idx, faulty) of the repaired input: the implementation's own first
    sequence of every error applied — deleted lexemes dropped, inserted tokens as zero-length
    faulty lexemes at the position of the next real lexeme, shifted ones kept"""
    out, pos = [], 0
    n = len(inp.toks)
    for e in inp.errors:
        p, seqs = e[0], e[3]
        if p < pos or not seqs:
            break
        out += [(inp.toks[i], i, False) for i in range(pos, min(p, n))]
        cur = p
        for st in seqs[0]:
            if st[0] == "I":
                out.append((int(st[1:]), cur, True))
            elif st[0] == "D":
                cur += 1
            else:
                if cur < n:
                    out.append((inp.toks[cur], cur, False))
                cur += 1
        pos = cur
    out += [(inp.toks[i], i, False) for i in range(pos, n)]
    return out


def single_input_line(impl_line, k):
    """the dump part of an implementation line + the sections of its k-th input only"""
    secs = impl_line.split(" # ")
    head, groups = [], []
    for sec in secs:
        if sec.split(" ", 1)[0] == "I" or sec == "I":
            groups.append([sec])
        elif groups:
            groups[-1].append(sec)
        else:
            head.append(sec)
    return " # ".join(head + (groups[k] if k < len(groups) else []))


def search_mirror_sets(r, k):
    """Run the extracted mirror of the bucketed search (C06/Mirror.v, the code as it is now) on input k of r.
    -> list per error of (status, set of plain sequence strings | None), or None when the model gave no answer.
    Used to tell the KNOWN class 'the search as written reports a sequence that does not repair on a conflict-resolved
    table' from any OTHER way of reporting a bad sequence: the known class is what the faithful mirror reproduces."""
    from checks import C06 as c06
    mexe = core.build_model("c06")
    line = shrink_for_model(single_input_line(r.impl_line, k)) + " # OPT ncap=150000 maxedits=6 mfuel=10000 mirrors=2"
    try:
        out = core.run_lines([mexe], [line], shards=1, timeout=300)[0]
    except Exception:
        return None
    if not out.startswith("V "):
        return None
    _, minputs = c06.parse_model(out)
    if not minputs:
        return None
    res = []
    for m in minputs[0]:
        if m.status != "ok" or m.mf is None or m.mf[0] != "done":
            res.append((m.status if m.status != "ok" else "nomirror", None, (m.pos, m.st)))
        else:
            res.append(("done", set(m.mf[1]), (m.pos, m.st)))
    return res


def plain_seq(seq):
    return " ".join(st if st[0] == "I" else st[0] for st in seq) or "-"


def known_class_confirmed(r, k, error_indices):
    """True: at every listed error the faithful search mirror reports exactly the implementation's set (the bad sequence
    is what the search as written produces: the recorded class).  False: the mirror ran and reports something else (a
    different defect).  None: the mirror could not be consulted for some listed error (left to the recorded class)."""
    ms = search_mirror_sets(r, k)
    if ms is None:
        return None
    inp = r.inputs[k]
    verdict = True
    for ei in error_indices:
        if ei >= len(ms) or ei >= len(inp.errors):
            return None
        st, mset, cfgm = ms[ei]
        if st != "done" or cfgm != (inp.errors[ei][0], inp.errors[ei][1]):
            verdict = None if verdict is True else verdict
            continue
        if mset != set(plain_seq(s) for s in inp.errors[ei][3]):
            return False
    return verdict


# =====================================================================================================================
# Added for C05/C07 (ext-c05deep): (a) deep parse stacks, (b) the applied repair is a function of the input.
# Nothing above this line is changed by these additions.
# =====================================================================================================================

# /repo ca69cd1: simplify_repairs deduplicates in insertion order and sorts stably, so the reported LIST (order included)
# and the applied sequence are a function of the input.  False = the pinned behaviour (HashSet + sort_unstable_by): a
# different ORDER of the same set is then tolerated (counted), everything else still alarms.
REPAIR_ORDER_FIXED = True

DEEP_GRAMMARS = {1: "%start S\n%%\nS: 'a' S 'b' | 'c';\n", 2: "%start S\n%%\nS: 'a' S | 'b' 'c' | ;\n"}
DEEP_INPUT = {1: "a^n c c b^n (one surplus 'c')", 2: "a^n b ('c' missing at the end of the input)"}
DEEP_BUDGET_MS = 60000        # an empty repair list must not be a scheduling artefact: these searches need a handful of nodes
DEEP_TIMEOUT_S = 300
DEEP_CONTROL = 2000


def deep_ladder(ctx):
    """(grammar, nesting depth, thread stack MiB); the control depth comes first for each grammar"""
    # (release profile: the pinned Rc chain teardown needs ~32 bytes of native stack per parse-stack entry, i.e. it overflows
    # 2 MiB from ~65 000 entries and 8 MiB from ~260 000; 60 000 is the depth named by the audit, 200 000 is 3x the threshold)
    lad = [(g, DEEP_CONTROL, 2) for g in (1, 2)] + [(g, n, 2) for g in (1, 2) for n in (60000, 200000)]
    if not ctx.quick:
        lad += [(g, n, m) for g in (1, 2) for n, m in ((20000, 2), (100000, 2), (200000, 8), (500000, 8), (500000, 2), (1000000, 8))]
    return lad


def deep_expected(which, n, tk):
    """analytic oracle for depth n: (lexeme index of the one error, the applied sequence, the leaves of the value as runs
    (tidx, faulty, len, start, count)); replay lexer: lexeme i spans (2i, 2i+1), an inserted lexeme at the end of the input
    sits at the end of the last lexeme"""
    a, b, c = tk
    if which == 1:      # a^n c [c deleted] b^n
        return n + 1, ["D%d" % (n + 1)], [(a, 0, 1, 0, n), (c, 0, 1, 2 * n, 1), (b, 0, 1, 2 * n + 4, n)]
    return n + 1, ["I%d" % c], [(a, 0, 1, 0, n), (b, 0, 1, 2 * n, 1), (c, 1, 0, 2 * n + 1, 1)]


class DeepRun:
    def __init__(self, which, n, mib, p):
        self.which, self.n, self.mib = which, n, mib
        self.rc = p.returncode if p is not None else None
        self.stderr = ((p.stderr or "") if p is not None else "timeout")[-400:]
        out = [l for l in ((p.stdout or "") if p is not None else "").splitlines() if l.startswith("DEEP ")]
        self.line = out[0] if out else None
        self.returned = self.line is not None and self.rc == 0
        self.tk, self.errors, self.value, self.leaves, self.ms, self.nlex, self.conflicts = None, [], None, None, 0, None, None
        if not self.returned:
            return
        for s in sections(self.line):
            if not s:
                continue
            if s[0] == "TK":
                d = dict(x.split("=") for x in s[1:])
                self.tk = (int(d["a"]), int(d["b"]), int(d["c"]))
            elif s[0] == "NL":
                self.nlex = int(s[1])
            elif s[0] == "CF":
                self.conflicts = s[1] == "1"
            elif s[0] == "ER":
                self.errors.append([int(s[1]), int(s[2]), int(s[3]), []])
            elif s[0] == "RS" and self.errors:
                self.errors[-1][3].append(s[1:])
            elif s[0] == "VL":
                self.value = " ".join(s[1:])
            elif s[0] == "LV":
                self.leaves = [tuple(int(x) for x in r.split(":")) for r in s[1:]]
            elif s[0] == "TM":
                self.ms = int(s[1])


def deep_run(which, n, mib):
    exe = core.build_harness("repair")
    try:
        p = core.sh([exe, "deep", str(which), str(n), str(mib)], timeout=DEEP_TIMEOUT_S, limit_mem=True,
                    env={"GRMTOOLS_VERIF_RECOVERY_BUDGET_MS": str(DEEP_BUDGET_MS)})
    except Exception:
        p = None
    return DeepRun(which, n, mib, p)


def deep_why(run, control):
    """what the property demands of one deep run -> list of failures (empty = holds)"""
    which, n = run.which, run.n
    if not run.returned:
        sig = (" (signal %d)" % -run.rc) if (run.rc or 0) < 0 else ""
        return ["the parse does not return: the process ended with status %s%s instead of handing back (value, errors); stderr: %s"
                % (run.rc, sig, run.stderr.strip().replace("\n", " | ")[-300:])]
    why = []
    pos, seq, leaves = deep_expected(which, n, run.tk)
    if run.value is not None and run.value.startswith("panic"):
        return ["the parse panics: " + run.value[:200]]
    if len(run.errors) != 1:
        why.append("%d errors reported, the input has exactly one (at lexeme %d)" % (len(run.errors), pos))
    elif run.errors[0][0] != pos:
        why.append("the error is reported at lexeme %d, it is at lexeme %d" % (run.errors[0][0], pos))
    if run.errors:
        e = run.errors[0]
        if not e[3]:
            why.append("the error carries no repair sequence although %d ms of a %d ms budget were used (a handful of search "
                       "nodes finds %s)" % (run.ms, DEEP_BUDGET_MS, " ".join(seq)))
        elif e[3][0] != seq:
            why.append("repairs()[0] is [%s], expected [%s]" % (" ".join(e[3][0]), " ".join(seq)))
        if control is not None and control.returned and control.errors and e[3]:
            ce = control.errors[0]
            shift = n - control.n
            want = [[st if st[0] == "I" else st[0] + str(int(st[1:]) + shift) for st in q] for q in ce[3]]
            if e[1] != ce[1]:
                why.append("error state %d, at nesting depth %d the same error is met in state %d" % (e[1], control.n, ce[1]))
            if e[3][:16] != want[:16] or e[2] != ce[2]:
                why.append("the reported list differs from the one at nesting depth %d (positions shifted): %s vs %s"
                           % (control.n, [" ".join(q) for q in e[3][:6]], [" ".join(q) for q in want[:6]]))
    if run.errors and all(e[3] for e in run.errors):
        if run.value != "some":
            why.append("every error carries a repair but no value is returned")
        elif run.leaves != leaves:
            why.append("the leaves of the returned value do not spell the repaired input: runs (tidx, faulty, len, start, count) "
                       "%s, expected %s" % (run.leaves[:8], leaves))
    elif run.value == "some":
        why.append("a value is returned although an error carries no repair")
    return why


def deep_check(ctx):
    """(a) of ext-c05deep: the two auditor grammars at growing nesting depth, each parse in a process of its own on a
    thread with an explicit stack.  One obligation per rung."""
    import concurrent.futures, time
    t0 = time.time()
    lad = deep_ladder(ctx)
    with concurrent.futures.ThreadPoolExecutor(max_workers=min(core.NPROC, len(lad))) as ex:
        runs = list(ex.map(lambda x: deep_run(*x), lad))
    control = dict((r.which, r) for r in runs if r.n == DEEP_CONTROL)
    for r in runs:
        why = deep_why(r, None if r.n == DEEP_CONTROL else control.get(r.which))
        ctx.count("deep_stack_runs")
        ctx.count("deep_stack_%s" % ("ok" if not why else "does_not_return" if not r.returned else "wrong_result"))
        ctx.case("deep %d %d %d" % (r.which, r.n, r.mib), True,
                 {"grammar": DEEP_GRAMMARS[r.which], "input": DEEP_INPUT[r.which], "depth": r.n, "thread_stack_MiB": r.mib,
                  "errors": [(e[0], e[1], e[2]) for e in r.errors], "first_sequences": [" ".join(q) for e in r.errors for q in e[3][:2]],
                  "value": r.value, "leaves_runs": r.leaves, "wall_ms": r.ms})
        if why:
            ctx.violation({"what": "deep parse stack at the error: " + "; ".join(why),
                           "grammar": DEEP_GRAMMARS[r.which], "input": DEEP_INPUT[r.which], "nesting_depth_n": r.n,
                           "lexemes": r.nlex, "thread_stack_MiB": r.mib, "recoverer": "CPCTPlus", "costs": "default (1)",
                           "exit_status": r.rc, "stderr_tail": r.stderr, "harness_line": (r.line or "")[:600],
                           "control_depth": DEEP_CONTROL,
                           "replay": "GRMTOOLS_VERIF_RECOVERY_BUDGET_MS=%d .work/target/release/repair deep %d %d %d"
                                     % (DEEP_BUDGET_MS, r.which, r.n, r.mib)})
        ctx.oblige(not why)
    ctx.coverage["deep_stack_wall_s"] = round(time.time() - t0, 1)
    ctx.coverage["deep_stack_rule"] = (
        "grammars %s on %s; (grammar, nesting depth, thread stack MiB) = %s; one process per run (harness `repair deep`), parse "
        "on a std::thread::Builder::stack_size thread, release profile; oracle computed analytically: exit status 0, one error "
        "at lexeme n+1, repairs()[0] = [Delete c] resp. [Insert c], the reported list = the list at depth %d with positions "
        "shifted, value present, its leaves (collected in deques, so that the harness itself does not recurse) = the repaired input"
        % (sorted(DEEP_GRAMMARS.values()), sorted(DEEP_INPUT.values()), lad, DEEP_CONTROL))


# ---- (b) the reported list, the applied sequence and (value, later errors) are a function of the input -----------------
DET_REPS = 8               # parses of one input within one process (process A)
DET_OTHER_REPS = 3         # parses within each of the further processes
DET_PROCS = 4              # the original run + 3 further processes
DET_WATCHDOG_MS = 180000
DET_MAX_REPORTS = 6


def det_family():
    """inputs whose error has MANY equally ranked repair sequences (the applied one used to be drawn by hash order)"""
    from gen.grammars import Gram
    t, rr = (lambda x: ('t', x)), (lambda x: ('r', x))
    aud = Gram(["a", "b", "c", "d", "e", "f"], [("S", [[t("a"), rr("B"), t("c")]]), ("B", [[t("b")], [t("d")], [t("e")], [t("f")]])])
    aud2 = Gram(["a", "b", "c", "d"], [("S", [[t("a"), rr("B"), t("c")]]), ("B", [[t("b")], [t("d")]])])
    audav = Gram(["a", "b", "c", "d", "e", "f"], [("S", [[t("a"), rr("B"), t("c")]]), ("B", [[t("b")], [t("d")], [t("e")], [t("f")]])],
                 avoid_insert=["b", "e"])

    def wide(k):
        return Gram(["a", "b", "c", "d", "x"], [("S", [[rr("A")] * k + [t("x")]]), ("A", [[t("a")], [t("b")], [t("c")], [t("d")]])])
    # lists: a missing element / separator has several equal-cost repairs at every error, many errors per input
    lst = Gram(["n", "m", "k", ",", ";", "(", ")"],
               [("L", [[rr("E")], [rr("L"), rr("Sep"), rr("E")]]), ("Sep", [[t(",")], [t(";")]]),
                ("E", [[t("n")], [t("m")], [t("k")], [t("("), rr("L"), t(")")]])])
    lst_in = ["n , , m".split(), "n n".split(), "( n , ) ; ; m ( k".split(), "n , ( , m ) ; k k ; ( ) n".split(), [], [","], ["("]]
    ac = [["a", "c"], ["a"], ["c"], [], ["a", "c", "c"], ["a", "a", "c"]]
    return [("manyrank_aud4", aud, "unit", {}, ac), ("manyrank_aud2", aud2, "unit", {}, ac),
            ("manyrank_aud4_avoid", audav, "unit", {}, ac), ("manyrank_aud4_costs", aud, "d3", {"d": 3, "f": 2}, ac),
            ("manyrank_wide2", wide(2), "unit", {}, [[], ["x"], ["a", "x"], ["a"]]),
            ("manyrank_wide3", wide(3), "unit", {}, [[], ["x"], ["a", "x"], ["a", "b"]]),
            ("manyrank_wide4", wide(4), "unit", {}, [[], ["x"], ["a", "b", "x"]]),
            ("manyrank_list", lst, "unit", {}, lst_in)]


def _det_line(g, costs, inputs, rep, only):
    l = case_line(g, costs, inputs)
    head, rest = l.split(" ; ", 1)
    return "%s nodump=1 rep=%d only=%s ; %s" % (head, rep, ",".join(str(i) for i in only), rest)


def _input_groups(line):
    groups = []
    for sec in line.split(" # "):
        if sec == "I" or sec.startswith("I "):
            groups.append([sec])
        elif groups:
            groups[-1].append(sec)
    return groups


class _DetRun:
    def __init__(self, group):
        self.errors, self.value, self.ms, self.dt, self.dx = [], None, 0, None, None
        # (BO, the order of the builder's setter calls, is a function of the input's index within its case line: run_cases re-runs
        # a case whose line hung input by input, each at index 0.  The RESULT must not depend on it, so it is not compared.)
        self.norm = " # ".join(s for s in group if s.split(" ", 1)[0] not in ("TM", "DT", "DX", "BO"))
        for sec in group:
            s = sec.split()
            if not s:
                continue
            if s[0] == "ER":
                self.errors.append([int(s[1]), int(s[2]), int(s[3]), []])
            elif s[0] == "RS" and self.errors:
                self.errors[-1][3].append(" ".join(s[1:]))
            elif s[0] == "VL":
                self.value = " ".join(s[1:])
            elif s[0] == "TM":
                self.ms = int(s[1])
            elif s[0] == "DT":
                self.dt = (int(s[1]), int(s[2]), int(s[3]))
            elif s[0] == "DX":
                self.dx = bytes.fromhex(s[1]).decode()

    def short(self):
        return {"errors(lexeme,state,n_repairs)": [(e[0], e[1], e[2]) for e in self.errors[:10]],
                "lists": [e[3][:8] for e in self.errors[:6]], "value": (self.value or "")[:240], "wall_ms": self.ms}


def det_diff(r0, r1, budget_ms):
    """two parses of one input -> None (identical) | ("budget", text) (one of them ran out of recovery time: allowed) |
    ("order", text) (same sets, different order) | ("differs", text)"""
    if r0.norm == r1.norm:
        return None
    for i in range(max(len(r0.errors), len(r1.errors))):
        if i >= len(r0.errors) or i >= len(r1.errors):
            return "differs", "one parse reports %d errors, the other %d (same lists and applied sequences before)" % (len(r0.errors), len(r1.errors))
        e0, e1 = r0.errors[i], r1.errors[i]
        if e0[:2] != e1[:2]:
            return "differs", "error %d is at (lexeme %d, state %d) in one parse and at (lexeme %d, state %d) in the other" % ((i,) + tuple(e0[:2]) + tuple(e1[:2]))
        if e0[3] != e1[3]:
            if not e0[3] or not e1[3]:
                if max(r0.ms, r1.ms) >= 0.5 * budget_ms:
                    return "budget", "error %d: one parse ran out of recovery time" % i
                return "differs", ("error %d carries %d sequences in one parse and none in the other, although neither came near the "
                                   "recovery budget (%d / %d ms of %d)" % (i, max(len(e0[3]), len(e1[3])), r0.ms, r1.ms, budget_ms))
            if sorted(e0[3]) == sorted(e1[3]):
                if e0[3][0] != e1[3][0]:
                    return "order", ("error %d: the same %d sequences in a different order; the APPLIED sequence (repairs()[0]) is [%s] in "
                                     "one parse and [%s] in the other" % (i, len(e0[3]), e0[3][0], e1[3][0]))
                return "order", "error %d: the same %d sequences, the same first one, the rest in a different order" % (i, len(e0[3]))
            return "differs", "error %d carries a different SET of sequences (%d vs %d)" % (i, len(e0[3]), len(e1[3]))
    if r0.value != r1.value:
        return "differs", "same errors, same lists, different value"
    return "differs", "the harness sections differ (counts of faulty-but-not-zero-length / misplaced inserted leaves)"


def determinism(ctx, results, budget_ms=BUDGET_MS):
    """clause (b): every erroneous input of `results` (as returned by run_cases; cheap ones in the quick tier) is parsed
    DET_REPS times in one further process and DET_OTHER_REPS times in two more: the repairs() LIST of every error (order
    included), hence the applied sequence, and (value, later errors) must be identical in all of them and equal to the
    original run's.  Two obligations (within a process / across processes) + one for reach (ties exist)."""
    import time
    t0 = time.time()
    exe = core.build_harness("repair")
    max_ms = ctx.n(100, 400)
    jobs = []
    for r in results:
        if not r.ok:
            continue
        if len(r.inputs) != len(r.inputs_req):
            ctx.count("det_case_skipped(input with unknown token or not returned)")
            continue
        sel = []
        for k, inp in enumerate(r.inputs):
            if not inp.errors or inp.value is None or not (inp.value.startswith("acc ") or inp.value == "none"):
                continue
            if inp.ms > max_ms:
                ctx.count("det_input_skipped_expensive(>%d ms)" % max_ms)
                continue
            sel.append(k)
        if sel:
            jobs.append((r, sel))
    if not jobs:
        return
    env = {"GRMTOOLS_VERIF_RECOVERY_BUDGET_MS": str(budget_ms), "GVH_CASE_TIMEOUT_MS": str(DET_WATCHDOG_MS)}
    outs = []
    for p in range(DET_PROCS - 1):
        rep = DET_REPS if p == 0 else DET_OTHER_REPS
        lines = [_det_line(r.gram, r.costs, r.inputs_req, rep, sel) for r, sel in jobs]
        o = core.run_lines([exe], lines, env=env)
        for i, x in enumerate(o):
            if not x.startswith("G"):
                # (watchdog / crash: once more, alone)
                o[i] = core.run_lines([exe], [lines[i]], env=env, shards=1)[0]
        outs.append((lines, o))
    bad = {"in_process": 0, "across_processes": 0}
    ties = 0

    def report(r, inp, where, kind, text, a, b, line):
        key = "in_process" if where.startswith("repeat") else "across_processes"
        if kind == "budget":
            ctx.count("det_difference_excused_budget")
            return
        if kind == "order" and not REPAIR_ORDER_FIXED:
            ctx.count("det_order_differs_tolerated(REPAIR_ORDER_FIXED=False)")
            return
        bad[key] += 1
        ctx.count("det_ALARM_%s_%s" % (key, kind))
        if ctx.hist.get("det_violation_reports", 0) >= DET_MAX_REPORTS:
            ctx.count("det_violations_not_reported(cap)")
            return
        ctx.count("det_violation_reports")
        ctx.violation({"what": "the same input parsed again (%s) does not give the same result: %s" % (where, text),
                       "grammar": r.src, "costs": r.costs, "input": r.names(inp.toks), "input_tidxs": inp.toks,
                       "conflicts": r.conflicts, "first_parse": a.short(), "other_parse": b.short(),
                       "recovery_budget_ms": budget_ms, "harness_case_line": line,
                       "replay": "echo '<harness_case_line>' | GRMTOOLS_VERIF_RECOVERY_BUDGET_MS=%d .work/target/release/repair"
                                 % budget_ms})

    for j, (r, sel) in enumerate(jobs):
        orig_groups = _input_groups(r.impl_line)
        for p, (lines, o) in enumerate(outs):
            out = o[j]
            if not out.startswith("G"):
                bad["across_processes"] += 1
                ctx.count("det_ALARM_repeat_run_does_not_return")
                if ctx.hist.get("det_violation_reports", 0) < DET_MAX_REPORTS:
                    ctx.count("det_violation_reports")
                    ctx.violation({"what": "inputs that returned (value, errors) in the first run: parsing them again (%d times each in a "
                                           "fresh process) does not return" % (DET_REPS if p == 0 else DET_OTHER_REPS),
                                   "grammar": r.src, "costs": r.costs, "inputs": [r.names(r.inputs[k].toks) for k in sel],
                                   "impl": out[:300], "harness_case_line": lines[j]})
                continue
            groups = _input_groups(out)
            if len(groups) != len(sel):
                ctx.violation({"what": "harness repair: %d input groups answered for %d selected inputs" % (len(groups), len(sel)),
                               "harness_case_line": lines[j], "broken_correspondence": "repair harness only=/rep= options"}, no_input=True)
                bad["across_processes"] += 1
                continue
            for k, grp in zip(sel, groups):
                inp = r.inputs[k]
                first = _DetRun(orig_groups[k]) if k < len(orig_groups) else None
                run = _DetRun(grp)
                if p == 0:
                    ctx.count("det_inputs")
                    ctx.count("det_errors", len(run.errors))
                    t = sum(1 for e in run.errors if len(e[3]) >= 2)
                    ties += t
                    ctx.count("det_errors_with_several_sequences", t)
                    ctx.count("det_errors_with_10+_sequences", sum(1 for e in run.errors if len(e[3]) >= 10))
                ctx.count("det_parses", (run.dt[0] if run.dt else 1))
                if run.dt and run.dt[1]:
                    other = _DetRun(run.dx.split(" # ")) if run.dx else run
                    d = det_diff(run, other, budget_ms) or ("differs", "sections differ")
                    report(r, inp, "repeat within one process: %d of %d repeats differ from the first parse" % (run.dt[1], run.dt[0]),
                           d[0], d[1], run, other, lines[j])
                if first is not None:
                    d = det_diff(first, run, budget_ms)
                    if d:
                        report(r, inp, "a separate process (process %d of %d)" % (p + 2, DET_PROCS), d[0], d[1], first, run, lines[j])
    ctx.oblige(bad["in_process"] == 0)
    ctx.oblige(bad["across_processes"] == 0)
    if ties == 0:
        ctx.violation({"what": "no evaluated error carries two or more repair sequences: the determinism clause no longer sees a tie",
                       "broken_correspondence": "vlib/repair.py determinism: family with many equally ranked repairs"}, no_input=True)
    ctx.oblige(ties > 0)
    ctx.coverage["determinism_wall_s"] = round(time.time() - t0, 1)
    ctx.coverage["determinism_rule"] = (
        "every input of the run that reports an error and returned (parse <= %d ms in this tier; the rest counted) is parsed again: "
        "%d times within one fresh process and %d times in each of %d more (so %d processes with the original run); compared: the "
        "complete ER/RS/VL/ZL/ZP sections = repairs() list of every error with its order, applied sequence, later errors, value tree, "
        "leaf-flag counts (not TM, nor BO: the builder-call order is an input of the harness that the result must not depend on). "
        "A difference is excused only where one of the two parses reports NO sequence for the first differing error after >= half "
        "the recovery budget (the property allows giving up on time).  Families with many equally ranked sequences: %s"
        % (max_ms, DET_REPS, DET_OTHER_REPS, DET_PROCS - 2, DET_PROCS, ", ".join(c[0] for c in det_family())))
