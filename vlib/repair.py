"""Shared driver of the error-recovery checks (C05, C07): run the `repair` harness
(Parser::lr with CPCT+, all repair sequences reported) and the extracted mirror
(Repair/Semantics.v) on the same dumps; independent Python oracles."""
from vlib import core, cfg

BUDGET_MS = 1200          # recovery time budget given to the implementation (hook)
CASE_TIMEOUT_MS = 40000   # watchdog per case line
ONE_TIMEOUT_MS = 7000     # watchdog when a single input is re-run in isolation
ONE_BUDGET_MS = 1500


def case_line(g, costs, inputs, kind="O"):
    src = g if isinstance(g, str) else g.render()
    cs = " ".join("%s=%d" % (k, v) for k, v in sorted(costs.items()))
    # (no trailing separator: an empty part after ';' IS the empty input)
    return "%s %s ; costs %s%s" % (kind, src.encode().hex(), cs, "".join(" ; " + " ".join(i) for i in inputs))


def sections(line):
    return [s.split() for s in line.split(" # ")]


class Inp:
    """one parsed input: what the implementation reported and what the mirror says"""

    def __init__(self, toks):
        self.toks = toks
        self.errors = []          # [pos, state, nseq, [seq...]] ; seq = list of step strings I<t> D<i> S<i>
        self.value = None         # 'acc <tree>' | 'none' | 'panic …' | 'lexerr' | 'hang'
        self.ms = 0
        self.odd_lexemes = 0      # leaves that are faulty xor zero-length
        self.misplaced_inserts = 0  # inserted (zero-length) leaves that are not at the start of the next real lexeme
        self.costs_first = None   # BO section: True = the harness called .term_costs(..) BEFORE .recoverer(..) for this input
        self.model = {}           # facts of the J section
        self.model_value = None

    def first_seqs(self):
        return [e[3][0] if e[3] else None for e in self.errors]


class RepResult:
    def __init__(self, fam, gram, src, cname, costs, inputs_req, impl_line, model_line):
        self.fam, self.gram, self.src, self.cname, self.costs = fam, gram, src, cname, costs
        self.inputs_req = inputs_req
        self.impl_line, self.model_line = impl_line, model_line
        self.ok = impl_line.startswith("G ")
        self.err = None if self.ok else impl_line
        self.secs = sections(impl_line) if self.ok else []
        self.nstates, self.conflicts = 0, None
        self.PN, self.TRYMAX, self.budget = 3, 250, 0
        self.cost_by_tidx, self.avoid = [], []
        self.inputs = []
        self.sr_cells, self.rr_cells = [], []
        cur = None
        for s in self.secs:
            if not s:
                continue
            k = s[0]
            if k == "N":
                self.nstates = int(s[1])
            elif k == "X" and s[1] != "none":
                self.conflicts = (int(s[1]), int(s[2]))
            elif k == "XS":
                self.sr_cells.append(tuple(int(x) for x in s[1:]))
            elif k == "XR":
                self.rr_cells.append(tuple(int(x) for x in s[1:]))
            elif k == "KN":
                self.PN, self.TRYMAX, self.budget = int(s[1]), int(s[2]), int(s[3])
            elif k == "CO":
                self.cost_by_tidx = [int(x) for x in s[1:]]
            elif k == "AV":
                self.avoid = [int(x) for x in s[1:]]
            elif k == "I":
                cur = Inp([int(x) for x in s[1:]])
                self.inputs.append(cur)
            elif k == "BO" and cur is not None and len(s) > 1:
                cur.costs_first = s[1] == "1"
            elif k == "ER" and cur is not None:
                cur.errors.append([int(s[1]), int(s[2]), int(s[3]), []])
            elif k == "RS" and cur is not None and cur.errors:
                cur.errors[-1][3].append(s[1:])
            elif k == "VL" and cur is not None:
                cur.value = " ".join(s[1:])
            elif k == "ZL" and cur is not None:
                cur.odd_lexemes = int(s[1])
            elif k == "ZP" and cur is not None:
                cur.misplaced_inserts = int(s[1])
            elif k == "TM" and cur is not None:
                cur.ms = int(s[1])
        self.verdict = {}
        if self.ok and model_line and model_line.startswith("V "):
            js = []
            for s in sections(model_line):
                if not s:
                    continue
                if s[0] == "V":
                    for kv in s[1:]:
                        a, b = kv.split("=")
                        self.verdict[a] = (b == "1")
                elif s[0] == "J":
                    d = {}
                    for kv in s[1:]:
                        a, b = kv.split("=", 1)
                        d[a] = b
                    js.append(d)
                elif s[0] == "MV" and js:
                    js[-1]["mvalue"] = " ".join(s[1:])
            for inp, j in zip(self.inputs, js):
                inp.model = j
        self.dgram = cfg.DGram(self.secs) if self.ok else None

    def tname(self, t):
        return self.dgram.tnames.get(t, "<eof>")

    def names(self, toks):
        return [self.tname(x) for x in toks]

    def eps_cycles(self):
        """(token, [states]) such that under lookahead token the table reduces empty productions
        round a cycle of states: Parser::lr never leaves it (the stack grows for ever)"""
        act, goto = {}, {}
        for s in self.secs:
            if s and s[0] == "A" and s[3] == "R":
                act[(int(s[1]), int(s[2]))] = int(s[4])
            elif s and s[0] == "T":
                goto[(int(s[1]), int(s[2]))] = int(s[3])
        g = self.dgram
        res = []
        for tok in range(g.ntoks):
            nxt = {}
            for (st, a), p in act.items():
                if a == tok and len(g.prods[p][1]) == 0 and (st, g.prods[p][0]) in goto:
                    nxt[st] = goto[(st, g.prods[p][0])]
            for s0 in nxt:
                seen, s = [], s0
                while s in nxt and s not in seen:
                    seen.append(s)
                    s = nxt[s]
                if s in seen:
                    cyc = seen[seen.index(s):]
                    if s0 == min(cyc):
                        res.append((tok, cyc))
        return res


BUILDER_ORDER_RULE = ("the order of the builder's setter calls is an input of the `repair`/`stall` harness: "
                      ".recoverer(CPCTPlus).term_costs(f) when (index of the input within its case line + number of lexemes of the "
                      "input) is even, .term_costs(f).recoverer(CPCTPlus) when it is odd (reported per input in the BO section); the "
                      "models know nothing about an order, so a result that depends on it (e.g. a cost function dropped by a later "
                      "setter) shows as a difference on the inputs with non-unit costs")


MODEL_ERR_CAP = 301       # the OCaml driver replays at most 300 errors per input and flags the rest as truncated


def shrink_for_model(line):
    """drop the ER/RS sections of errors beyond the model's cap (an input can carry hundreds of thousands of
    errors when a repair does not move the parser on); the Python checks still see all of them"""
    if line.count(" # ER ") <= MODEL_ERR_CAP:
        return line
    out, n, skipping = [], 0, False
    for sec in line.split(" # "):
        k = sec.split(" ", 1)[0]
        if k == "I":
            n, skipping = 0, False
        elif k == "ER":
            n += 1
            skipping = n > MODEL_ERR_CAP
        if skipping and k in ("ER", "RS"):
            continue
        out.append(sec)
    return " # ".join(out)


def _stitch(dump_line, per_input):
    """dump (no inputs) + per-input tails"""
    out = dump_line
    for tail in per_input:
        out += tail
    return out


def run_cases(cases, budget_ms=BUDGET_MS):
    """cases: list of (family, Gram, costname, costs, inputs) -> list of RepResult"""
    exe = core.build_harness("repair")
    mexe = core.build_model("repair")
    lines = [case_line(g, costs, inputs) for _, g, _, costs, inputs in cases]
    env = {"GRMTOOLS_VERIF_RECOVERY_BUDGET_MS": str(budget_ms), "GVH_CASE_TIMEOUT_MS": str(CASE_TIMEOUT_MS)}
    impl = core.run_lines([exe], lines, env=env)
    # a HANG/CRASH loses the whole case line: redo that case input by input under a short watchdog
    for i, out in enumerate(impl):
        if out.startswith("HANG") or out.startswith("CRASH"):
            _, g, _, costs, inputs = cases[i]
            sub = [case_line(g, costs, [])] + [case_line(g, costs, [inp]) for inp in inputs]
            env1 = {"GRMTOOLS_VERIF_RECOVERY_BUDGET_MS": str(ONE_BUDGET_MS), "GVH_CASE_TIMEOUT_MS": str(ONE_TIMEOUT_MS)}
            outs = core.run_lines([exe], sub, env=env1, shards=min(core.NPROC, len(sub)))
            if not outs[0].startswith("G "):
                continue
            names = {}
            for sct in sections(outs[0]):
                if sct and sct[0] == "TN":
                    names[bytes.fromhex(sct[2]).decode()] = sct[1]
            tails = []
            for inp, o in zip(inputs, outs[1:]):
                if o.startswith("G "):
                    k = o.find(" # I")
                    tails.append(o[k:] if k >= 0 else "")
                elif all(x in names for x in inp):
                    tails.append(" # I %s # VL %s # TM %d" % (" ".join(names[x] for x in inp), o.split()[0].lower(), ONE_TIMEOUT_MS))
            impl[i] = _stitch(outs[0], tails)
    model = core.run_lines([mexe], [shrink_for_model(l) for l in impl])
    return [RepResult(c[0], c[1], c[1].render() if not isinstance(c[1], str) else c[1], c[2], c[3], c[4], a, b)
            for c, a, b in zip(cases, impl, model)]


def expected_leaves(inp):
    """leaves (tok, lexeme idx, faulty) of the repaired input: the implementation's own first
    sequence of every error applied — deleted lexemes dropped, inserted tokens as zero-length
    faulty lexemes at the position of the next real lexeme, shifted ones kept"""
    out, pos = [], 0
    n = len(inp.toks)
    for e in inp.errors:
        p, seqs = e[0], e[3]
        if p < pos or not seqs:
            break
        out += [(inp.toks[i], i, False) for i in range(pos, min(p, n))]
        cur = p
        for st in seqs[0]:
            if st[0] == "I":
                out.append((int(st[1:]), cur, True))
            elif st[0] == "D":
                cur += 1
            else:
                if cur < n:
                    out.append((inp.toks[cur], cur, False))
                cur += 1
        pos = cur
    out += [(inp.toks[i], i, False) for i in range(pos, n)]
    return out


def single_input_line(impl_line, k):
    """the dump part of an implementation line + the sections of its k-th input only"""
    secs = impl_line.split(" # ")
    head, groups = [], []
    for sec in secs:
        if sec.split(" ", 1)[0] == "I" or sec == "I":
            groups.append([sec])
        elif groups:
            groups[-1].append(sec)
        else:
            head.append(sec)
    return " # ".join(head + (groups[k] if k < len(groups) else []))


def search_mirror_sets(r, k):
    """Run the extracted mirror of the bucketed search (C06/Mirror.v, the code as it is now) on input k of r.
    -> list per error of (status, set of plain sequence strings | None), or None when the model gave no answer.
    Used to tell the KNOWN class 'the search as written reports a sequence that does not repair on a conflict-resolved
    table' from any OTHER way of reporting a bad sequence: the known class is what the faithful mirror reproduces."""
    from checks import C06 as c06
    mexe = core.build_model("c06")
    line = shrink_for_model(single_input_line(r.impl_line, k)) + " # OPT ncap=150000 maxedits=6 mfuel=10000 mirrors=2"
    try:
        out = core.run_lines([mexe], [line], shards=1, timeout=300)[0]
    except Exception:
        return None
    if not out.startswith("V "):
        return None
    _, minputs = c06.parse_model(out)
    if not minputs:
        return None
    res = []
    for m in minputs[0]:
        if m.status != "ok" or m.mf is None or m.mf[0] != "done":
            res.append((m.status if m.status != "ok" else "nomirror", None, (m.pos, m.st)))
        else:
            res.append(("done", set(m.mf[1]), (m.pos, m.st)))
    return res


def plain_seq(seq):
    return " ".join(st if st[0] == "I" else st[0] for st in seq) or "-"


def known_class_confirmed(r, k, error_indices):
    """True: at every listed error the faithful search mirror reports exactly the implementation's set (the bad sequence
    is what the search as written produces: the recorded class).  False: the mirror ran and reports something else (a
    different defect).  None: the mirror could not be consulted for some listed error (left to the recorded class)."""
    ms = search_mirror_sets(r, k)
    if ms is None:
        return None
    inp = r.inputs[k]
    verdict = True
    for ei in error_indices:
        if ei >= len(ms) or ei >= len(inp.errors):
            return None
        st, mset, cfgm = ms[ei]
        if st != "done" or cfgm != (inp.errors[ei][0], inp.errors[ei][1]):
            verdict = None if verdict is True else verdict
            continue
        if mset != set(plain_seq(s) for s in inp.errors[ei][3]):
            return False
    return verdict
