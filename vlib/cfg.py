"""Independent oracles over a dumped grammar (used to search for failing inputs):
Earley recogniser / viable-prefix test, parse-tree validity, productivity."""


class DGram:
    """grammar as dumped by the harness (sections = list of token lists)"""

    def __init__(self, secs):
        self.prods = []           # (lhs, [sym codes])
        self.tprec, self.pprec = {}, {}
        self.tnames, self.rnames = {}, {}
        for s in secs:
            if not s:
                continue
            if s[0] == "G":
                self.ntoks, self.nrules, self.eof, self.start_prod = map(int, s[1:5])
            elif s[0] == "P":
                self.prods.append((int(s[1]), [int(x) for x in s[2:]]))
            elif s[0] == "TP":
                self.tprec[int(s[1])] = (int(s[2]), int(s[3]))
            elif s[0] == "PP":
                self.pprec[int(s[1])] = (int(s[2]), int(s[3]))
            elif s[0] == "TN":
                self.tnames[int(s[1])] = bytes.fromhex(s[2]).decode()
            elif s[0] == "RN":
                self.rnames[int(s[1])] = bytes.fromhex(s[2]).decode()
        self.by_rule = {}
        for i, (l, r) in enumerate(self.prods):
            self.by_rule.setdefault(l, []).append(i)
        sp = self.prods[self.start_prod][1]
        self.user_start = (sp[0] - 1) // 2 if len(sp) == 1 and sp[0] % 2 == 1 else None
        self._nullable = None

    def nullable(self):
        if self._nullable is None:
            nl = set()
            ch = True
            while ch:
                ch = False
                for l, r in self.prods:
                    if l not in nl and all(x % 2 == 1 and (x // 2) in nl for x in r):
                        nl.add(l)
                        ch = True
            self._nullable = nl
        return self._nullable

    def productive(self):
        pr = set()
        ch = True
        while ch:
            ch = False
            for l, r in self.prods:
                if l not in pr and all(x % 2 == 0 or (x // 2) in pr for x in r):
                    pr.add(l)
                    ch = True
        return pr

    def all_productive(self):
        return len(self.productive()) == self.nrules

    def earley(self, toks, start=None):
        """returns (accepted, viable) where viable[k] = S_k non-empty (k = 0..len)"""
        start = self.user_start if start is None else start
        nl = self.nullable()
        n = len(toks)
        S = [set() for _ in range(n + 1)]
        for p in self.by_rule.get(start, []):
            S[0].add((p, 0, 0))
        viable = []
        for k in range(n + 1):
            todo = list(S[k])
            while todo:
                p, d, o = todo.pop()
                rhs = self.prods[p][1]
                if d < len(rhs):
                    x = rhs[d]
                    if x % 2 == 1:
                        r = x // 2
                        for q in self.by_rule.get(r, []):
                            it = (q, 0, k)
                            if it not in S[k]:
                                S[k].add(it)
                                todo.append(it)
                        if r in nl:
                            it = (p, d + 1, o)
                            if it not in S[k]:
                                S[k].add(it)
                                todo.append(it)
                    else:
                        if k < n and toks[k] == x // 2:
                            S[k + 1].add((p, d + 1, o))
                else:
                    l = self.prods[p][0]
                    for (p2, d2, o2) in list(S[o]):
                        rhs2 = self.prods[p2][1]
                        if d2 < len(rhs2) and rhs2[d2] == 2 * l + 1:
                            it = (p2, d2 + 1, o2)
                            if it not in S[k]:
                                S[k].add(it)
                                todo.append(it)
            viable.append(len(S[k]) > 0)
            if not S[k]:
                viable += [False] * (n - k)
                break
        acc = len(viable) == n + 1 and viable[n] and any(
            self.prods[p][0] == start and d == len(self.prods[p][1]) and o == 0 for (p, d, o) in S[n])
        return acc, viable


def parse_tree(s):
    """'(1 (2 [1 0]) [0 2])' -> ('n', ridx, kids) / ('t', tok, idx, faulty)"""
    toks = s.replace("(", " ( ").replace(")", " ) ").replace("[", " [ ").replace("]", " ] ").split()
    pos = [0]

    def go():
        t = toks[pos[0]]
        if t == "(":
            pos[0] += 1
            r = int(toks[pos[0]])
            pos[0] += 1
            kids = []
            while toks[pos[0]] != ")":
                kids.append(go())
            pos[0] += 1
            return ("n", r, kids)
        if t == "[":
            tok, idx = int(toks[pos[0] + 1]), int(toks[pos[0] + 2])
            faulty = toks[pos[0] + 3] == "f"
            pos[0] += 5 if faulty else 4
            return ("t", tok, idx, faulty)
        raise ValueError("bad tree " + s)
    return go()


def tree_leaves(t):
    if t[0] == "t":
        return [t]
    return [l for k in t[2] for l in tree_leaves(k)]


def tree_valid(g, t):
    """every node's children spell one production of its rule"""
    if t[0] == "t":
        return True
    r, kids = t[1], t[2]
    spelled = [2 * k[1] if k[0] == "t" else 2 * k[1] + 1 for k in kids]
    if not any(g.prods[p][1] == spelled for p in g.by_rule.get(r, [])):
        return False
    return all(tree_valid(g, k) for k in kids)
