"""Shared machinery of the grmtools verification checks.

Every check is `checks/Cxx.py` with a function `run(ctx)`; `./check Cxx --tier
quick|thorough` builds what is needed from /repo's current working tree, runs
the proof gate, calls `run`, writes evidence/Cxx.json and prints VIOLATION /
KNOWN-FINDING lines.
"""
import concurrent.futures
import hashlib
import json
import os
import random
import re
import subprocess
import sys
import time

VERIF = os.path.dirname(os.path.dirname(os.path.abspath(__file__)))
REPO = os.environ.get("GV_REPO", "/repo")
WORK = os.path.join(VERIF, ".work")
COQ = os.path.join(VERIF, "coq")
# GV_SCRATCH=<dir>: development aid for mutation testing — use <dir>/harness (a copy of
# harness/ whose path dependencies point at <dir>/repo), <dir>/target, and write evidence and
# replays under <dir>/out instead of /verif.  Never set by the registered commands.
SCRATCH = os.environ.get("GV_SCRATCH")
HARNESS = os.path.join(SCRATCH, "harness") if SCRATCH else os.path.join(VERIF, "harness")
TARGET = os.path.join(SCRATCH, "target") if SCRATCH else os.path.join(WORK, "target")
OUTDIR = os.path.join(SCRATCH, "out") if SCRATCH else VERIF
if SCRATCH:
    REPO = os.path.join(SCRATCH, "repo")
NPROC = os.cpu_count() or 4
GUARD = "grmtools_verif"

FORBIDDEN = re.compile(
    r"\b(Admitted|admit|Axiom|Axioms|Parameter|Parameters|Conjecture|Conjectures|"
    r"bypass_check|native_compute|Program\s+Fixpoint)\b|Unset\s+Guard|Unset\s+Positivity|"
    r"Unset\s+Universe\s+Checking|type-in-type|impredicative-set|Admit\s+Obligations"
)
# axioms of the standard library that a property theorem may depend on (none so far)
ALLOWED_AXIOMS = set()


def _limits():
    import resource
    resource.setrlimit(resource.RLIMIT_AS, (12 << 30, 12 << 30))
    # the extracted OCaml models recurse on the native stack (non-tail-recursive list functions, fuelled loops):
    # give them as much stack as the hard limit allows (a model runner dying of Stack_overflow is a machinery failure,
    # never a verdict about the implementation)
    try:
        soft, hard = resource.getrlimit(resource.RLIMIT_STACK)
        want = hard if hard != resource.RLIM_INFINITY else (4 << 30)
        if soft == resource.RLIM_INFINITY or soft >= want:
            return
        resource.setrlimit(resource.RLIMIT_STACK, (want, hard))
    except Exception:
        pass


def sh(cmd, cwd=None, timeout=None, env=None, input=None, check=False, limit_mem=False):
    e = dict(os.environ)
    e.setdefault("CARGO_NET_OFFLINE", "true")
    if env:
        e.update(env)
    p = subprocess.run(cmd, cwd=cwd, timeout=timeout, env=e, input=input,
                       stdout=subprocess.PIPE, stderr=subprocess.PIPE, text=True,
                       shell=isinstance(cmd, str), preexec_fn=_limits if limit_mem else None)
    if check and p.returncode != 0:
        raise RuntimeError("command failed: %s\n%s\n%s" % (cmd, p.stdout[-4000:], p.stderr[-4000:]))
    return p


def strip_coq_comments(s):
    out, depth, i = [], 0, 0
    while i < len(s):
        if s.startswith("(*", i):
            depth += 1
            i += 2
        elif s.startswith("*)", i) and depth > 0:
            depth -= 1
            i += 2
        else:
            if depth == 0:
                out.append(s[i])
            i += 1
    return "".join(out)


class GateFailure(Exception):
    def __init__(self, what, detail):
        super().__init__(what)
        self.what, self.detail = what, detail


def coq_files():
    r = []
    for d, _, fs in os.walk(os.path.join(COQ, "theories")):
        for f in fs:
            if f.endswith(".v"):
                r.append(os.path.join(d, f))
    for f in os.listdir(os.path.join(COQ, "extract")):
        if f.endswith(".v"):
            r.append(os.path.join(COQ, "extract", f))
    return sorted(r)


def proof_gate(prop, pregen=None):
    """Build the Coq development (full .vo), audit it, re-check the property
    file and return (n_theorems, assumptions_report, names)."""
    os.makedirs(WORK, exist_ok=True)
    if pregen:
        pregen()
    sh("./mkproject.sh", cwd=COQ, check=True)
    # full .vo build of the property file and everything it depends on (never -vos/-vok)
    p = sh("timeout 3000 make -j%d theories/Properties/%s.vo 2>&1" % (NPROC, prop), cwd=COQ)
    if p.returncode != 0:
        raise GateFailure("coq-build", p.stdout[-6000:])
    # hygiene audit over every source file
    bad = []
    for f in coq_files():
        src = strip_coq_comments(open(f).read())
        for m in FORBIDDEN.finditer(src):
            bad.append("%s: %s" % (os.path.relpath(f, VERIF), m.group(0)))
    proj = open(os.path.join(COQ, "_CoqProject")).read()
    if re.search(r"type-in-type|impredicative-set|-vos|-vok", proj):
        bad.append("_CoqProject: forbidden flag")
    if bad:
        raise GateFailure("hygiene", "\n".join(bad))
    pf = os.path.join(COQ, "theories", "Properties", "%s.v" % prop)
    src = strip_coq_comments(open(pf).read())
    thms = re.findall(r"\b(?:Theorem|Corollary)\s+(\w+)", src)
    if not thms:
        raise GateFailure("properties-file", "no theorem in %s" % pf)
    if re.search(r"\b(Lemma|Definition|Fixpoint|Inductive|Ltac|Hint)\b", src):
        raise GateFailure("properties-file", "%s may contain only Theorem/exact/Print Assumptions" % pf)
    padir = os.path.join(WORK, "pa")
    os.makedirs(padir, exist_ok=True)
    p = sh(["timeout", "600", "coqc", "-q", "-Q", "theories", "GV", "-o",
            os.path.join(padir, prop + ".vo"), pf], cwd=COQ)
    if p.returncode != 0:
        raise GateFailure("properties-file", p.stdout[-3000:] + p.stderr[-3000:])
    out = p.stdout
    closed = out.count("Closed under the global context")
    axioms = []
    for blk in re.findall(r"Axioms:\n((?:.+\n?)+?)(?:\n|$)", out):
        for l in blk.splitlines():
            m = re.match(r"^(\S+)\s*:", l)
            if m:
                axioms.append(m.group(1))
    n_pa = len(re.findall(r"Print\s+Assumptions", src))
    if n_pa < len(thms):
        raise GateFailure("properties-file", "a theorem lacks its Print Assumptions")
    notallowed = [a for a in axioms if a not in ALLOWED_AXIOMS]
    if notallowed:
        raise GateFailure("assumptions", "axioms not on the allow-list: %s" % notallowed)
    if closed + (1 if axioms else 0) == 0:
        raise GateFailure("assumptions", "no Print Assumptions output:\n" + out[-2000:])
    return {"theorems": thms, "closed": closed, "axioms": sorted(set(axioms))}


_built = {}


def build_harness(binname, profile="release"):
    """cargo build of one harness binary (harness/src/bin/<binname>.rs) against
    /repo's current working tree, hooks on."""
    key = (binname, profile)
    if key in _built:
        return _built[key]
    lock = os.path.join(HARNESS, "Cargo.lock")
    if not os.path.exists(lock):
        sh(["cp", os.path.join(REPO, "Cargo.lock"), lock], check=True)
    cmd = ["cargo", "build", "--offline", "--bin", binname] + (["--release"] if profile == "release" else [])
    p = sh(cmd, cwd=HARNESS, env={"RUSTFLAGS": "--cfg %s" % GUARD, "CARGO_TARGET_DIR": TARGET}, timeout=3000)
    if p.returncode != 0:
        raise GateFailure("harness-build", p.stderr[-6000:])
    exe = os.path.join(TARGET, "release" if profile == "release" else "debug", binname)
    _built[key] = exe
    return exe


def build_model(p):
    """extract + compile the OCaml model runner for property p ('c19')."""
    exe = os.path.join(WORK, "ocaml", p, "gvm_" + p)
    srcs = [os.path.join(VERIF, "ocaml", "common", "conv.ml"),
            os.path.join(VERIF, "ocaml", p, "driver_body.ml"),
            os.path.join(COQ, "extract", p.upper() + ".v")]
    # any .vo newer than the exe forces re-extraction
    newest = max(os.path.getmtime(s) for s in srcs)
    for d, _, fs in os.walk(os.path.join(COQ, "theories")):
        for f in fs:
            if f.endswith(".vo"):
                newest = max(newest, os.path.getmtime(os.path.join(d, f)))
    # the modules the extraction file requires must be compiled (they need not be dependencies of Properties/Cxx.v,
    # e.g. a Run.v that only the extraction uses): build them through the Makefile, do not rely on an earlier full make
    deps = []
    for m in re.finditer(r"From\s+GV\s+Require(.*?)\.\s", open(srcs[2]).read() + " ", re.S):
        for mod in re.findall(r"[A-Za-z_]\w*(?:\.[A-Za-z_]\w*)+", m.group(1)):
            f = os.path.join("theories", *mod.split(".")) + ".vo"
            if os.path.exists(os.path.join(COQ, f[:-1])):
                deps.append(f)
    missing = [f for f in deps if not os.path.exists(os.path.join(COQ, f))
               or os.path.getmtime(os.path.join(COQ, f)) < os.path.getmtime(os.path.join(COQ, f[:-1]))]
    if missing:
        if not os.path.exists(os.path.join(COQ, "Makefile")):
            sh(["./mkproject.sh"], cwd=COQ, timeout=300)
        r = sh(["timeout", "3000", "make", "-j%d" % NPROC] + missing, cwd=COQ)
        if r.returncode != 0:
            raise GateFailure("model-build (coq modules of the extraction)", r.stdout[-3000:] + r.stderr[-3000:])
        newest = time.time()
    if not os.path.exists(exe) or os.path.getmtime(exe) < newest:
        r = sh([os.path.join(VERIF, "ocaml", "build.sh"), p], timeout=1200)
        if r.returncode != 0:
            raise GateFailure("model-build", r.stdout[-3000:] + r.stderr[-3000:])
    return exe


def run_lines(cmd, lines, shards=None, timeout=1200, env=None, max_bad=None):
    """Feed `lines` to `cmd` (list), sharded over processes; returns output lines
    in order.  One output line per input line is required.  With `max_bad`, a shard
    that has produced that many HANG/CRASH results answers "SKIPPED" for its remaining
    cases (each hang costs a watchdog period: a change that makes thousands of cases
    hang must still let the check finish and report the first ones)."""
    if not lines:
        return []
    if any(not l.strip() or "\n" in l for l in lines):
        raise ValueError("run_lines: a case line is blank or contains a newline (would misalign results)")
    shards = shards or min(NPROC, max(1, len(lines) // 4))
    chunks = [lines[i::shards] for i in range(shards)]

    def one(ch):
        # a harness process may stop early after printing HANG/CRASH for a case
        # (watchdog) or die; restart it on the remaining cases
        res = []
        guard = 0
        while len(res) < len(ch) and guard < len(ch) + 2:
            guard += 1
            if max_bad is not None and sum(1 for r in res if r.startswith("HANG") or r.startswith("CRASH")) >= max_bad:
                res.extend(["SKIPPED"] * (len(ch) - len(res)))
                break
            rest = ch[len(res):]
            try:
                p = sh(cmd, input="\n".join(rest) + "\n", timeout=timeout, env=env, limit_mem=True)
                out = p.stdout.splitlines()
            except subprocess.TimeoutExpired as e:
                out = (e.stdout or b"").decode(errors="replace").splitlines() if isinstance(e.stdout, bytes) else (e.stdout or "").splitlines()
                out = out + ["HANG"] if len(out) < len(rest) else out
                res.extend(out[:len(rest)])
                continue
            if len(out) < len(rest):
                if not out or not (out[-1].startswith("HANG") or out[-1].startswith("CRASH")):
                    out.append("CRASH rc=%s %s" % (p.returncode, (p.stderr or "")[-200:].replace("\n", " ")))
            res.extend(out[:len(rest)])
        while len(res) < len(ch):
            res.append("CRASH unknown")
        return res

    with concurrent.futures.ThreadPoolExecutor(max_workers=shards) as ex:
        outs = list(ex.map(one, chunks))
    res = [None] * len(lines)
    for i, o in enumerate(outs):
        for k, l in enumerate(o):
            res[i + k * shards] = l
    return res


def load_known():
    f = os.path.join(VERIF, "known_findings.json")
    if not os.path.exists(f):
        return []
    return json.load(open(f))


class Ctx:
    def __init__(self, prop, tier, seed):
        self.prop, self.tier, self.seed = prop, tier, seed
        self.rng = random.Random(seed * 1000003 + int(hashlib.sha1(prop.encode()).hexdigest()[:6], 16))
        self.violations = []       # (replay_path, note, no_input)
        self.known_hits = []
        self.coverage = {}
        self.assumptions = []
        self.t0 = time.time()
        self.known = [k for k in load_known() if k.get("property") == prop and k.get("status") == "known"]
        self.gate = None
        self.obligations = 0
        self.discharged = 0
        self.seen = set()
        self.evaluations = 0
        self.nontrivial = 0
        self.samples = []
        self.hist = {}

    @property
    def quick(self):
        return self.tier == "quick"

    def n(self, quick, thorough):
        return quick if self.quick else thorough

    def count(self, key, k=1):
        self.hist[key] = self.hist.get(key, 0) + k

    def case(self, canon, nontrivial, sample=None):
        """account one evaluated case; canon = canonical string for distinctness"""
        self.evaluations += 1
        h = hashlib.sha1(canon.encode()).hexdigest()
        if h not in self.seen:
            self.seen.add(h)
            if nontrivial:
                self.nontrivial += 1
                if sample is not None and len(self.samples) < 5:
                    self.samples.append(sample)

    def oblige(self, ok, what=None):
        self.obligations += 1
        if ok:
            self.discharged += 1

    def replay_path(self, data):
        d = os.path.join(OUTDIR, "replays", self.prop)
        os.makedirs(d, exist_ok=True)
        body = json.dumps(data, indent=1, sort_keys=True, ensure_ascii=False)
        h = hashlib.sha1(body.encode()).hexdigest()[:12]
        path = os.path.join(d, h + ".json")
        with open(path, "w") as f:
            f.write(body + "\n")
        return path

    def violation(self, data, known_key=None, no_input=False):
        """report a violation unless it matches a known finding (matched by
        `known_key`, a string naming the failing class)."""
        data = dict(data)
        data.setdefault("property", self.prop)
        data.setdefault("seed", self.seed)
        data.setdefault("kind", "correspondence-only" if no_input else "counterexample")
        if known_key:
            for k in self.known:
                if k.get("match") == known_key:
                    if k["id"] not in [x["id"] for x in self.known_hits]:
                        self.known_hits.append(k)
                    return
        # separate caps: a flood of broken-correspondence reports must not crowd out a concrete failing input
        if sum(1 for _, ni in self.violations if ni == no_input) < (12 if no_input else 20):
            path = self.replay_path(data)
            self.violations.append((path, no_input))

    def finish(self, level="proof", explanation=None):
        if not self.violations and self.discharged < self.obligations and not self.known_hits:
            # an obligation failed but neither a violation nor a listed known finding accounts for it: never
            # let that pass silently (the restriction below is only for obligations matched by known findings)
            self.violation({"what": "%d obligation(s) of the check were not discharged and no violation was reported for them"
                                    % (self.obligations - self.discharged),
                            "broken": "check-obligation"}, no_input=True)
        for k in self.known_hits:
            print("KNOWN-FINDING: property=%s %s" % (self.prop, k.get("note", k["id"])))
        for path, no_input in sorted(self.violations, key=lambda x: x[1]):
            print("VIOLATION property=%s replay=%s%s" % (self.prop, path,
                  " no-failing-input-found" if no_input else ""))
        cov = dict(self.coverage)
        if not self.violations and self.discharged < self.obligations:
            # every failed obligation was matched by a listed known finding: the claim made on
            # this tree is the one restricted to inputs outside the known classes
            # (forall x, ~ KnownClass x -> P x); say so instead of counting them as demanded
            cov["obligations_restricted_by_known_findings"] = self.obligations - self.discharged
            self.obligations = self.discharged
        cov.update({
            "evaluations": self.evaluations,
            "distinct_nontrivial": self.nontrivial,
            "samples": self.samples,
            "obligations": self.obligations,
            "discharged": self.discharged,
            "checker_cmd": "make -C coq (coqc 8.16.1, full .vo) + coqc theories/Properties/%s.v (Print Assumptions) + hygiene grep; "
                           "correspondence: harness (Rust, /repo working tree) vs extracted model" % self.prop,
            "trusted_base": TRUSTED_BASE + self.coverage.get("trusted_base_extra", []),
            "input_distribution": self.hist,
            "known_findings_reproduced": [k["id"] for k in self.known_hits],
        })
        cov.pop("trusted_base_extra", None)
        if self.gate:
            cov["theorems"] = self.gate["theorems"]
            cov["print_assumptions"] = {"closed_under_global_context": self.gate["closed"], "axioms": self.gate["axioms"]}
        if explanation:
            cov["explanation"] = explanation
        ev = {
            "property_id": self.prop, "tier": self.tier, "seed": self.seed, "level": level,
            "coverage": cov, "assumptions": self.assumptions,
            "wall_s": round(time.time() - self.t0, 2), "violations": len(self.violations),
        }
        os.makedirs(os.path.join(OUTDIR, "evidence"), exist_ok=True)
        with open(os.path.join(OUTDIR, "evidence", self.prop + ".json"), "w") as f:
            json.dump(ev, f, indent=1, ensure_ascii=False)
            f.write("\n")
        return 1 if self.violations else 0


TRUSTED_BASE = [
    "Coq 8.16.1 kernel (coqc, full .vo build; vm_compute only in Examples/_refuted witnesses; no native_compute)",
    "no axioms: every property theorem is 'Closed under the global context' unless listed under print_assumptions.axioms",
    "extraction to OCaml with ExtrOcamlBasic only (Extract Inductive bool/option/unit/list/prod/sumbool/sumor/comparison; no Extract Constant), OCaml 4.13.1, hand-written driver (line parsing/printing)",
    "Rust harness (public-API observation under catch_unwind) and Python orchestrator (generation, canonical comparison)",
    "the model is hand-written; its tie to /repo is the correspondence run of this check (all of /repo is modelled, not verified)",
]


def main(argv):
    import argparse
    import importlib
    ap = argparse.ArgumentParser()
    ap.add_argument("prop")
    ap.add_argument("--tier", default=os.environ.get("VERIF_TIER", "quick"))
    ap.add_argument("--seed", type=int, default=int(os.environ.get("VERIF_SEED", "1")))
    ap.add_argument("--replay", default=None)
    a = ap.parse_args(argv)
    if a.tier not in ("quick", "thorough"):
        a.tier = "quick"
    sys.path.insert(0, VERIF)
    ctx = Ctx(a.prop, a.tier, a.seed)
    ctx.replay = a.replay
    mod = importlib.import_module("checks." + a.prop)
    try:
        mod.run(ctx)
    except GateFailure as g:
        # a proof obligation / build no longer checks: the property is no longer
        # shown to hold.  Checks that can search for a failing input do so
        # themselves before raising; here nothing was found.
        ctx.oblige(False, g.what)
        ctx.violation({"broken": g.what, "detail": g.detail,
                       "note": "the named build/proof/correspondence step no longer checks"}, no_input=True)
    except Exception:
        # the correspondence machinery itself failed on what the implementation produced
        # (output it cannot read, a missing result, …): on the unchanged tree this never
        # happens; after a change it means the tie between model and code no longer checks.
        import traceback
        tb = traceback.format_exc()
        sys.stderr.write(tb)
        ctx.oblige(False, "correspondence-run")
        ctx.violation({"broken": "correspondence-run (the check could not interpret what the implementation produced)",
                       "detail": tb[-4000:]}, no_input=True)
    if a.tier == "thorough" and ctx.gate and not SCRATCH:
        # independent re-check of the compiled property file and everything it depends on
        try:
            p = sh(["timeout", "3000", "coqchk", "-silent", "-o", "-Q", "theories", "GV", "GV.Properties." + a.prop], cwd=COQ)
            out = p.stdout + p.stderr
            ok = p.returncode == 0 and "Axioms: <none>" in out and "type-in-type: <none>" in out \
                and "unsafe (co)fixpoints: <none>" in out and "positivity is assumed: <none>" in out
            ctx.coverage["coqchk"] = "ok: Axioms <none>, no type-in-type, no unsafe fixpoints, no assumed positivity" if ok else out[-1500:]
            ctx.oblige(ok, "coqchk")
            if not ok:
                ctx.violation({"broken": "coqchk", "detail": out[-3000:]}, no_input=True)
        except Exception as e:  # pragma: no cover
            ctx.coverage["coqchk"] = "not run: %s" % e
    rc = ctx.finish(level=getattr(mod, "LEVEL", "proof"))
    print("%s %s tier=%s seed=%d evaluations=%d nontrivial=%d obligations=%d/%d wall=%.1fs" % (
        a.prop, "FAIL" if rc else "ok", a.tier, a.seed, ctx.evaluations, ctx.nontrivial,
        ctx.discharged, ctx.obligations, time.time() - ctx.t0))
    return rc
