From Coq Require Import List NArith PeanoNat Arith Lia Bool.
Import ListNotations.
Open Scope N_scope.

Inductive sym := T (t : N) | R (r : N).
Record grammar := { prod : N -> N * list sym; is_prod : N -> Prop; start_prod : N; eof : N }.
Definition lhs g p := fst (prod g p).
Definition rhs g p := snd (prod g p).

Inductive tree := Leaf (tok : N) | Node (p : N) (kids : list tree).
Definition root g (t : tree) : sym := match t with Leaf a => T a | Node p _ => R (lhs g p) end.
Fixpoint yield (t : tree) : list N :=
  match t with Leaf a => [a] | Node _ kids => flat_map yield kids end.

Inductive valid_tree (g : grammar) : tree -> Prop :=
| vt_leaf a : a <> eof g -> valid_tree g (Leaf a)
| vt_node p kids : is_prod g p -> p <> start_prod g -> Forall (valid_tree g) kids ->
    map (root g) kids = rhs g p -> valid_tree g (Node p kids).

(* nested induction principle *)
Lemma valid_tree_ind' g (P : tree -> Prop) :
  (forall a, a <> eof g -> P (Leaf a)) ->
  (forall p kids, is_prod g p -> p <> start_prod g -> Forall (valid_tree g) kids -> Forall P kids ->
     map (root g) kids = rhs g p -> P (Node p kids)) ->
  forall t, valid_tree g t -> P t.
Proof.
  intros HL HN. fix IH 2. intros t Hv. destruct Hv as [a Ha | p kids Hp Hs Hk Hm].
  - apply HL; assumption.
  - apply HN; try assumption.
    revert Hk. generalize kids. fix IHk 2. intros ks Hk. destruct Hk as [| k ks' Hk1 Hk2].
    + constructor.
    + constructor. apply IH; assumption. apply IHk; assumption.
Qed.

Inductive act := Shift (s : N) | Reduce (p : N) | Accept | Err.
Record automaton := {
  items : N -> list (N * nat * list N);
  edge : N -> sym -> option N;
  action : N -> N -> act;
  goto : N -> N -> option N;
  start : N }.

Definition stack := list (N * tree).
Definition top (A : automaton) (stk : stack) : N := match stk with [] => start A | (s,_) :: _ => s end.
Inductive outcome := OAccept (t : tree) | OReject (pos : nat) (st : N) | OPanic.
Definition la g (input : list N) (pos : nat) : N := nth pos input (eof g).

Definition step g A (input : list N) (c : stack * nat) : (stack * nat) + outcome :=
  let (stk, pos) := c in
  let s := top A stk in
  match action A s (la g input pos) with
  | Shift s' => inl ((s', Leaf (la g input pos)) :: stk, S pos)
  | Reduce p =>
      let n := length (rhs g p) in
      if Nat.ltb (length stk) n then inr OPanic else
      let kids := rev (map snd (firstn n stk)) in
      let stk' := skipn n stk in
      match goto A (top A stk') (lhs g p) with
      | Some s' => inl ((s', Node p kids) :: stk', pos)
      | None => inr OPanic
      end
  | Accept => match stk with [(_, t)] => inr (OAccept t) | _ => inr OPanic end
  | Err => inr (OReject pos s)
  end.

Inductive steps g A input : stack * nat -> stack * nat -> Prop :=
| st_refl c : steps g A input c c
| st_step c c' c'' : step g A input c = inl c' -> steps g A input c' c'' -> steps g A input c c''.

Lemma steps_trans g A input a b c : steps g A input a b -> steps g A input b c -> steps g A input a c.
Proof. induction 1; auto. intros. econstructor; eauto. Qed.

Section Complete.
Variable g : grammar.
Variable A : automaton.
Variable first : list sym -> N -> Prop.
Variable nullable : list sym -> Prop.
Definition firstseq (beta : list sym) (L : list N) (a : N) : Prop := first beta a \/ (nullable beta /\ In a L).

Hypothesis HF : forall kids, Forall (valid_tree g) kids -> forall a u,
   flat_map yield kids = a :: u -> first (map (root g) kids) a.
Hypothesis HNul : forall kids, Forall (valid_tree g) kids ->
   flat_map yield kids = [] -> nullable (map (root g) kids).

Hypothesis C2 : forall s p d L r q, In (p,d,L) (items A s) -> nth_error (rhs g p) d = Some (R r) ->
   is_prod g q -> lhs g q = r ->
   exists L', In (q, 0%nat, L') (items A s) /\ forall a, firstseq (skipn (S d) (rhs g p)) L a -> In a L'.
Hypothesis C3 : forall s p d L X, In (p,d,L) (items A s) -> nth_error (rhs g p) d = Some X ->
   exists s', edge A s X = Some s' /\ (exists L', In (p, S d, L') (items A s') /\ incl L L') /\
     match X with T a => action A s a = Shift s' | R r => goto A s r = Some s' end.
Hypothesis C4 : forall s p L a, In (p, length (rhs g p), L) (items A s) -> In a L -> p <> start_prod g ->
   action A s a = Reduce p.

Definition expects (s : N) (X : sym) (a : N) : Prop :=
  exists p d L, In (p,d,L) (items A s) /\ nth_error (rhs g p) d = Some X /\ firstseq (skipn (S d) (rhs g p)) L a.

(* input laid out as pre ++ w ++ rest with |pre| = pos *)
Definition at_pos (input : list N) (pos : nat) (w : list N) : Prop :=
  exists pre rest, input = pre ++ w ++ rest /\ length pre = pos.

Lemma la_at input pos a w : at_pos input pos (a :: w) -> la g input pos = a.
Proof. intros (pre & rest & -> & <-). unfold la. rewrite app_nth2 by lia. rewrite Nat.sub_diag. reflexivity. Qed.

Lemma at_pos_split input pos u v : at_pos input pos (u ++ v) -> at_pos input pos u /\ at_pos input (pos + length u) v.
Proof.
  intros (pre & rest & -> & <-). split.
  - exists pre, (v ++ rest). rewrite <- app_assoc. auto.
  - exists (pre ++ u), rest. rewrite app_length. split; auto. rewrite <- !app_assoc. reflexivity.
Qed.

Definition goal_for (t : tree) : Prop :=
  forall input stk pos, at_pos input pos (yield t) ->
    expects (top A stk) (root g t) (la g input (pos + length (yield t))) ->
    exists s', edge A (top A stk) (root g t) = Some s' /\
      steps g A input (stk, pos) ((s', t) :: stk, (pos + length (yield t))%nat).


Lemma skipn_cons_nth {X} (l : list X) i x r : skipn i l = x :: r -> nth_error l i = Some x /\ skipn (S i) l = r.
Proof. revert i. induction l as [|y l IH]; intros [|i] H; simpl in *; try discriminate.
  - inversion H; auto. - apply IH; exact H. Qed.

Lemma skipn_nil_len {X} (l : list X) i : skipn i l = [] -> (length l <= i)%nat.
Proof. intros H. assert (length (skipn i l) = 0%nat) by (rewrite H; reflexivity). rewrite skipn_length in H0. lia. Qed.

(* processing a forest of kids for production q starting at dot i *)
Lemma forest_lemma q : forall kids, Forall (valid_tree g) kids -> Forall goal_for kids ->
  forall input stk pos i L,
    at_pos input pos (flat_map yield kids) ->
    In (q, i, L) (items A (top A stk)) ->
    skipn i (rhs g q) = map (root g) kids ->
    (i <= length (rhs g q))%nat ->
    In (la g input (pos + length (flat_map yield kids))) L ->
    exists sts L', length sts = length kids /\
      steps g A input (stk, pos) (rev (combine sts kids) ++ stk, (pos + length (flat_map yield kids))%nat)
      /\ In (q, length (rhs g q), L') (items A (top A (rev (combine sts kids) ++ stk))) /\ incl L L'.
Proof.
  intros kids Hv Hg. induction kids as [|k ks IH]; intros input stk pos i L Hat Hin Hsk Hi Hla.
  - simpl in *. exists [], L. rewrite Nat.add_0_r. simpl. repeat split; auto using incl_refl. constructor.
    apply skipn_nil_len in Hsk. assert (i = length (rhs g q)) by lia. subst i. exact Hin.
  - inversion Hv as [|? ? Hvk Hvks]; subst. inversion Hg as [|? ? Hgk Hgks]; subst.
    simpl in Hat. apply at_pos_split in Hat. destruct Hat as (Hat1 & Hat2).
    simpl in Hsk. apply skipn_cons_nth in Hsk. destruct Hsk as (Hnth & Hsk').
    assert (Hexp : expects (top A stk) (root g k) (la g input (pos + length (yield k)))).
    { exists q, i, L. split; [exact Hin|]. split; [exact Hnth|].
      rewrite Hsk'. unfold firstseq.
      destruct (flat_map yield ks) as [|b u] eqn:Hy.
      - right. split. apply HNul; auto. simpl in Hla. rewrite Hy, app_nil_r in Hla. exact Hla.
      - left. assert (la g input (pos + length (yield k)) = b) by (eapply la_at; eauto).
        rewrite H. eapply HF; eauto. }
    destruct (Hgk input stk pos Hat1 Hexp) as (s' & He & Hst).
    destruct (C3 _ _ _ _ _ Hin Hnth) as (s'' & He' & (L' & Hin' & Hincl) & _).
    rewrite He in He'. inversion He'; subst s''.
    assert (Hi' : (S i <= length (rhs g q))%nat).
    { apply nth_error_Some. congruence. }
    assert (Hla' : In (la g input (pos + length (yield k) + length (flat_map yield ks))) L').
    { apply Hincl. simpl in Hla. rewrite app_length in Hla. rewrite Nat.add_assoc in Hla. exact Hla. }
    destruct (IH Hvks Hgks input ((s', k) :: stk) (pos + length (yield k))%nat (S i) L' Hat2 Hin' Hsk' Hi' Hla')
      as (sts & L'' & Hlen & Hst' & Hfin & Hincl').
    exists (s' :: sts), L''. simpl. rewrite app_length, Nat.add_assoc.
    rewrite <- app_assoc. simpl.
    split; [lia|]. split; [eapply steps_trans; eauto|]. split; [exact Hfin|].
    intros x Hx. apply Hincl', Hincl, Hx.
Qed.

Lemma combine_firstn_rev (sts : list N) (kids : list tree) (stk : stack) :
  length sts = length kids ->
  rev (map snd (firstn (length kids) (rev (combine sts kids) ++ stk))) = kids
  /\ skipn (length kids) (rev (combine sts kids) ++ stk) = stk.
Proof.
  intros Hl.
  assert (Hc : length (rev (combine sts kids)) = length kids).
  { rewrite rev_length, combine_length. lia. }
  split.
  - rewrite firstn_app. rewrite Hc, Nat.sub_diag. simpl. rewrite app_nil_r.
    rewrite firstn_all2 by lia. rewrite map_rev, rev_involutive.
    clear Hc. revert kids Hl. induction sts; intros [|k ks] H; simpl in *; try discriminate; auto.
    f_equal. apply IHsts. lia.
  - rewrite skipn_app. rewrite Hc, Nat.sub_diag. simpl. rewrite skipn_all2 by lia. reflexivity.
Qed.

Theorem main_lemma : forall t, valid_tree g t -> goal_for t.
Proof.
  apply valid_tree_ind'.
  - (* leaf *) intros a Ha input stk pos Hat (p & d & L & Hin & Hnth & _). simpl in *.
    destruct (C3 _ _ _ _ _ Hin Hnth) as (s' & He & _ & Hact).
    exists s'. split; [exact He|].
    econstructor; [|constructor]. unfold step.
    rewrite (la_at input pos a []) by exact Hat. rewrite Hact. rewrite Nat.add_1_r. reflexivity.
  - (* node *) intros q kids Hq Hns Hv Hg Hm input stk pos Hat (p & d & L & Hin & Hnth & Hfs). simpl in *.
    destruct (C2 _ _ _ _ _ q Hin Hnth Hq eq_refl) as (L0 & Hin0 & HL0).
    destruct (C3 _ _ _ _ _ Hin Hnth) as (s' & He & _ & Hgoto).
    assert (Hla : In (la g input (pos + length (flat_map yield kids))) L0) by (apply HL0; exact Hfs).
    destruct (forest_lemma q kids Hv Hg input stk pos 0%nat L0 Hat Hin0 (eq_sym Hm) (Nat.le_0_l _) Hla)
      as (sts & L' & Hlen & Hst & Hfin & Hincl).
    exists s'. split; [exact He|].
    eapply steps_trans; [exact Hst|].
    econstructor; [|constructor]. unfold step.
    rewrite (C4 _ _ _ _ Hfin (Hincl _ Hla) Hns).
    assert (Hk : length (rhs g q) = length kids) by (rewrite <- Hm, map_length; reflexivity).
    rewrite Hk.
    destruct (combine_firstn_rev sts kids stk Hlen) as (Hrev & Hskip).
    rewrite Hrev, Hskip.
    assert (Hlt : Nat.ltb (length (rev (combine sts kids) ++ stk)) (length kids) = false).
    { apply Nat.ltb_ge. rewrite app_length, rev_length, combine_length. lia. }
    rewrite Hlt, Hgoto. reflexivity.
Qed.
End Complete.
Print Assumptions main_lemma.
