From Coq Require Import List NArith PeanoNat Arith Lia Bool.
Import ListNotations.
Open Scope N_scope.

Inductive sym := T (t : N) | R (r : N).
Definition sym_eqb (a b : sym) : bool :=
  match a, b with T x, T y => N.eqb x y | R x, R y => N.eqb x y | _, _ => false end.
Lemma sym_eqb_eq a b : sym_eqb a b = true <-> a = b.
Proof. destruct a, b; simpl; rewrite ?N.eqb_eq; split; intro H; try congruence; try discriminate. Qed.

Record grammar := { prod : N -> N * list sym; start_prod : N; eof : N }.
Definition lhs g p := fst (prod g p).
Definition rhs g p := snd (prod g p).

Inductive tree := Leaf (tok : N) (pos : nat) | Node (p : N) (kids : list tree).
Definition root g (t : tree) : sym := match t with Leaf a _ => T a | Node p _ => R (lhs g p) end.

Inductive valid_tree (g : grammar) : tree -> Prop :=
| vt_leaf a i : valid_tree g (Leaf a i)
| vt_node p kids : Forall (valid_tree g) kids -> map (root g) kids = rhs g p -> valid_tree g (Node p kids).

Inductive act := Shift (s : N) | Reduce (p : N) | Accept | Err.
Record automaton := {
  items : N -> list (N * nat);           (* (p, dot) LR(0) part is enough for soundness *)
  edge : N -> sym -> option N;
  action : N -> N -> act;
  goto : N -> N -> option N;
  start : N }.

(* stack: list of (state, tree), top first; bottom is start with no tree *)
Definition stack := list (N * tree).
Definition top (A : automaton) (stk : stack) : N := match stk with [] => start A | (s,_) :: _ => s end.

Inductive outcome := OAccept (t : tree) | OReject (pos : nat) (st : N) | OPanic.
Definition la g (input : list N) (pos : nat) : N := nth pos input (eof g).

Definition step g A (stk : stack) (input : list N) (pos : nat) : (stack * nat) + outcome :=
  let s := top A stk in
  match action A s (la g input pos) with
  | Shift s' => inl ((s', Leaf (la g input pos) pos) :: stk, S pos)
  | Reduce p =>
      let n := length (rhs g p) in
      if Nat.ltb (length stk) n then inr OPanic else
      let kids := rev (map snd (firstn n stk)) in
      let stk' := skipn n stk in
      match goto A (top A stk') (lhs g p) with
      | Some s' => inl ((s', Node p kids) :: stk', pos)
      | None => inr OPanic
      end
  | Accept => match stk with [(_, t)] => inr (OAccept t) | _ => inr OPanic end
  | Err => inr (OReject pos s)
  end.

(* Soundness conditions as Props *)
Record validS g A : Prop := {
  S1 : forall s X s', edge A s X = Some s' -> s' <> start A;
  S2 : forall s X s' p d, edge A s X = Some s' -> In (p, S d) (items A s') ->
         nth_error (rhs g p) d = Some X /\ In (p, d) (items A s);
  S3 : forall s a p, action A s a = Reduce p -> In (p, length (rhs g p)) (items A s);
  S4s : forall s a s', action A s a = Shift s' -> edge A s (T a) = Some s';
  S4g : forall s r s', goto A s r = Some s' -> edge A s (R r) = Some s';
  S4d : forall s p, In (p, 0%nat) (items A s) -> goto A s (lhs g p) <> None;
  S0 : forall p d, In (p, d) (items A (start A)) -> d = 0%nat }.

(* chain: states linked by edges labelled with tree roots *)
Fixpoint chain g A (stk : stack) : Prop :=
  match stk with
  | [] => True
  | (s, t) :: rest => edge A (top A rest) (root g t) = Some s /\ valid_tree g t /\ chain g A rest
  end.

Lemma item_lemma g A (V : validS g A) : forall stk, chain g A stk ->
  forall d p, In (p, d) (items A (top A stk)) ->
    (d <= length stk)%nat /\ map (root g) (rev (map snd (firstn d stk))) = firstn d (rhs g p)
    /\ In (p, 0%nat) (items A (top A (skipn d stk))).
Proof.
  intros stk Hc d. revert stk Hc. induction d as [|d IH]; intros stk Hc p Hin.
  - simpl. repeat split; auto; lia.
  - destruct stk as [|[s t] rest].
    + simpl in Hin. exfalso.
      apply (S0 _ _ V) in Hin. discriminate.
    + simpl in Hc. destruct Hc as (He & Hv & Hc). simpl in Hin.
      destruct (S2 _ _ V _ _ _ _ _ He Hin) as (Hn & Hin').
      destruct (IH rest Hc p Hin') as (Hle & Hm & H0).
      simpl. split; [lia|]. split; [|exact H0].
      rewrite map_app, Hm. simpl.
      clear - Hn. revert d Hn. generalize (rhs g p). intros l.
      induction l as [|x l IHl]; intros [|d] Hn; simpl in *; try discriminate.
      * inversion Hn; reflexivity.
      * f_equal. apply IHl. exact Hn.
Qed.

Lemma chain_skipn g A : forall n stk, chain g A stk -> chain g A (skipn n stk).
Proof. induction n; intros [|[s t] r] H; simpl in *; auto. apply IHn. tauto. Qed.

Lemma chain_firstn_valid g A : forall n stk, chain g A stk -> Forall (valid_tree g) (map snd (firstn n stk)).
Proof. induction n; intros [|[s t] r] H; simpl in *; constructor; try tauto. apply IHn; tauto. Qed.

Lemma firstn_all_eq {X} (l : list X) : firstn (length l) l = l.
Proof. apply firstn_all. Qed.

Theorem step_preserves g A (V : validS g A) stk input pos stk' pos' :
  chain g A stk -> step g A stk input pos = inl (stk', pos') -> chain g A stk'.
Proof.
  intros Hc. unfold step.
  destruct (action A (top A stk) (la g input pos)) eqn:Ha; try discriminate.
  - intros H; inversion H; subst; clear H. simpl. split; [|split; [constructor|exact Hc]].
    apply (S4s _ _ V); exact Ha.
  - destruct (Nat.ltb (length stk) (length (rhs g p))) eqn:Hl; try discriminate.
    destruct (goto A (top A (skipn (length (rhs g p)) stk)) (lhs g p)) eqn:Hg; try discriminate.
    intros H; inversion H; subst; clear H. simpl.
    split; [apply (S4g _ _ V); exact Hg|].
    split; [|apply chain_skipn; exact Hc].
    pose proof (S3 _ _ V _ _ _ Ha) as Hin.
    destruct (item_lemma g A V stk Hc _ _ Hin) as (_ & Hm & _).
    constructor.
    + apply Forall_rev. apply (chain_firstn_valid g A). exact Hc.
    + rewrite Hm. apply firstn_all.
  - destruct stk as [|[? ?] [|]]; discriminate.
Qed.

Theorem step_no_panic_on_reduce g A (V : validS g A) stk input pos :
  chain g A stk -> forall p, action A (top A stk) (la g input pos) = Reduce p ->
  step g A stk input pos <> inr OPanic.
Proof.
  intros Hc p Ha. unfold step. rewrite Ha.
  pose proof (S3 _ _ V _ _ _ Ha) as Hin.
  destruct (item_lemma g A V stk Hc _ _ Hin) as (Hle & _ & H0).
  destruct (Nat.ltb (length stk) (length (rhs g p))) eqn:Hlt; [apply Nat.ltb_lt in Hlt; lia|].
  pose proof (S4d _ _ V _ _ H0) as Hd.
  destruct (goto A (top A (skipn (length (rhs g p)) stk)) (lhs g p)); congruence.
Qed.
Print Assumptions step_preserves.
