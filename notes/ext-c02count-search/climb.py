import sys, random, json, copy
from search import *
from pf import product
PRODUCTIVE='prod' in sys.argv
def reduced(prods,nr):
    prod=set(); ch=True
    while ch:
        ch=False
        for l,r in prods:
            if l not in prod and all(s[0]=='T' or s[1] in prod for s in r): prod.add(l); ch=True
    if len(prod)<nr: return False
    reach={0}; ch=True
    while ch:
        ch=False
        for l,r in prods:
            if l in reach:
                for s in r:
                    if s[0]=='R' and s[1] not in reach: reach.add(s[1]); ch=True
    return len(reach)==nr
def fitness(prods,nr,nt,seed):
    if PRODUCTIVE and not reduced(prods,nr): return None
    g=G(prods,nr,nt)
    c=canon(g,400)
    if c is None: return None
    best=None
    for o in range(3):
        r=pager(g, None if o==0 else random.Random(seed+o), 800)
        if r is None: continue
        core,closed,edges,live=r
        seen,m=product(g,r)
        cc={}
        for K in m: cc.setdefault(frozenset(k for k,_ in K),set()).add(K)
        pc={}
        for s in live: pc.setdefault(frozenset(core[s].keys()),set()).add(s)
        diffs=[len(pc[c_])-len(cc.get(c_,())) for c_ in pc]
        tight=sum(1 for c_ in pc if len(pc[c_])>1 and len(pc[c_])==len(cc.get(c_,())))
        pff=sum(1 for v in m.values() if len(v)>1)
        f=(len(live)-c[0]>0, max(diffs), sum(d for d in diffs if d>0), pff, tight, -len(prods))
        if best is None or f>best[0]: best=(f,o,len(live),c[0],c[1])
    return best
def mutate(rng,prods,nr,nt):
    prods=[(l,list(r)) for l,r in prods]
    k=rng.random()
    def rsym():
        return ('T',rng.randrange(nt)) if rng.random()<0.55 else ('R',rng.randint(1,nr-1))
    if k<0.25 and len(prods)<16:
        l=rng.randint(1,nr-1); base=list(rng.choice(prods[1:])[1]) if rng.random()<0.6 else []
        if base and rng.random()<0.7: base[rng.randrange(len(base))]=rsym()
        elif len(base)<4: base.insert(rng.randint(0,len(base)),rsym())
        prods.append((l,base))
    elif k<0.4 and len(prods)>3:
        del prods[rng.randrange(1,len(prods))]
    elif k<0.75:
        i=rng.randrange(1,len(prods)); r=prods[i][1]
        if r: r[rng.randrange(len(r))]=rsym()
        else: r.append(rsym())
    elif k<0.9:
        i=rng.randrange(1,len(prods)); r=prods[i][1]
        if len(r)<5: r.insert(rng.randint(0,len(r)),rsym())
    else:
        i=rng.randrange(1,len(prods)); r=prods[i][1]
        if r: del r[rng.randrange(len(r))]
    # dedupe
    out=[]
    for p in prods:
        if p not in out: out.append(p)
    # every rule needs a production
    have={l for l,_ in out}
    for r in range(1,nr):
        if r not in have: out.append((r,[('T',rng.randrange(nt))]))
    return out
if __name__=='__main__':
    seed=int(sys.argv[1]); rng=random.Random(seed)
    restarts=0
    while True:
        restarts+=1
        while True:
            prods,nr,nt=randgram2(rng)
            cur=fitness(prods,nr,nt,seed)
            if cur is not None and cur[0][3]+cur[0][4]>0: break
        stale=0
        while stale<400:
            np_=mutate(rng,prods,nr,nt)
            f=fitness(np_,nr,nt,seed)
            if f is None: stale+=1; continue
            if f[0]>=cur[0]:
                if f[0]>cur[0]: stale=0
                else: stale+=1
                prods,cur=np_,f
            else: stale+=1
            if cur[0][1]>0 and stale==0:
                print(json.dumps({"fit":cur,"prods":prods,"nr":nr,"nt":nt,"show":show(prods)}),flush=True)
            if cur[0][0]:
                print("TOTAL-EXCESS",flush=True); stale=10**9
        if restarts%20==0: print("restarts",restarts,"last",cur[0],flush=True)
