import json,sys,random
from search import *
from pf import product
line=[l for l in open(sys.argv[1]) if l.startswith('{')][int(sys.argv[2]) if len(sys.argv)>2 else 0]
d=json.loads(line)
prods=[(l,[tuple(s) for s in r]) for l,r in d['prods']]
g=G(prods,d['nr'],d['nt'])
print(show(prods))
seed=int(sys.argv[3]) if len(sys.argv)>3 else 53
o=d['fit'][1]
r=pager(g, None if o==0 else random.Random(seed+o), 2000)
core,closed,edges,live=r
seen,m=product(g,r)
cc={}
for K in m: cc.setdefault(frozenset(k for k,_ in K),set()).add(K)
pc={}
for s in live: pc.setdefault(frozenset(core[s].keys()),set()).add(s)
print("live",len(live),"canon",len(m))
for c_ in pc:
    if len(pc[c_])>len(cc.get(c_,())):
        print("CORE",sorted(c_))
        for K in cc[c_]: print("  canon",sorted((k,sorted(v)) for k,v in K),"-> states",m[K])
        for s in pc[c_]: print("  state",s,sorted((k,sorted(v)) for k,v in core[s].items()))
