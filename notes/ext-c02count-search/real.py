import sys, json
sys.path.insert(0,'/verif')
from vlib import core, lr, cfg
from checks import c02_count
def render(prods):
    names='^SABCDEFGH'
    by={}
    for l,r in prods[1:]:
        by.setdefault(l,[]).append(" ".join(("'t%d'"%s[1]) if s[0]=='T' else names[s[1]] for s in r))
    return "%start S\n%%\n"+"".join("%s: %s;\n"%(names[l]," | ".join(a)) for l,a in sorted(by.items()))
def run(srcs):
    res=lr.run_cases([(s,[]) for s in srcs])
    mexe=core.build_model("lr")
    canon=core.run_lines([mexe,"canon"],[r.impl_line for r in res], timeout=600)
    out=[]
    for r,cl in zip(res,canon):
        if not r.ok: out.append(("rejected",r.err[:100])); continue
        head=lr.sections(cl)[0]
        out.append((r.nstates, head))
    return out
if __name__=='__main__':
    srcs=[]
    for f in sys.argv[1:]:
        for l in open(f):
            if l.startswith('{'):
                d=json.loads(l)
                if d['fit'][0][0]>0: srcs.append(render([(a,[tuple(s) for s in b]) for a,b in d['prods']]))
    for s,o in zip(srcs,run(srcs)):
        print(s); print(o)
