import sys, random, json
from search import *
import climb
def fit(prods,nr,nt,seed):
    g=G(prods,nr,nt)
    c=canon(g,1500)
    if c is None: return None
    best=None
    for o in range(3):
        r=pager(g, None if o==0 else random.Random(seed+o), 3000)
        if r is None: continue
        f=(len(r[3])-c[0], -len(prods))
        if best is None or f>best[0]: best=(f,o,len(r[3]),c[0],c[1])
    return best
if __name__=='__main__':
    seed=int(sys.argv[1]); rng=random.Random(seed)
    d=json.loads([l for l in open(sys.argv[2]) if l.startswith('{')][0])
    prods0=[(l,[tuple(s) for s in r]) for l,r in d['prods']]; nr=d['nr']; nt=int(sys.argv[3])
    while True:
        prods=prods0; cur=fit(prods,nr,nt,seed); stale=0
        while stale<600:
            np_=climb.mutate(rng,prods,nr,nt)
            if len(np_)>18: stale+=1; continue
            f=fit(np_,nr,nt,seed)
            if f is None: stale+=1; continue
            if f[0]>=cur[0]:
                if f[0]>cur[0]:
                    stale=0
                    print(json.dumps({"fit":f,"prods":np_,"nr":nr,"nt":nt,"show":show(np_)}),flush=True)
                else: stale+=1
                prods,cur=np_,f
            else: stale+=1
            if cur[0][0]>0:
                print("TOTAL-EXCESS",flush=True); sys.exit(0)
