import sys, random, json
from search import *
def product(g, r):
    core,closed,edges,live=r
    k0=frozenset([((0,0),frozenset([g.nt]))])
    seen={(k0,0)}; st=[(k0,0)]
    while st:
        K,s=st.pop()
        cl=close(g,dict(K))
        syms=set()
        for (p,d) in cl:
            rhs=g.prods[p][1]
            if d<len(rhs): syms.add(rhs[d])
        for X in syms:
            n=frozenset(goto(g,cl,X).items())
            t=edges[s][X]
            if (n,t) not in seen: seen.add((n,t)); st.append((n,t))
    m={}
    for K,s in seen: m.setdefault(K,set()).add(s)
    return seen,m
def hall(seen, live):
    # matching: each live state -> distinct canonical state among those it covers
    adj={}
    for K,s in seen: adj.setdefault(s,[]).append(K)
    match={}
    def aug(s,vis):
        for K in adj.get(s,[]):
            if K in vis: continue
            vis.add(K)
            if K not in match or aug(match[K],vis):
                match[K]=s; return True
        return False
    return sum(1 for s in live if aug(s,set()))==len(live)
if __name__=='__main__':
    seed=int(sys.argv[1]); n=int(sys.argv[2])
    rng=random.Random(seed)
    tot=0;pf_fail=0;split=0;hall_fail=0
    for it in range(n):
        prods,nr,nt=(randgram2 if 'g2' in sys.argv else randgram)(rng)
        g=G(prods,nr,nt)
        c=canon(g,600)
        if c is None: continue
        for o in range(4):
            r=pager(g, None if o==0 else random.Random(seed*1000+o), 1500)
            if r is None: continue
            tot+=1
            core=r[0]; live=r[3]
            cs=[frozenset(core[s].keys()) for s in live]
            if len(set(cs))<len(cs): split+=1
            seen,m=product(g,r)
            if any(len(v)>1 for v in m.values()):
                pf_fail+=1
                h=hall(seen,live)
                if not h: hall_fail+=1
                if pf_fail<=3 or not h:
                    print(json.dumps({"show":show(prods),"prods":prods,"nr":nr,"nt":nt,"live":len(live),"canon":c[0],"conflict":c[1],"order":o,"oseed":seed*1000+o,"hall":h}),flush=True)
    print("tot",tot,"split",split,"pf_fail",pf_fail,"hall_fail",hall_fail)
