import random, sys, itertools, json
# grammar: prods = list of (lhs, rhs) ; sym = ('T',i) or ('R',i); prod 0 = start: (0,[('R',1)]) ; eof = token index nt
def analyse(prods, nr, nt):
    nullable=[False]*nr
    ch=True
    while ch:
        ch=False
        for l,r in prods:
            if not nullable[l] and all(s[0]=='R' and nullable[s[1]] for s in r):
                nullable[l]=True; ch=True
    first=[set() for _ in range(nr)]
    ch=True
    while ch:
        ch=False
        for l,r in prods:
            for s in r:
                if s[0]=='T':
                    if s[1] not in first[l]: first[l].add(s[1]); ch=True
                    break
                else:
                    n=len(first[l]); first[l]|=first[s[1]]
                    if len(first[l])!=n: ch=True
                    if not nullable[s[1]]: break
    return nullable, first
class G:
    def __init__(s, prods, nr, nt):
        s.prods=prods; s.nr=nr; s.nt=nt
        s.nullable, s.first = analyse(prods,nr,nt)
        s.byrule=[[] for _ in range(nr)]
        for i,(l,r) in enumerate(prods): s.byrule[l].append(i)
        s.fcache={}
    def firstseq(s,p,d):
        k=(p,d)
        if k in s.fcache: return s.fcache[k]
        out=set(); nl=True
        for sym in s.prods[p][1][d:]:
            if sym[0]=='T': out.add(sym[1]); nl=False; break
            out|=s.first[sym[1]]
            if not s.nullable[sym[1]]: nl=False; break
        s.fcache[k]=(frozenset(out),nl)
        return s.fcache[k]
def close(g,K):
    C={k:set(v) for k,v in K.items()}
    todo=list(C.keys())
    while todo:
        (p,d)=todo.pop()
        rhs=g.prods[p][1]
        if d>=len(rhs) or rhs[d][0]!='R': continue
        f,nl=g.firstseq(p,d+1)
        ctx=set(f)
        if nl: ctx|=C[(p,d)]
        for q in g.byrule[rhs[d][1]]:
            k=(q,0)
            if k not in C:
                C[k]=set(ctx); todo.append(k)
            elif not ctx<=C[k]:
                C[k]|=ctx; todo.append(k)
    return C
def goto(g,C,X):
    return {(p,d+1):frozenset(la) for (p,d),la in C.items() if d<len(g.prods[p][1]) and g.prods[p][1][d]==X}
def wc(a,b):
    if len(a)!=len(b): return False
    for k in a:
        if k not in b: return False
    if len(a)==1: return True
    keys=list(a.keys())
    n=len(keys)
    for i in range(n-1):
        for j in range(i+1,n):
            ki,kj=keys[i],keys[j]
            if not ((a[ki]&b[kj]) or (a[kj]&b[ki])): continue
            if (a[ki]&a[kj]) or (b[ki]&b[kj]): continue
            return False
    return True
def pager(g,rng,maxstates=400):
    core=[{(0,0):frozenset([g.nt])}]
    closed=[None]; edges=[{}]
    cnd={}
    todo=1; off=0
    while todo>0:
        if len(core)>maxstates: return None
        i=None
        for j in range(off,len(closed)):
            if closed[j] is None: i=j;break
        if i is None:
            for j in range(len(closed)):
                if closed[j] is None: i=j;break
        off=i+1; todo-=1
        cl=close(g,core[i]); closed[i]=cl
        keys=list(cl.keys())
        if rng is not None: rng.shuffle(keys)
        else: keys.sort()
        seen=set(); new=[]
        for (p,d) in keys:
            rhs=g.prods[p][1]
            if d==len(rhs): continue
            X=rhs[d]
            if X in seen: continue
            seen.add(X)
            new.append((X,goto(g,cl,X)))
        for X,ns in new:
            c=cnd.setdefault(X,[])
            hit=False
            for k in c:
                if core[k]==ns:
                    edges[i][X]=k; hit=True; break
            if hit: continue
            m=None
            for k in c:
                if wc(core[k],ns): m=k;break
            if m is not None:
                edges[i][X]=m
                merged={kk:core[m][kk]|ns[kk] for kk in core[m]}
                if merged!=core[m]:
                    core[m]=merged
                    if closed[m] is not None:
                        closed[m]=None; todo+=1
            else:
                k=len(core); c.append(k); edges[i][X]=k
                edges.append({}); closed.append(None); core.append(ns); todo+=1
    # gc
    seen={0}; st=[0]
    while st:
        s=st.pop()
        for t in edges[s].values():
            if t not in seen: seen.add(t); st.append(t)
    return core,closed,edges,seen
def canon(g,maxstates=3000):
    k0=frozenset([((0,0),frozenset([g.nt]))])
    seen={k0}; st=[k0]; conflict=False
    while st:
        if len(seen)>maxstates: return None
        K=st.pop()
        cl=close(g,dict(K))
        # conflict detection
        red={}
        shifts=set()
        for (p,d),la in cl.items():
            rhs=g.prods[p][1]
            if d==len(rhs):
                for a in la:
                    red.setdefault(a,set()).add(p)
            elif rhs[d][0]=='T': shifts.add(rhs[d][1])
        for a,ps in red.items():
            if len(ps)>1 or a in shifts: conflict=True
        syms=set()
        for (p,d) in cl:
            rhs=g.prods[p][1]
            if d<len(rhs): syms.add(rhs[d])
        for X in syms:
            n=frozenset(goto(g,cl,X).items())
            if n not in seen: seen.add(n); st.append(n)
    return len(seen),conflict
def randgram(rng):
    nr=rng.randint(2,6)+1; nt=rng.randint(2,4)
    prods=[(0,[('R',1)])]
    for r in range(1,nr):
        for _ in range(rng.randint(1,3)):
            ln=rng.choice([0,1,1,2,2,2,3,3,4])
            rhs=[]
            for _ in range(ln):
                if rng.random()<0.5: rhs.append(('T',rng.randrange(nt)))
                else: rhs.append(('R',rng.randint(1,nr-1)))
            if (r,rhs) not in prods: prods.append((r,rhs))
    return prods,nr,nt
def randgram2(rng):
    m=rng.randint(2,4)          # N_1..N_m are rules 2..m+1 ; S is rule 1
    nr=m+2; nt=rng.randint(3,6)
    pool=[]
    for _ in range(rng.randint(1,3)):
        ln=rng.choice([1,1,1,2,2,3])
        b=[]
        for _ in range(ln):
            if rng.random()<0.7: b.append(('T',rng.randrange(min(2,nt))))
            else: b.append(('R',rng.randint(2,nr-1)))
        pool.append(b)
    prods=[(0,[('R',1)])]
    for _ in range(rng.randint(3,8)):
        k=rng.random()
        a=('T',rng.randrange(nt)); b=('T',rng.randrange(nt))
        N=('R',rng.randint(2,nr-1)); N2=('R',rng.randint(2,nr-1))
        if k<0.55: rhs=[a,N,b]
        elif k<0.7: rhs=[a,N,N2,b]
        elif k<0.8: rhs=[N,b]
        elif k<0.9: rhs=[a,('R',1),b]
        else: rhs=[a,N]
        if (1,rhs) not in prods: prods.append((1,rhs))
    for r in range(2,nr):
        for _ in range(rng.randint(1,2)):
            b=list(rng.choice(pool))
            if rng.random()<0.15: b=b+[('T',rng.randrange(nt))]
            if (r,b) not in prods: prods.append((r,b))
    return prods,nr,nt
def show(prods):
    names='^SABCDEFGH'
    out=[]
    for l,r in prods:
        out.append(names[l]+' -> '+' '.join(('t%d'%s[1]) if s[0]=='T' else names[s[1]] for s in r))
    return '; '.join(out)
if __name__=='__main__':
    GEN=2 if 'g2' in sys.argv else 1
    seed=int(sys.argv[1]); n=int(sys.argv[2]); need_lr1 = len(sys.argv)>3 and sys.argv[3]=='lr1'
    rng=random.Random(seed)
    tested=0; lr1=0; eq=0
    for it in range(n):
        prods,nr,nt=(randgram2 if GEN==2 else randgram)(rng)
        g=G(prods,nr,nt)
        c=canon(g,1500)
        if c is None: continue
        nc,conf=c
        if need_lr1 and conf: continue
        tested+=1; lr1+= (not conf)
        for o in range(6):
            r=pager(g, None if o==0 else random.Random(seed*1000+o), 2000)
            if r is None: continue
            live=len(r[3])
            if live==nc: eq+=1
            if live>nc:
                print(json.dumps({"prods":prods,"nr":nr,"nt":nt,"live":live,"canon":nc,"conflict":conf,"order":o,"oseed":seed*1000+o,"show":show(prods)}),flush=True)
                break
    print("done seed",seed,"tested",tested,"lr1",lr1,"eq",eq,flush=True)
