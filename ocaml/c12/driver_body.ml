(* C12 driver: case line `<variant 0|1|2|3> <required 0|1> <hex utf-8 text | ->`;
   variant 0 = header.rs as first pinned, 1 = after the array-loop and u64 repairs,
   2 = after the nesting limit (MAX_SETTING_DEPTH) as well, 3 = 2 + white space skipped
   between the '(' of a constructor value and its argument (fixed_ctor_ws, /repo fdd053a);
   the native stack is unbounded (`None`) in all runs.
   prints the header parser mirror's result in the format of harness/src/bin/c12.rs; after an `OK`
   result, for every entry of the section (key order) the mirrors of YaccKind::try_from and
   SerialisationFormat::try_from applied to its value:
   ` # YK x<keyhex> OK <G|E|N|U|O>` | ` # YK x<keyhex> ERR <n> {<s> <e>}*`, ` # SF x<keyhex> OK <F|V>` | ` ... ERR ...` *)
let bytes_of_hex (h : string) : int list =
  if h = "-" then [] else
  List.init (String.length h / 2) (fun i -> int_of_string ("0x" ^ String.sub h (2 * i) 2))

(* UTF-8 decoding (the input is valid UTF-8: produced by Python's str.encode) *)
let rec decode = function
  | [] -> []
  | b :: t when b < 0x80 -> b :: decode t
  | b :: c :: t when b < 0xE0 -> (((b land 0x1F) lsl 6) lor (c land 0x3F)) :: decode t
  | b :: c :: d :: t when b < 0xF0 ->
      (((b land 0x0F) lsl 12) lor ((c land 0x3F) lsl 6) lor (d land 0x3F)) :: decode t
  | b :: c :: d :: e :: t ->
      (((b land 0x07) lsl 18) lor ((c land 0x3F) lsl 12) lor ((d land 0x3F) lsl 6) lor (e land 0x3F)) :: decode t
  | _ -> failwith "bad utf8"

let encode_cp (b : Buffer.t) (c : int) =
  let add x = Buffer.add_string b (Printf.sprintf "%02x" x) in
  if c < 0x80 then add c
  else if c < 0x800 then (add (0xC0 lor (c lsr 6)); add (0x80 lor (c land 0x3F)))
  else if c < 0x10000 then (add (0xE0 lor (c lsr 12)); add (0x80 lor ((c lsr 6) land 0x3F)); add (0x80 lor (c land 0x3F)))
  else (add (0xF0 lor (c lsr 18)); add (0x80 lor ((c lsr 12) land 0x3F)); add (0x80 lor ((c lsr 6) land 0x3F)); add (0x80 lor (c land 0x3F)))

let xh (s : n list) : string =
  let b = Buffer.create 16 in
  Buffer.add_char b 'x';
  List.iter (fun c -> encode_cp b (int_of_n c)) s;
  Buffer.contents b

let rec i64_of_pos = function
  | XH -> 1L
  | XO p -> Int64.shift_left (i64_of_pos p) 1
  | XI p -> Int64.add (Int64.shift_left (i64_of_pos p) 1) 1L
let hex_of_n = function N0 -> "0" | Npos p -> Printf.sprintf "%Lx" (i64_of_pos p)

let sp (b : Buffer.t) ((s, e) : nat * nat) =
  Buffer.add_string b (Printf.sprintf " %d %d" (int_of_nat s) (int_of_nat e))

let ns (b : Buffer.t) (n : namespaced) =
  (match n.ns_namespace with
   | None -> Buffer.add_string b " -"
   | Some (s, l) -> Buffer.add_string b (" + " ^ xh s); sp b l);
  let (m, l) = n.ns_member in
  Buffer.add_string b (" " ^ xh m); sp b l

let rec setting (b : Buffer.t) = function
  | Unitary n -> Buffer.add_string b " U"; ns b n
  | Constructor (c, a) -> Buffer.add_string b " C"; ns b c; ns b a
  | Num (n, l) -> Buffer.add_string b (" N " ^ hex_of_n n); sp b l
  | Str (s, l) -> Buffer.add_string b (" S " ^ xh s); sp b l
  | Array (xs, o, c) ->
      Buffer.add_string b " A"; sp b o; sp b c;
      Buffer.add_string b (Printf.sprintf " %d" (List.length xs));
      List.iter (setting b) xs

let kind = function
  | MissingGrmtoolsSection -> "Missing"
  | IllegalName -> "IllegalName"
  | ExpectedToken c -> Printf.sprintf "Expected:%d" (int_of_n c)
  | UnexpectedToken c -> Printf.sprintf "Unexpected:%d" (int_of_n c)
  | DuplicateEntry -> "Duplicate"
  | ConversionError -> "Conversion"

let conv_locs (b : Buffer.t) (locs : (nat * nat) list) =
  Buffer.add_string b (Printf.sprintf " ERR %d" (List.length locs));
  List.iter (sp b) locs

let yk_code = function
  | YkGrmtools -> "G"
  | YkEco -> "E"
  | YkOriginal NoAction -> "N"
  | YkOriginal UserAction -> "U"
  | YkOriginal GenericParseTree -> "O"

let conversions (b : Buffer.t) (hdr : header) =
  List.iter (fun ((k, yk), sf) ->
    Buffer.add_string b (" # YK " ^ xh k);
    (match yk with
     | CvOk y -> Buffer.add_string b (" OK " ^ yk_code y)
     | CvErr locs -> conv_locs b locs);
    Buffer.add_string b (" # SF " ^ xh k);
    (match sf with
     | CvOk FixedSizeInteger -> Buffer.add_string b " OK F"
     | CvOk VariableSizedInteger -> Buffer.add_string b " OK V"
     | CvErr locs -> conv_locs b locs)) (header_conversions hdr)

let () =
  iter_lines (fun line ->
    match split_ws line with
    | [fx; rq; h] ->
      let src = List.map n_of_int (decode (bytes_of_hex h)) in
      (* variants: 0 = as first pinned, 1 = array-loop and u64 repairs, 2 = 1 + nesting limit,
         3 = 2 + white space skipped before a constructor argument (fixed_ctor_ws) *)
      (match parse_header_gen (fx <> "0") (fx = "2" || fx = "3") (fx = "3") (rq = "1") None (fuel_for src) src with
       | Panic -> "PANIC"
       | OutOfFuel -> "HANG"
       | Done (HOk (hdr, pos)) ->
         let b = Buffer.create 128 in
         Buffer.add_string b (Printf.sprintf "OK %d" (int_of_nat pos));
         List.iter (fun (k, (l, v)) ->
           Buffer.add_string b (" E " ^ xh k); sp b l;
           (match v with
            | Flag (f, l) -> Buffer.add_string b (if f then " F 1" else " F 0"); sp b l
            | SettingV s -> setting b s)) hdr;
         conversions b hdr;
         Buffer.contents b
       | Done (HErrs es) ->
         let b = Buffer.create 128 in
         Buffer.add_string b (Printf.sprintf "ERRS %d" (List.length es));
         List.iter (fun e ->
           Buffer.add_string b (Printf.sprintf " X %s %d" (kind e.ekind) (List.length e.elocs));
           List.iter (sp b) e.elocs) es;
         Buffer.contents b)
    | _ -> "BADCASE")
