let rec pp_tree g b = function
  | Leaf (a, i) -> Buffer.add_string b (Printf.sprintf "[%d %d]" (int_of_n a) (int_of_nat i))
  | Node (p, kids) ->
      Buffer.add_string b (Printf.sprintf "(%d" (int_of_n (lhs g p)));
      List.iter (fun k -> Buffer.add_char b ' '; pp_tree g b k) kids;
      Buffer.add_char b ')'

let run_inputs g a d b =
  List.iter (fun inp ->
    let input = List.map n_of_int inp in
    let fuel = nat_of_int (200 + 40 * (List.length inp + 1) * (List.length g.prods + 2)) in
    Buffer.add_string b " # O ";
    (match run g a fuel input with
     | RAccept t -> Buffer.add_string b "acc "; pp_tree g b t
     | RReject (k, st) -> Buffer.add_string b (Printf.sprintf "rej %d %d" (int_of_nat k) (int_of_n st))
     | RPanic -> Buffer.add_string b "panic"
     | ROutOfFuel -> Buffer.add_string b "fuel")) (List.rev d.inputs_rev)

let canon_main () =
  iter_lines (fun line ->
    if String.length line < 2 || String.sub line 0 2 <> "G " then "SKIP" else
    let d = parse_dump line in
    let g = grammar_of d in
    let b = Buffer.create 256 in
    (match canon_lr1 g (nat_of_int 1500) with
     | None -> Buffer.add_string b "B none"
     | Some c ->
        let a = of_dump c.c_dump in
        Buffer.add_string b (Printf.sprintf "B n=%d conflicts=%d wf=%s S=%s C=%s E=%s single=%s"
          (int_of_n c.c_dump.d_nstates) (int_of_nat c.c_conflicts) (b2s (wf_grammar g))
          (b2s (validS g a)) (b2s (validC g a)) (b2s (validE g a)) (b2s (single_candidate g a)));
        if int_of_nat c.c_conflicts = 0 then run_inputs g a d b);
    Buffer.contents b)

let lr_main () =

  iter_lines (fun line ->
    if String.length line < 2 || String.sub line 0 2 <> "G " then "SKIP" else
    let d = parse_dump line in
    let g = grammar_of d in
    let a = of_dump (dump_of d) in
    let b = Buffer.create 256 in
    let wf = wf_grammar g in
    Buffer.add_string b (Printf.sprintf "V wf=%s S=%s C=%s E=%s single=%s first=%s" (b2s wf)
      (b2s (validS g a)) (b2s (validC g a)) (b2s (validE g a)) (b2s (single_candidate g a))
      (b2s (match first_ref g with Some _ -> true | None -> false)));
    Buffer.add_string b (Printf.sprintf " # VS %s%s%s%s%s%s" (b2s (vS0 a)) (b2s (vS1 g a)) (b2s (vS2 g a)) (b2s (vS3 g a)) (b2s (vS4 g a)) (b2s (vS5 g a)));
    (match first_ref g with
     | Some (nl, fs) -> Buffer.add_string b (Printf.sprintf " # VC %s%s%s%s" (b2s (vC1 g a)) (b2s (vC2 g nl fs a)) (b2s (vC3 g a)) (b2s (vC4 g a)))
     | None -> ());
    Buffer.add_string b (Printf.sprintf " # VE %s%s" (b2s (vE1 g a)) (b2s (vE2 a)));
    List.iter (fun inp ->
      let input = List.map n_of_int inp in
      let fuel = nat_of_int (200 + 40 * (List.length inp + 1) * (List.length g.prods + 2)) in
      Buffer.add_string b " # O ";
      (match run g a fuel input with
       | RAccept t -> Buffer.add_string b "acc "; pp_tree g b t
       | RReject (k, st) -> Buffer.add_string b (Printf.sprintf "rej %d %d" (int_of_nat k) (int_of_n st))
       | RPanic -> Buffer.add_string b "panic"
       | ROutOfFuel -> Buffer.add_string b "fuel")) (List.rev d.inputs_rev);
    Buffer.contents b)

let () = if Array.length Sys.argv > 1 && Sys.argv.(1) = "canon" then canon_main () else lr_main ()
