(* case:   <fixed 0|1> <w> <kind O|G|E> <rules> <tokens> <implicit -|n> <pre_gc> <post_gc> <lexrules> ; c:r:t c:r:t …
   verdict = PASS or the GUARD that refuses (site, not message: PAGER GC SGNEW STNEW all print the same documented text;
   checks/C20.py guard_message maps guard -> message class)
   result: g=<verdict> go=<verdict> gf=<verdict> s=<verdict> l=<verdict> true=a,b,.. obs=a,b,.. nowrap=g,s,l lex=<n>,<max>,<ids_are_positions> *)
let verdict_s = function
  | Pass -> "PASS"
  | Refuse RRules -> "RULES" | Refuse RTokens -> "TOKENS" | Refuse RProds -> "PRODS"
  | Refuse RSymbols -> "SYMBOLS" | Refuse RPager -> "PAGER" | Refuse RGc -> "GC"
  | Refuse RStateGraph -> "SGNEW" | Refuse RStateTable -> "STNEW" | Refuse RLexRule -> "LEXRULE"
let ns l = String.concat "," (List.map (fun n -> string_of_int (int_of_n n)) l)
let b01 b = if b then "1" else "0"
let () =
  iter_lines (fun line ->
    match String.split_on_char ';' line with
    | [head; groups] ->
      (match split_ws head with
       | [fx; w; kind; rules; tokens; imp; pre; post; lexn] ->
         let gs = List.map (fun g ->
             match String.split_on_char ':' g with
             | [c; r; t] -> (n_of_int (int_of_string c), (n_of_int (int_of_string r), n_of_int (int_of_string t)))
             | _ -> failwith "group") (split_ws groups) in
         let s = { s_kind = (match kind with "E" -> Eco | "G" -> Grmtools | _ -> Original);
                   s_rules = n_of_int (int_of_string rules);
                   s_tokens = n_of_int (int_of_string tokens);
                   s_prods = expand_groups gs;
                   s_implicit = (if imp = "-" then None else Some (n_of_int (int_of_string imp))) } in
         let c = { c_src = s; c_pre_gc = n_of_int (int_of_string pre);
                   c_post_gc = n_of_int (int_of_string post);
                   c_lex_rules = n_of_int (int_of_string lexn) } in
         let r = run_case (fx = "1") (n_of_int (int_of_string w)) c in
         let ids = List.map int_of_n r.r_lex_ids in
         let n = List.length ids in
         let mx = List.fold_left max 0 ids in
         let inorder = (ids = List.init n (fun i -> i)) in
         Printf.sprintf "g=%s go=%s gf=%s s=%s l=%s true=%s obs=%s nowrap=%s,%s,%s lex=%d,%d,%s"
           (verdict_s r.r_grammar) (verdict_s r.r_grammar_orig) (verdict_s r.r_grammar_fixed)
           (verdict_s r.r_states) (verdict_s r.r_lex) (ns r.r_true) (ns r.r_obs)
           (b01 r.r_nowrap_g) (b01 r.r_nowrap_s) (b01 r.r_nowrap_l) n mx (b01 inorder)
       | _ -> "BADCASE")
    | _ -> "BADCASE")
