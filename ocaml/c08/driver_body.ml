(* C08 model runner: reads the harness' result line (dump + per input `IN` [+ `FM` faulty mask], and with recovery
   the `EA` lines whose applied repair sequences are replayed), runs the mirror of today's
   code and the mirror of the repaired code, prints logs in the harness' format:
     # V wf= S=   then per input   # IN …  # OA … # L …* # EA …*   # FOA … # FL …*
   and, from the mirrors driven by a recoverer FUNCTION (C08.DetModel):
     # MN                (only if so) the reported sequences are not a function of the configuration (see recoverer_of)
     # MF <1|0>          run_actions_fixed_f (function = the reported applied sequences of parse_actions, by configuration)
                         gives what run_actions_fixed_rec gives on the oracle list
     # MG <outcome> # ME <tok>:<s>:<e> <stidx> …* # MT <tree>     run_generic_fixed_f (generic tree mode, function = the
                         reported applied sequences of parse_map) in the harness' OG / EG / TG format *)
let ios = int_of_string

let pp_arg b = function
  | ALex l -> Buffer.add_string b (Printf.sprintf " l:%d:%d:%d:%d" (int_of_n l.lx_tok) (int_of_nat l.lx_start)
                                     (int_of_nat l.lx_end) (if l.lx_faulty then 1 else 0))
  | AVal k -> Buffer.add_string b (Printf.sprintf " v:%d" (int_of_nat k))

let pp_res b otag ltag etag (r : pres outcome) =
  match r with
  | Panic -> Buffer.add_string b (Printf.sprintf " # %s panic" otag)
  | OutOfFuel -> Buffer.add_string b (Printf.sprintf " # %s fuel" otag)
  | Done r ->
      (match r.r_val with
       | Some v -> Buffer.add_string b (Printf.sprintf " # %s acc %d" otag (int_of_nat v))
       | None -> Buffer.add_string b (Printf.sprintf " # %s none" otag));
      List.iteri (fun k c ->
        Buffer.add_string b (Printf.sprintf " # %s %d %d %d %d %d %d" ltag k (int_of_n c.c_pidx) (int_of_n c.c_ridx)
                               (int_of_nat (fst c.c_span)) (int_of_nat (snd c.c_span)) (int_of_nat c.c_param));
        List.iter (pp_arg b) c.c_args) r.r_log;
      List.iter (fun (l, st) ->
        Buffer.add_string b (Printf.sprintf " # %s %d:%d:%d %d" etag (int_of_n l.lx_tok) (int_of_nat l.lx_start)
                               (int_of_nat l.lx_end) (int_of_n st))) r.r_errs

(* the `FM` section (one digit per lexeme, absent = none) carries the faulty flags of LEXER-SUPPLIED faulty lexemes: the
   model only copies the flag into the logged arguments, nothing it computes depends on it *)
let rec triples (fm : string) (i : int) = function
  | t :: s :: e :: rest ->
      { lx_tok = n_of_int (ios t); lx_start = nat_of_int (ios s); lx_end = nat_of_int (ios e);
        lx_faulty = (i < String.length fm && fm.[i] = '1') } :: triples fm (i + 1) rest
  | _ -> []

let repair_of (w : string) : repair =
  if w = "D" then RDelete else if w = "S" then RShift
  else RInsert (n_of_int (ios (String.sub w 1 (String.length w - 1))))

(* a recoverer FUNCTION (lexemes, laidx, parse stack) -> sequence built from the sequences an implementation reports, in
   order: a question about a configuration is answered with the next reported sequence.  Asked about the same configuration
   again (a repair that made no progress: conflict-resolved tables, C05-C07) the implementation must have given the same
   answer; if it did not (the last search before the time budget ran out finds nothing) [nonfun] is set: the
   implementation's recoverer was a function of configuration AND time on this input, outside DetModel's reading *)
let recoverer_of (reported : repair list option list) (nonfun : bool ref) : lexeme list -> nat -> n list -> repair list option =
  let queue = ref reported in
  let memo = Hashtbl.create 8 in
  fun _ laidx ps ->
    let key = (int_of_nat laidx, List.map int_of_n ps) in
    let r = (match !queue with x :: rest -> queue := rest; x | [] -> None) in
    (match Hashtbl.find_opt memo key with
     | Some r0 -> if r0 <> r then nonfun := true
     | None -> Hashtbl.add memo key r);
    r

let rec pp_gtree b = function
  | GTerm l -> Buffer.add_string b (Printf.sprintf "[%d %d %d %d]" (int_of_n l.lx_tok) (int_of_nat l.lx_start)
                                      (int_of_nat l.lx_end) (if l.lx_faulty then 1 else 0))
  | GNonterm (r, kids) ->
      Buffer.add_string b (Printf.sprintf "(%d" (int_of_n r));
      List.iter (fun k -> Buffer.add_char b ' '; pp_gtree b k) kids;
      Buffer.add_char b ')'

let pp_gres b (r : gres outcome) =
  match r with
  | Panic -> Buffer.add_string b " # MG panic"
  | OutOfFuel -> Buffer.add_string b " # MG fuel"
  | Done r ->
      Buffer.add_string b (match r.g_val with Some _ -> " # MG acc" | None -> " # MG none");
      List.iter (fun ((l, st), _) ->
        Buffer.add_string b (Printf.sprintf " # ME %d:%d:%d %d" (int_of_n l.lx_tok) (int_of_nat l.lx_start)
                               (int_of_nat l.lx_end) (int_of_n st))) r.g_errs;
      Buffer.add_string b " # MT ";
      (match r.g_val with Some t -> pp_gtree b t | None -> Buffer.add_char b '-')

let same_as_oracle_run (f : fres outcome) (o : pres outcome) : bool =
  match f, o with
  | Done f, Done o -> f.f_val = o.r_val && f.f_log = o.r_log && List.map fst f.f_errs = o.r_errs
  | Panic, Panic -> true
  | OutOfFuel, OutOfFuel -> true
  | _, _ -> false

let () =
  iter_lines (fun line ->
    if String.length line < 2 || String.sub line 0 2 <> "G " then "SKIP" else
    let d = parse_dump line in
    let g = grammar_of d in
    let a = of_dump (dump_of d) in
    let b = Buffer.create 1024 in
    Buffer.add_string b (Printf.sprintf "V wf=%s S=%s" (b2s (wf_grammar g)) (b2s (validS g a)));
    let secs = split_sections line in
    let rec_on = List.exists (fun s -> s = ["REC"; "1"]) secs in
    (* group: each IN with the EA sections that follow it *)
    let groups = ref [] in
    List.iter (fun sec ->
      match sec with
      | "IN" :: ws -> groups := (ws, ref [], ref "", ref []) :: !groups
      | "FM" :: m :: _ -> (match !groups with (_, _, fm, _) :: _ -> fm := m | [] -> ())
      | "EA" :: _ :: _ :: nrep :: rs ->
          (match !groups with
           | (_, eas, _, _) :: _ -> eas := (if ios nrep = 0 then None else Some (List.map repair_of rs)) :: !eas
           | [] -> ())
      | "EG" :: _ :: _ :: nrep :: rs ->
          (match !groups with
           | (_, _, _, egs) :: _ -> egs := (if ios nrep = 0 then None else Some (List.map repair_of rs)) :: !egs
           | [] -> ())
      | _ -> ()) secs;
    let magic = nat_of_int 77 in
    List.iter (fun (ws, eas, fm, egs) ->
      let lexemes = triples !fm 0 ws in
      let oracle = List.rev !eas in
      let fuel = nat_of_int (400 + 60 * (List.length lexemes + 2) * (List.length g.prods + 2)) in
      Buffer.add_string b " # IN";
      List.iter (fun w -> Buffer.add_char b ' '; Buffer.add_string b w) ws;
      pp_res b "OA" "L" "EA" (run_actions_rec g a magic lexemes fuel rec_on oracle);
      let fixed = run_actions_fixed_rec g a magic lexemes fuel rec_on oracle in
      pp_res b "FOA" "FL" "FEA" fixed;
      let nonfun = ref false in
      let ff = run_actions_fixed_f g a magic lexemes (recoverer_of oracle nonfun) fuel rec_on in
      Buffer.add_string b (Printf.sprintf " # MF %s" (b2s (same_as_oracle_run ff fixed)));
      let gr = run_generic_fixed_f g a lexemes (recoverer_of (List.rev !egs) nonfun) fuel rec_on in
      if !nonfun then Buffer.add_string b " # MN";
      pp_gres b gr) (List.rev !groups);
    Buffer.contents b)
