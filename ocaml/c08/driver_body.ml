(* C08 model runner: reads the harness' result line (dump + per input `IN` [+ `FM` faulty mask], and with recovery
   the `EA` lines whose applied repair sequences are replayed), runs the mirror of today's
   code and the mirror of the repaired code, prints logs in the harness' format:
     # V wf= S=   then per input   # IN …  # OA … # L …* # EA …*   # FOA … # FL …* *)
let ios = int_of_string

let pp_arg b = function
  | ALex l -> Buffer.add_string b (Printf.sprintf " l:%d:%d:%d:%d" (int_of_n l.lx_tok) (int_of_nat l.lx_start)
                                     (int_of_nat l.lx_end) (if l.lx_faulty then 1 else 0))
  | AVal k -> Buffer.add_string b (Printf.sprintf " v:%d" (int_of_nat k))

let pp_res b otag ltag etag (r : pres outcome) =
  match r with
  | Panic -> Buffer.add_string b (Printf.sprintf " # %s panic" otag)
  | OutOfFuel -> Buffer.add_string b (Printf.sprintf " # %s fuel" otag)
  | Done r ->
      (match r.r_val with
       | Some v -> Buffer.add_string b (Printf.sprintf " # %s acc %d" otag (int_of_nat v))
       | None -> Buffer.add_string b (Printf.sprintf " # %s none" otag));
      List.iteri (fun k c ->
        Buffer.add_string b (Printf.sprintf " # %s %d %d %d %d %d %d" ltag k (int_of_n c.c_pidx) (int_of_n c.c_ridx)
                               (int_of_nat (fst c.c_span)) (int_of_nat (snd c.c_span)) (int_of_nat c.c_param));
        List.iter (pp_arg b) c.c_args) r.r_log;
      List.iter (fun (l, st) ->
        Buffer.add_string b (Printf.sprintf " # %s %d:%d:%d %d" etag (int_of_n l.lx_tok) (int_of_nat l.lx_start)
                               (int_of_nat l.lx_end) (int_of_n st))) r.r_errs

(* the `FM` section (one digit per lexeme, absent = none) carries the faulty flags of LEXER-SUPPLIED faulty lexemes: the
   model only copies the flag into the logged arguments, nothing it computes depends on it *)
let rec triples (fm : string) (i : int) = function
  | t :: s :: e :: rest ->
      { lx_tok = n_of_int (ios t); lx_start = nat_of_int (ios s); lx_end = nat_of_int (ios e);
        lx_faulty = (i < String.length fm && fm.[i] = '1') } :: triples fm (i + 1) rest
  | _ -> []

let repair_of (w : string) : repair =
  if w = "D" then RDelete else if w = "S" then RShift
  else RInsert (n_of_int (ios (String.sub w 1 (String.length w - 1))))

let () =
  iter_lines (fun line ->
    if String.length line < 2 || String.sub line 0 2 <> "G " then "SKIP" else
    let d = parse_dump line in
    let g = grammar_of d in
    let a = of_dump (dump_of d) in
    let b = Buffer.create 1024 in
    Buffer.add_string b (Printf.sprintf "V wf=%s S=%s" (b2s (wf_grammar g)) (b2s (validS g a)));
    let secs = split_sections line in
    let rec_on = List.exists (fun s -> s = ["REC"; "1"]) secs in
    (* group: each IN with the EA sections that follow it *)
    let groups = ref [] in
    List.iter (fun sec ->
      match sec with
      | "IN" :: ws -> groups := (ws, ref [], ref "") :: !groups
      | "FM" :: m :: _ -> (match !groups with (_, _, fm) :: _ -> fm := m | [] -> ())
      | "EA" :: _ :: _ :: nrep :: rs ->
          (match !groups with
           | (_, eas, _) :: _ -> eas := (if ios nrep = 0 then None else Some (List.map repair_of rs)) :: !eas
           | [] -> ())
      | _ -> ()) secs;
    let magic = nat_of_int 77 in
    List.iter (fun (ws, eas, fm) ->
      let lexemes = triples !fm 0 ws in
      let oracle = List.rev !eas in
      let fuel = nat_of_int (400 + 60 * (List.length lexemes + 2) * (List.length g.prods + 2)) in
      Buffer.add_string b " # IN";
      List.iter (fun w -> Buffer.add_char b ' '; Buffer.add_string b w) ws;
      pp_res b "OA" "L" "EA" (run_actions_rec g a magic lexemes fuel rec_on oracle);
      pp_res b "FOA" "FL" "FEA" (run_actions_fixed_rec g a magic lexemes fuel rec_on oracle)) (List.rev !groups);
    Buffer.contents b)
