(* C10 half (b): runs the extracted mirror of YaccParser on `<kind> <hexsrc> [fc] [fa] [fp]`
   and prints the transcript format of harness/src/bin/c10yp.rs *)
let unhex (s : string) : int list =
  (* hex -> bytes -> code points (input is valid UTF-8) *)
  let n = String.length s / 2 in
  let b = Array.init n (fun i -> int_of_string ("0x" ^ String.sub s (2 * i) 2)) in
  let rec go i acc =
    if i >= n then List.rev acc
    else
      let c = b.(i) in
      if c < 0x80 then go (i + 1) (c :: acc)
      else if c < 0xE0 then go (i + 2) ((((c land 0x1F) lsl 6) lor (b.(i + 1) land 0x3F)) :: acc)
      else if c < 0xF0 then
        go (i + 3) ((((c land 0x0F) lsl 12) lor ((b.(i + 1) land 0x3F) lsl 6) lor (b.(i + 2) land 0x3F)) :: acc)
      else
        go (i + 4)
          ((((c land 0x07) lsl 18) lor ((b.(i + 1) land 0x3F) lsl 12) lor ((b.(i + 2) land 0x3F) lsl 6)
            lor (b.(i + 3) land 0x3F)) :: acc)
  in
  go 0 []

let xh (s : n list) : string =
  let b = Buffer.create 16 in
  Buffer.add_char b 'x';
  let byte x = Buffer.add_string b (Printf.sprintf "%02x" x) in
  List.iter (fun c ->
    let c = int_of_n c in
    if c < 0x80 then byte c
    else if c < 0x800 then (byte (0xC0 lor (c lsr 6)); byte (0x80 lor (c land 0x3F)))
    else if c < 0x10000 then
      (byte (0xE0 lor (c lsr 12)); byte (0x80 lor ((c lsr 6) land 0x3F)); byte (0x80 lor (c land 0x3F)))
    else
      (byte (0xF0 lor (c lsr 18)); byte (0x80 lor ((c lsr 12) land 0x3F));
       byte (0x80 lor ((c lsr 6) land 0x3F)); byte (0x80 lor (c land 0x3F)))) s;
  Buffer.contents b

(* N -> lower-case hex without leading zeros (values may exceed OCaml's int) *)
let hex_of_n (x : n) : string =
  let rec bits = function XH -> [1] | XO p -> 0 :: bits p | XI p -> 1 :: bits p in
  match x with
  | N0 -> "0"
  | Npos p ->
    let bs = bits p in
    let rec grp = function
      | [] -> []
      | a :: b :: c :: d :: r -> (a + 2 * b + 4 * c + 8 * d) :: grp r
      | l -> let rec v = function [] -> 0 | x :: r -> x + 2 * v r in [v l] in
    String.concat "" (List.rev_map (Printf.sprintf "%x") (grp bs))

let sp (s, e) = Printf.sprintf "%d %d" (int_of_nat s) (int_of_nat e)
let sym = function
  | SRule (n, l) -> Printf.sprintf " R %s %s" (xh n) (sp l)
  | SToken (n, l) -> Printf.sprintf " T %s %s" (xh n) (sp l)

let kind_name (k : ekind) : string =
  let a n s = n ^ ":" ^ xh s in
  match k with
  | IllegalInteger -> "IllegalInteger" | IllegalName -> "IllegalName" | IllegalString -> "IllegalString"
  | IncompleteRule -> "IncompleteRule" | IncompleteComment -> "IncompleteComment"
  | IncompleteAction -> "IncompleteAction" | MissingColon -> "MissingColon"
  | MissingRightArrow -> "MissingRightArrow" | MismatchedBrace -> "MismatchedBrace"
  | NonEmptyProduction -> "NonEmptyProduction" | PrematureEnd -> "PrematureEnd"
  | ProductionNotTerminated -> "ProductionNotTerminated" | ProgramsNotSupported -> "ProgramsNotSupported"
  | UnknownDeclaration -> "UnknownDeclaration" | PrecNotFollowedByToken -> "PrecNotFollowedByToken"
  | DuplicatePrecedence -> "DuplicatePrecedence"
  | DuplicateAvoidInsertDeclaration -> "DuplicateAvoidInsertDeclaration"
  | DuplicateImplicitTokensDeclaration -> "DuplicateImplicitTokensDeclaration"
  | DuplicateExpectDeclaration -> "DuplicateExpectDeclaration"
  | DuplicateExpectRRDeclaration -> "DuplicateExpectRRDeclaration"
  | DuplicateStartDeclaration -> "DuplicateStartDeclaration"
  | DuplicateActiontypeDeclaration -> "DuplicateActiontypeDeclaration"
  | DuplicateEPP -> "DuplicateEPP" | ReachedEOL -> "ReachedEOL" | InvalidString -> "InvalidString"
  | NoStartRule -> "NoStartRule" | UnknownSymbol -> "UnknownSymbol"
  | InvalidStartRule s -> a "InvalidStartRule" s | UnknownRuleRef s -> a "UnknownRuleRef" s
  | UnknownToken s -> a "UnknownToken" s | NoPrecForToken s -> a "NoPrecForToken" s
  | UnknownEPP s -> a "UnknownEPP" s

let dump (a : gast) (errs : yerr list) (warns : (wkind * span) list outcome) : string =
  let b = Buffer.create 1024 in
  let add = Buffer.add_string b in
  (match errs with [] -> add "OK" | _ -> add (Printf.sprintf "ERRS %d" (List.length errs)));
  List.iter (fun e ->
    add (" # E " ^ kind_name e.e_kind);
    List.iter (fun l -> add (" " ^ sp l)) e.e_spans) errs;
  (match a.a_start with
   | Some (n, l) -> add (Printf.sprintf " # START %s %s" (xh n) (sp l))
   | None -> add " # START -");
  List.iter (fun r ->
    add (Printf.sprintf " # RULE %s %s " (xh r.r_name) (sp r.r_span));
    (match r.r_actiont with Some t -> add (xh t) | None -> add "-");
    (match r.r_pidxs with
     | [] -> add " -"
     | l -> add (" " ^ String.concat "," (List.map (fun p -> string_of_int (int_of_nat p)) l)))) a.a_rules;
  List.iter (fun p ->
    add " # PROD ";
    (match p.p_prec with Some t -> add (xh t) | None -> add "-");
    (match p.p_action with
     | Some (t, l) -> add (Printf.sprintf " %s %s" (xh t) (sp l))
     | None -> add " -");
    add (" " ^ sp p.p_span);
    List.iter (fun s -> add (sym s)) p.p_syms) a.a_prods;
  let dirs = List.map int_of_nat a.a_token_directives in
  let spans = Array.of_list a.a_spans in
  List.iteri (fun i t ->
    if i < Array.length spans then add (Printf.sprintf " # TOK %s %s" (xh t) (sp spans.(i)))
    else add (Printf.sprintf " # TOK %s ? ?" (xh t));
    add (if List.mem i dirs then " D" else " -")) a.a_tokens;
  if Array.length spans <> List.length a.a_tokens then
    add (Printf.sprintf " # SPANSLEN %d %d" (Array.length spans) (List.length a.a_tokens));
  List.iter (fun i -> if i >= List.length a.a_tokens then add (Printf.sprintf " # BADTOKDIR %d" i))
    (List.sort compare dirs);
  List.iter (fun (n, ((lvl, k), l)) ->
    add (Printf.sprintf " # PREC %s %d %s %s" (xh n) (int_of_nat lvl)
           (match k with ALeft -> "L" | ARight -> "R" | ANonassoc -> "N") (sp l))) a.a_precs;
  let optmap tag item = function
    | None -> add (Printf.sprintf " # %s -" tag)
    | Some m ->
      add (Printf.sprintf " # %s +" tag);
      List.iter (fun (n, l) -> add (Printf.sprintf " # %s %s %s" item (xh n) (sp l))) m in
  optmap "AVOID" "AI" a.a_avoid_insert;
  optmap "IMPL" "IT" a.a_implicit_tokens;
  List.iter (fun (n, (kl, (v, vl))) ->
    add (Printf.sprintf " # EPP %s %s %s %s" (xh n) (sp kl) (xh v) (sp vl))) a.a_epp;
  (match a.a_expect with Some (n, l) -> add (Printf.sprintf " # EXPECT %s %s" (hex_of_n n) (sp l)) | None -> ());
  (match a.a_expectrr with Some (n, l) -> add (Printf.sprintf " # EXPECTRR %s %s" (hex_of_n n) (sp l)) | None -> ());
  (match a.a_parse_param with Some (n, t) -> add (Printf.sprintf " # PP %s %s" (xh n) (xh t)) | None -> ());
  (match a.a_parse_generics with Some t -> add (Printf.sprintf " # PG %s" (xh t)) | None -> ());
  (match a.a_programs with Some t -> add (Printf.sprintf " # PROGS %s" (xh t)) | None -> ());
  List.iter (fun s -> add (" # EU" ^ sym s)) a.a_expect_unused;
  (match warns with
   | Done ws ->
     List.iter (fun (k, l) ->
       add (Printf.sprintf " # W %s %s" (match k with UnusedRule -> "UnusedRule" | UnusedToken -> "UnusedToken") (sp l))) ws
   | _ -> add " # W PANIC");
  Buffer.contents b

let () =
  iter_lines (fun line ->
    match split_ws line with
    | k :: h :: rest ->
      let kind = match k with "G" -> KGrmtools | "E" -> KEco | _ -> KOriginal in
      let src = if h = "-" then [] else List.map n_of_int (unhex h) in
      (* optional flags: fc = repaired block-comment scan, fa = repaired action span,
         fp = repaired production span (/repo 69c4b9b: get_or_insert at the action's brace),
         fu = %prec tokens of reachable productions count as used (/repo 4ff022d) *)
      let fixed = List.mem "fc" rest and fixed_aspan = List.mem "fa" rest and fixed_pspan = List.mem "fp" rest
      and fixed_precused = List.mem "fu" rest in
      (match run_case fixed fixed_aspan fixed_pspan fixed_precused kind src with
       | Panic -> "PANIC"
       | OutOfFuel -> "OUTOFFUEL"
       | Done THeader -> "HEADER"
       | Done (TResult (a, errs, warns)) -> dump a errs warns)
    | _ -> "BADCASE")
