(* C06 driver: input = one output line of the `repair` harness (grammar/automaton dump, KN, CO, AV,
   then per input the errors with ALL their repair sequences), optionally followed by ` # OPT k=v …`.
   For every error whose configuration the mirror driver of Repair/Semantics.v reproduces (replaying
   the implementation's own first sequences, as C05 does):
     IM  per implementation sequence: cost (scost), valid_repair, distance parsed (far; far_orig under OPT rankcap=0)
     RF  the extracted reference all_min_repairs (= simplify of ranked_successes), iterative deepening
         on cost driven from here with singleton schedules (time-capped: `cap` = not computed)
     RS  its sequences, each with the flag "some Shift of the full sequence returns the state stack
         to an equal value" (the condition under which CPCTPlus::shift drops the neighbour)
     MP / MF  the mirror of the search with the pinned / the repaired `shift`
   Python judges. *)
type ierr = { ipos : int; ist : int; seqs : (repair * int) list list }
type icase = { toks : int list; mutable errs : ierr list; mutable value : string; mutable ms : int }

let parse_step (s : string) : repair * int =
  let n = int_of_string (String.sub s 1 (String.length s - 1)) in
  match s.[0] with
  | 'I' -> (Ins (n_of_int n), -1)
  | 'D' -> (Del, n)
  | _ -> (Shf, n)

let parse_inputs (secs : string list list) : icase list =
  let cases = ref [] in
  List.iter (fun sec ->
    match sec, !cases with
    | "I" :: toks, _ -> cases := { toks = List.map int_of_string toks; errs = []; value = ""; ms = 0 } :: !cases
    | "ER" :: p :: s :: _, c :: _ -> c.errs <- { ipos = int_of_string p; ist = int_of_string s; seqs = [] } :: c.errs
    | "RS" :: steps, c :: _ ->
        (match c.errs with
         | e :: rest -> c.errs <- { e with seqs = List.map parse_step steps :: e.seqs } :: rest
         | [] -> ())
    | "VL" :: v, c :: _ -> c.value <- String.concat " " v
    | "TM" :: m :: _, c :: _ -> c.ms <- int_of_string m
    | _ -> ()) secs;
  List.rev_map (fun c -> c.errs <- List.rev_map (fun e -> { e with seqs = List.rev e.seqs }) c.errs; c) !cases

let step_str = function
  | Ins t -> Printf.sprintf "I%d" (int_of_n t)
  | Del -> "D"
  | Shf -> "S"
let seq_str (s : repair list) : string = if s = [] then "-" else String.concat " " (List.map step_str s)

(* untrusted work estimates (they only decide whether a case is skipped as too big) *)
exception Too_big
let count_nodes g a input ifuel pN costsN (cc : int) (pn : int) stk p (cap : int) : int =
  let n = ref 0 in
  let mvs = moves g in
  let rec go d c stk p k ld =
    incr n; if !n > cap then raise Too_big;
    if done_at g a input ifuel pN k stk p then () else
    if d <= 0 then () else
    List.iter (fun m ->
      if allowed g ld m then begin
        let mc = int_of_n (mcost g input costsN m p) in
        if mc <= c then
          match sstep g a input ifuel m stk p with
          | Some (stk', p') -> go (d - 1) (c - mc) stk' p' (next_k k m) (is_del m)
          | None -> ()
      end) mvs in
  go ((cc + 1) * pn) cc stk p O false; !n

let rec count_unfold (cap : int) (t : rtree) : int =
  let r = match t with
    | RTerm -> 0
    | RRep (_, _, pa) -> Stdlib.max 1 (count_unfold cap pa)
    | RMrg (_, _, alts, pa) -> List.fold_left (fun acc x -> if acc > cap then acc else acc + count_unfold cap x)
                              (Stdlib.max 1 (count_unfold cap pa)) alts in
  if r > cap then cap + 1 else r

let rec take n = function [] -> [] | x :: r -> if n <= 0 then [] else x :: take (n - 1) r

let () =
  iter_lines (fun line ->
    if String.length line < 2 || String.sub line 0 2 <> "G " then "SKIP" else
    try
    let secs = split_sections line in
    let d = parse_dump line in
    let g = grammar_of d in
    let dd = dump_of d in
    let a = of_dump dd in
    let pn = ref 3 and trymax = ref 250 in
    let costs = ref [] and avoid = ref [] in
    let opt = Hashtbl.create 8 in
    List.iter (function
      | "KN" :: n :: t :: _ -> pn := int_of_string n; trymax := int_of_string t
      | "CO" :: cs -> costs := List.map int_of_string cs
      | "AV" :: av -> avoid := List.map int_of_string av
      | "OPT" :: kvs -> List.iter (fun kv -> match String.split_on_char '=' kv with
                                             | [k; v] -> Hashtbl.replace opt k v | _ -> ()) kvs
      | _ -> ()) secs;
    let geto k dflt = try float_of_string (Hashtbl.find opt k) with Not_found -> dflt in
    let ncap = int_of_float (geto "ncap" 150000.0) in   (* nodes of the enumeration tree beyond which the reference is not computed *)
    let max_edits = int_of_float (geto "maxedits" 6.0) in
    let mfuel = int_of_float (geto "mfuel" 60000.0) in
    let ecap = int_of_float (geto "ecap" 12.0) in
    let msmax = int_of_float (geto "msmax" 400.0) in
    let mirrors = int_of_float (geto "mirrors" 3.0) in   (* bit 0: pinned shift, bit 1: repaired shift *)
    let scap = int_of_float (geto "scap" 4000.0) in
    (* rankcap=1: rank_cnds as repaired by /repo 00915cc (distance capped at in_laidx + TRY_PARSE_AT_MOST: far, ranked_successes,
       search_mirror); rankcap=0: the pinned ranking (far_orig, ranked_successes_orig, search_mirror_orig) *)
    let rankcap = int_of_float (geto "rankcap" 1.0) <> 0 in
    (* direct=1: the reference is run once, with the schedule [cost of the implementation's sequences] (reference_complete holds
       for every schedule: min_successes filters the minimum); for errors whose repairs cost too much to deepen step by step *)
    let direct = int_of_float (geto "direct" 0.0) <> 0 in
    (* fullvalid=1: also evaluate validC / validE (the hypotheses of C06_validated_search_complete and its at-error form) and, per error, rank_fuel_ok;
       mirrorcap=1: run the search mirror also where the exhaustive reference was not computed (`RF cap`) — on a validated table
       the mirror's set IS the reference set (C06_validated_search_complete_at_error), Python uses it as the oracle there *)
    let fullvalid = int_of_float (geto "fullvalid" 0.0) <> 0 in
    let mirrorcap = int_of_float (geto "mirrorcap" 0.0) <> 0 in
    let far_v = if rankcap then far else far_orig in
    let ranked_v = if rankcap then ranked_successes else ranked_successes_orig in
    let mirror_v = if rankcap then search_mirror else search_mirror_orig in
    let pN = nat_of_int !pn and tRY = nat_of_int !trymax in
    let costsN = List.map n_of_int !costs and avoidN = List.map n_of_int !avoid in
    let nprods = List.length g.prods in
    let mincost = List.fold_left Stdlib.min 255 (List.filteri (fun i _ -> i <> d.eof) !costs) in
    let mincost = Stdlib.max 1 mincost in
    let b = Buffer.create 1024 in
    Buffer.add_string b (Printf.sprintf "V wf=%s S=%s single=%s nse=%s" (b2s (wf_grammar g)) (b2s (validS g a))
      (b2s (single_candidate g a)) (b2s (dump_no_shift_eof g.eof dd)));
    if fullvalid then Buffer.add_string b (Printf.sprintf " C=%s E=%s" (b2s (validC g a)) (b2s (validE g a)));
    List.iter (fun (c0 : icase) ->
     try
      let c = if List.length c0.errs > ecap then { c0 with errs = take ecap c0.errs } else c0 in
      let input = List.map n_of_int c.toks in
      let len = List.length c.toks in
      let ifuel = nat_of_int (400 + 20 * (len + 2) * (nprods + 2)) in
      let ofuel = nat_of_int (4 * len + 20 + 2 * List.length c.errs) in
      let oracle = List.map (fun e -> match e.seqs with [] -> None | s :: _ -> Some (List.map fst s)) c.errs in
      let r = run_recover g a input ifuel pN ofuel oracle [] O in
      let mes = match r with DDone (_, es) -> es | DStuck (_, es) -> es in
      Buffer.add_string b (Printf.sprintf " # J nerr=%d" (List.length c0.errs));
      let rec walk i (ies : ierr list) (mes : err list) =
        match ies, mes with
        | ie :: ies', me :: mes' when ie.ipos = int_of_nat me.e_pos && ie.ist = int_of_n me.e_state ->
            let stk = me.e_stk and p = me.e_pos in
            Buffer.add_string b (Printf.sprintf " # E %d %d %d ok" i ie.ipos ie.ist);
            (* the implementation's sequences *)
            let nimpl = List.length ie.seqs in
            let impl_costs = ref [] in
            List.iteri (fun j seq ->
              if j < scap then begin
                let rs = List.map fst seq in
                let cst = int_of_n (scost g input costsN rs p) in
                impl_costs := cst :: !impl_costs;
                let ok = valid_repair g a input ifuel pN stk p rs in
                let fr = int_of_nat (far_v g a input ifuel tRY stk p rs) in
                Buffer.add_string b (Printf.sprintf " # IM %d %s %d : %s" cst (b2s ok) fr (seq_str rs))
              end) ie.seqs;
            (* the reference, by iterative deepening on cost *)
            let cimpl = List.fold_left Stdlib.min Stdlib.max_int !impl_costs in
            let bound = if nimpl = 0 then Stdlib.min 65535 (mincost * 3) else cimpl in
            let bound = Stdlib.min bound 65535 in
            let vals = List.sort_uniq Stdlib.compare (List.filteri (fun i _ -> i <> d.eof) !costs) in
            let reach = Array.make (bound + 1) false in
            reach.(0) <- true;
            for cc = 1 to bound do
              reach.(cc) <- List.exists (fun v -> v >= 1 && cc >= v && reach.(cc - v)) vals
            done;
            let sched = if direct then [bound] else List.filter (fun cc -> reach.(cc)) (List.init (bound + 1) (fun x -> x)) in
            let result = ref None and status = ref "none" in
            (try
              List.iter (fun cc ->
                if !result = None && !status <> "cap" then begin
                  if cc / mincost > max_edits then status := "cap" else begin
                    match (try Some (count_nodes g a input ifuel pN costsN cc !pn stk p ncap) with Too_big -> None) with
                    | None -> status := "cap"
                    | Some _ ->
                        (match ranked_v g a input ifuel pN costsN tRY [n_of_int cc] stk p with
                         | Some ((m, fm), l) ->
                             if List.length l > scap then status := "cap"
                             else (result := Some (int_of_n m, int_of_nat fm, l); status := "some")
                         | None -> ())
                  end
                end) sched
            with Stack_overflow -> status := "cap"; result := None);
            (match !result with
             | Some (m, fm, l) ->
                 let out = simplify avoidN l in
                 Buffer.add_string b (Printf.sprintf " # RF some %d %d %d" m fm (List.length out));
                 let outs = List.sort Stdlib.compare (List.map (fun rs ->
                   let fulls = List.filter (fun s -> strip s = rs) l in
                   let flag = fulls <> [] && List.for_all (fun s -> shift_returns g a input ifuel s stk p) fulls in
                   (seq_str rs, flag)) out) in
                 List.iter (fun (s, f) -> Buffer.add_string b (Printf.sprintf " # RS %s : %s" (b2s f) s)) outs
             | None -> Buffer.add_string b (Printf.sprintf " # RF %s %d" !status bound));
            (* the mirrors only where the implementation's own search was small (its wall time is in the line) *)
            if (!status <> "cap" || mirrorcap) && nimpl > 0 && c.ms <= msmax then begin
              (* the mirror of the search, pinned and repaired *)
                 List.iter (fun (tag, fixed) ->
                   let small = (try (match dijkstra fixed g a input ifuel pN costsN (nat_of_int mfuel) stk p with
                                          | Done cnds ->
                                              if fullvalid && fixed && rankcap then
                                                Buffer.add_string b (Printf.sprintf " # RK %s" (b2s (rank_fuel_ok g a input ifuel tRY stk p cnds)));
                                              List.fold_left (fun acc nd -> if acc > scap then acc else acc + count_unfold scap nd.n_rep) 0 cnds <= scap
                                          | _ -> true)
                                with Stack_overflow -> false) in
                   match (if not small then OutOfFuel else
                          try mirror_v fixed g a input ifuel pN costsN tRY avoidN (nat_of_int mfuel) stk p
                          with Stack_overflow -> OutOfFuel) with
                   | Done out ->
                       Buffer.add_string b (Printf.sprintf " # %s done %d" tag (List.length out));
                       List.iter (fun s -> Buffer.add_string b (Printf.sprintf " # MS %s" s))
                         (List.sort Stdlib.compare (List.map seq_str out))
                   | Panic -> Buffer.add_string b (Printf.sprintf " # %s panic" tag)
                   | OutOfFuel -> Buffer.add_string b (Printf.sprintf " # %s fuel" tag)) (List.filter (fun (tg, _) -> (tg = "MP" && mirrors land 1 <> 0) || (tg = "MF" && mirrors land 2 <> 0))
                        [("MP", false); ("MF", true)])
            end;
            walk (i + 1) ies' mes'
        | ie :: _, _ -> Buffer.add_string b (Printf.sprintf " # E %d %d %d misaligned" i ie.ipos ie.ist)
        | [], _ -> () in
      walk 0 c.errs mes
     with Stack_overflow -> Buffer.add_string b " # J overflow") (parse_inputs secs);
    Buffer.contents b
    with Stack_overflow -> "SKIP overflow")
