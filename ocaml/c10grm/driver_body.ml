(* C10 (a) driver: one case per line = `F0|F1 <AST dump of harness c10grm>`; prints
   `WF <0|1> @@ <accessor transcript>` in the harness's format. *)
let unhex_n (s : string) : n list =
  (* s = "x<hex>" *)
  let k = (String.length s - 1) / 2 in
  List.init k (fun i -> n_of_int (int_of_string ("0x" ^ String.sub s (1 + 2 * i) 2)))
let hex_n (l : n list) : string =
  "x" ^ String.concat "" (List.map (fun c -> Printf.sprintf "%02x" (int_of_n c)) l)
let ohex = function Some l -> hex_n l | None -> "-"
let oname s = if s = "-" then None else Some (unhex_n s)
let ni = nat_of_int
let iN = int_of_nat
let span s e = (ni (int_of_string s), ni (int_of_string e))
let assoc_of = function "0" -> ALeft | "1" -> ARight | _ -> ANonassoc
let assoc_code = function ALeft -> 0 | ARight -> 1 | ANonassoc -> 2
let split_sections (s : string) : string list list =
  List.map split_ws (Str.split (Str.regexp_string " # ") s)
let colon3 s = match String.split_on_char ':' s with [a; b; c] -> (a, b, c) | _ -> failwith "colon3"

let parse_ast (secs : string list list) : ast =
  let kind = ref KOriginal and start = ref None and rules = ref [] and prods = ref []
  and toks = ref [] and spans = ref [] and precs = ref [] and epp = ref [] and avoid = ref None
  and implicit = ref None and expect = ref None and expectrr = ref None and pp = ref None
  and pg = ref None and prog = ref None in
  List.iter (fun sec ->
    match sec with
    | ["K"; k] -> kind := (match k with "G" -> KGrmtools | "E" -> KEco | _ -> KOriginal)
    | ["ST"; "-"] -> ()
    | ["ST"; n; _; _] -> start := Some (unhex_n n)
    | "R" :: key :: _nm :: s :: e :: at :: ps ->
        rules := { ar_name = unhex_n key; ar_span = span s e;
                   ar_pidxs = List.map (fun p -> ni (int_of_string p)) ps; ar_actiont = oname at } :: !rules
    | "D" :: s :: e :: pr :: act :: as_ :: ae :: syms ->
        let sy = List.map (fun x ->
          let (nm, _, _) = colon3 x in
          let body = String.sub nm 1 (String.length nm - 1) in
          if nm.[0] = 'r' then ARule (unhex_n body) else AToken (unhex_n body)) syms in
        prods := { ap_syms = sy; ap_prec = oname pr;
                   ap_action = (if act = "-" then None else Some (unhex_n act, span as_ ae));
                   ap_span = span s e } :: !prods
    | ["T"; n; s; e] ->
        toks := unhex_n n :: !toks;
        if s <> "P" then spans := span s e :: !spans
    | ["NSPANS"; _] -> ()
    | ["PR"; n; lvl; k; _; _] -> precs := (unhex_n n, (ni (int_of_string lvl), assoc_of k)) :: !precs
    | ["EPP"; n; v; _; _; _; _] -> epp := (unhex_n n, unhex_n v) :: !epp
    | ["AI"; "-"] -> ()
    | "AI" :: l -> avoid := Some (List.map (fun x -> let (n, _, _) = colon3 x in unhex_n n) l)
    | ["IT"; "-"] | ["ITO"; "-"] -> ()
    | "IT" :: _ -> ()
    | "ITO" :: l -> implicit := Some (List.map unhex_n l)
    | ["EX"; "-"] | ["EXRR"; "-"] | ["PP"; "-"] -> ()
    | ["EX"; n; _; _] -> expect := Some (ni (int_of_string n))
    | ["EXRR"; n; _; _] -> expectrr := Some (ni (int_of_string n))
    | ["PP"; n; t] -> pp := Some (unhex_n n, unhex_n t)
    | ["PG"; x] -> pg := oname x
    | ["PROG"; x] -> prog := oname x
    | _ -> failwith ("bad section " ^ String.concat " " sec)) secs;
  { a_kind = !kind; a_start = !start; a_rules = List.rev !rules; a_prods = List.rev !prods;
    a_tokens = List.rev !toks; a_spans = List.rev !spans; a_precs = List.rev !precs;
    a_avoid = !avoid; a_implicit = !implicit; a_epp = List.rev !epp; a_expect = !expect;
    a_expectrr = !expectrr; a_parse_param = !pp; a_parse_generics = !pg; a_programs = !prog }

let prec_s = function Some (l, k) -> Printf.sprintf "%d %d" (iN l) (assoc_code k) | None -> "-"
let onat_s = function Some n -> string_of_int (iN n) | None -> "-"
let sym_code = function GT t -> 2 * iN t | GR r -> 2 * iN r + 1

let transcript (g : grammar_obj) : string =
  let b = Buffer.create 4096 in
  let add fmt = Printf.ksprintf (Buffer.add_string b) fmt in
  let ints l = String.concat "" (List.map (fun x -> " " ^ string_of_int (iN x)) l) in
  add "LEN %d %d %d" (iN (rules_len g)) (iN (prods_len g)) (iN (tokens_len g));
  add " # EOF %d" (iN (eof_token_idx g));
  add " # SP %d" (iN (start_prod g));
  (match start_rule_idx g with Done r -> add " # SR %d" (iN r) | _ -> add " # SR P");
  add " # IR %s" (onat_s (implicit_rule g));
  add " # IRS%s # IPS%s # ITS%s" (ints (iter_rules g)) (ints (iter_pidxs g)) (ints (iter_tidxs g));
  List.iter (fun r ->
    let i = iN r in
    (match rule_name_str g r with
     | Done n -> add " # RN %d %s" i (hex_n n); add " # RI %d %s" i (onat_s (rule_idx g n))
     | _ -> add " # RN %d P" i);
    (match rule_name_span g r with Done (s, e) -> add " # RS %d %d %d" i (iN s) (iN e) | _ -> add " # RS %d P" i);
    (match rule_to_prods g r with Done ps -> add " # RP %d%s" i (ints ps) | _ -> add " # RP %d P" i);
    (match actiontype g r with Done x -> add " # AT %d %s" i (ohex x) | _ -> add " # AT %d P" i))
    (iter_rules g);
  List.iter (fun p ->
    let i = iN p in
    (match prod_at g p with
     | Done syms -> add " # PD %d%s" i (String.concat "" (List.map (fun s -> " " ^ string_of_int (sym_code s)) syms))
     | _ -> add " # PD %d P" i);
    (match prod_len g p with Done l -> add " # PL %d %d" i (iN l) | _ -> add " # PL %d P" i);
    (match prod_to_rule g p with Done r -> add " # PR %d %d" i (iN r) | _ -> add " # PR %d P" i);
    (match prod_precedence g p with Done x -> add " # PP %d %s" i (prec_s x) | _ -> add " # PP %d P" i);
    (match prod_span g p with Done (s, e) -> add " # PS %d %d %d" i (iN s) (iN e) | _ -> add " # PS %d P" i);
    (match action g p with Done x -> add " # AC %d %s" i (ohex x) | _ -> add " # AC %d P" i);
    (match action_span g p with
     | Done (Some (s, e)) -> add " # AS %d %d %d" i (iN s) (iN e)
     | Done None -> add " # AS %d -" i
     | _ -> add " # AS %d P" i))
    (iter_pidxs g);
  List.iter (fun t ->
    let i = iN t in
    (match token_name g t with
     | Done (Some n) -> add " # TN %d %s" i (hex_n n); add " # TI %d %s" i (onat_s (token_idx g n))
     | Done None -> add " # TN %d -" i
     | _ -> add " # TN %d P" i);
    (match token_precedence g t with Done x -> add " # TP %d %s" i (prec_s x) | _ -> add " # TP %d P" i);
    (match token_epp g t with Done x -> add " # TE %d %s" i (ohex x) | _ -> add " # TE %d P" i);
    (match token_span g t with
     | Done (Some (s, e)) -> add " # TS %d %d %d" i (iN s) (iN e)
     | Done None -> add " # TS %d -" i
     | _ -> add " # TS %d P" i);
    (match avoid_insert g t with Done x -> add " # AV %d %d" i (if x then 1 else 0) | _ -> add " # AV %d P" i))
    (iter_tidxs g);
  add " # TM%s" (String.concat "" (List.map (fun (n, t) -> Printf.sprintf " %d:%s" (iN t) (hex_n n)) (tokens_map g)));
  add " # EX %s # EXRR %s" (onat_s (g_expect g)) (onat_s (g_expectrr g));
  (match g_parse_param g with Some (n, t) -> add " # PPM %s %s" (hex_n n) (hex_n t) | None -> add " # PPM -");
  add " # PG %s # PROG %s" (ohex (g_parse_generics g)) (ohex (g_programs g));
  Buffer.contents b

let () =
  iter_lines (fun line ->
    try
      let fixed = String.length line > 1 && line.[1] = '1' in
      let rest = String.sub line 3 (String.length line - 3) in
      let a = parse_ast (split_sections rest) in
      let wf = if wf_astb a then 1 else 0 in
      match build_grammar fixed a with
      | Done g -> Printf.sprintf "WF %d @@ %s" wf (transcript g)
      | Panic -> Printf.sprintf "WF %d @@ BUILDPANIC" wf
      | OutOfFuel -> Printf.sprintf "WF %d @@ FUEL" wf
    with e -> "DRIVERERR " ^ Printexc.to_string e)
