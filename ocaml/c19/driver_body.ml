(* ---- SpannedDiagnosticFormatter cases (C19/Diag.v) ----------------------- *)
let utf8 (b : Buffer.t) (cp : int) =
  if cp < 0x80 then Buffer.add_char b (Char.chr cp)
  else if cp < 0x800 then (Buffer.add_char b (Char.chr (0xC0 lor (cp lsr 6)));
                           Buffer.add_char b (Char.chr (0x80 lor (cp land 0x3F))))
  else if cp < 0x10000 then (Buffer.add_char b (Char.chr (0xE0 lor (cp lsr 12)));
                             Buffer.add_char b (Char.chr (0x80 lor ((cp lsr 6) land 0x3F)));
                             Buffer.add_char b (Char.chr (0x80 lor (cp land 0x3F))))
  else (Buffer.add_char b (Char.chr (0xF0 lor (cp lsr 18)));
        Buffer.add_char b (Char.chr (0x80 lor ((cp lsr 12) land 0x3F)));
        Buffer.add_char b (Char.chr (0x80 lor ((cp lsr 6) land 0x3F)));
        Buffer.add_char b (Char.chr (0x80 lor (cp land 0x3F))))
let hex_of (s : string) : string =
  let b = Buffer.create (2 * String.length s) in
  String.iter (fun ch -> Buffer.add_string b (Printf.sprintf "%02x" (Char.code ch))) s;
  Buffer.contents b
(* the string prefixed_underline_span_with_text builds from the rows: per row
   "<num>| <text>\n<prefix><blanks><underline>", rows separated by "\n", the
   message after the last row; nothing at all when there is no row *)
let render_rows (plen : int) (rows : row list) (msg : string) : string =
  let b = Buffer.create 64 in
  let n = List.length rows in
  List.iteri (fun i r ->
    Buffer.add_string b (string_of_int (int_of_nat r.r_num));
    Buffer.add_string b "| ";
    List.iter (fun cp -> utf8 b (int_of_n cp)) r.r_text;
    Buffer.add_char b '\n';
    Buffer.add_string b (String.make plen '.');
    Buffer.add_string b (String.make (int_of_nat (row_indent_cols corpus_width (nat_of_int plen) r)) ' ');
    Buffer.add_string b (String.make (int_of_nat (row_under_cols corpus_width r)) '^');
    if i = n - 1 then (Buffer.add_char b ' '; Buffer.add_string b msg) else Buffer.add_char b '\n') rows;
  Buffer.contents b
let ordinal (v : int) : string =
  let suffix = match (v mod 100 >= 11 && v mod 100 <= 13, v mod 10) with
    | (false, 1) -> "st" | (false, 2) -> "nd" | (false, 3) -> "rd" | _ -> "th" in
  string_of_int v ^ suffix
let rec pairs_of = function a :: b :: r -> (nat_of_int a, nat_of_int b) :: pairs_of r | _ -> []
let split2 (line : string) : string * string =
  match String.index_opt line ';' with
  | Some i -> (String.sub line 0 i, String.sub line (i + 1) (String.length line - i - 1))
  | None -> (line, "")
let diag_line (line : string) : string =
  (* D<fixed> <plen> ; <code points> *)
  let fixed = String.length line > 1 && line.[1] = '1' in
  let (a, t) = split2 line in
  let plen = match split_ws a with _ :: p :: _ -> int_of_string p | _ -> 0 in
  let text = List.map n_of_int (ints_of t) in
  match diag_case fixed (nat_of_int plen) text with
  | Panic | OutOfFuel -> "FEEDPANIC"
  | Done (us, fs) ->
    let b = Buffer.create 256 in
    let len = List.fold_left (fun acc cp -> let bb = Buffer.create 4 in utf8 bb (int_of_n cp); acc + Buffer.length bb) 0 text in
    Buffer.add_string b (Printf.sprintf "N %d" len);
    List.iter (fun ((s, e), o) ->
      Buffer.add_string b (match o with
        | Done rows -> Printf.sprintf " | U %d %d x%s" (int_of_nat s) (int_of_nat e) (hex_of (render_rows plen rows "msg"))
        | _ -> Printf.sprintf " | U %d %d P" (int_of_nat s) (int_of_nat e))) us;
    List.iter (fun (off, o) ->
      Buffer.add_string b (match o with
        | Done (l, c) -> Printf.sprintf " | F %d x%s" (int_of_nat off) (hex_of (Printf.sprintf "m at f:%d:%d" (int_of_nat l) (int_of_nat c)))
        | _ -> Printf.sprintf " | F %d P" (int_of_nat off))) fs;
    Buffer.contents b
let spanned_line (line : string) : string =
  (* G<fixed><checked> <code points> ; s1 e1 s2 e2 ... *)
  let fixed = String.length line > 1 && line.[1] = '1' in
  let checked = String.length line > 2 && line.[2] = '1' in
  let (a, t) = split2 line in
  let text = match split_ws a with _ :: cps -> List.map (fun x -> n_of_int (int_of_string x)) cps | [] -> [] in
  match spanned_case fixed checked text (pairs_of (ints_of t)) with
  | Done blocks ->
    let b = Buffer.create 256 in
    List.iteri (fun i (dots, rows) ->
      if i > 0 then Buffer.add_char b '\n';
      Buffer.add_string b (render_rows (if dots then 3 else 0) rows
                             (if i = 0 then "msg" else ordinal (i + 1) ^ " occurrence"))) blocks;
    "W 0 x" ^ hex_of (Buffer.contents b)
  | _ -> "W 0 P"

let show_on f = function Some x -> f x | None -> "-"
let on_line_line (line : string) : string =
  (* O <code points> ; s1 e1 s2 e2 ... : the two lines underline_spans_on_line_with_text prints,
     without the message *)
  let (a, t) = split2 line in
  let text = match split_ws a with _ :: cps -> List.map (fun x -> n_of_int (int_of_string x)) cps | [] -> [] in
  match on_line_case text (pairs_of (ints_of t)) with
  | Done lr ->
    let b = Buffer.create 64 in
    Buffer.add_string b (string_of_int (int_of_nat lr.lr_num));
    Buffer.add_string b "| ";
    List.iter (fun cp -> utf8 b (int_of_n cp)) lr.lr_text;
    Buffer.add_char b '\n';
    Buffer.add_string b (String.make (int_of_nat (line_row_indent_cols corpus_width lr)) ' ');
    List.iter (fun seg ->
      let (u, g) = seg_cols corpus_width seg in
      Buffer.add_string b (String.make (int_of_nat u) '-');
      Buffer.add_string b (String.make (int_of_nat g) ' ')) lr.lr_segs;
    "O 0 x" ^ hex_of (Buffer.contents b)
  | _ -> "O 0 P"

(* E <code points>: what LexParseError::pp must print for an error whose span / lexeme is (a, b), for every
   boundary span a <= b of the text: the line and column of the span's START, i.e. byte_to_line_col
   (line_col_spec applied at a), whatever b is.  PE = lexing error, PR = the same handed back by the parser,
   PQ = parse error (no recovery, hence no repair sequences) at a lexeme of span (a, b). *)
let errpp_line (line : string) : string =
  let text = List.map n_of_int (ints_of (String.sub line 1 (String.length line - 1))) in
  match run_case [text] with
  | Panic | OutOfFuel -> "FEEDPANIC"
  | Done r ->
    let b = Buffer.create 256 in
    Buffer.add_string b (Printf.sprintf "N %d" (int_of_nat r.cr_len));
    let lc = List.map (fun (off, o) -> (int_of_nat off, o)) r.cr_line_cols in
    List.iter (fun ((s, e), _) ->
      let s = int_of_nat s and e = int_of_nat e in
      let at fmt = match List.assoc_opt s lc with
        | Some (Done (Some (l, c))) -> "x" ^ hex_of (Printf.sprintf fmt (int_of_nat l) (int_of_nat c))
        | _ -> "P" in
      Buffer.add_string b (Printf.sprintf " | PE %d %d %s" s e (at "Lexing error at line %d column %d."));
      Buffer.add_string b (Printf.sprintf " | PR %d %d %s" s e (at "Lexing error at line %d column %d."));
      Buffer.add_string b (Printf.sprintf " | PQ %d %d %s" s e (at "Parsing error at line %d column %d. No repair sequences found."))) r.cr_spans;
    Buffer.contents b

(* X <code points> ; s1 e1 s2 e2 ... : for each listed span, what underline_span_with_text(span, "", '^')
   prints (rows, then a blank and the empty message) and the "line:col" file_location_msg prints for its
   start (the spans format_conflicts takes from the grammar: rule_name_span, token_span, prod_span) *)
let spans_line (line : string) : string =
  let (a, t) = split2 line in
  let text = match split_ws a with _ :: cps -> List.map (fun x -> n_of_int (int_of_string x)) cps | [] -> [] in
  match diag_spans_case text (pairs_of (ints_of t)) with
  | Panic | OutOfFuel -> "FEEDPANIC"
  | Done rs ->
    let b = Buffer.create 256 in
    Buffer.add_string b "X";
    List.iter (fun (((s, e), rows), fl) ->
      Buffer.add_string b (match rows with
        | Done rows -> Printf.sprintf " | U %d %d x%s" (int_of_nat s) (int_of_nat e) (hex_of (render_rows 0 rows ""))
        | _ -> Printf.sprintf " | U %d %d P" (int_of_nat s) (int_of_nat e));
      Buffer.add_string b (match fl with
        | Done (l, c) -> Printf.sprintf " | F %d %d:%d" (int_of_nat s) (int_of_nat l) (int_of_nat c)
        | _ -> Printf.sprintf " | F %d P" (int_of_nat s))) rs;
    Buffer.contents b

(* P<checked> <code points> ; <fed code points> ; s1 e1 ... : per span "s e l c l1 c1 l2 c2" = the (line, col)
   LexParseError::pp prints and the two pairs NonStreamingLexer::line_col returns, for a lexer built by
   LRNonStreamingLexer::new(text, _, cache of the fed text); "s e P" = panic *)
let lexer_line (line : string) : string =
  let checked = String.length line > 1 && line.[1] = '1' in
  let (a, r) = split2 line in
  let (f, t) = split2 r in
  let text = match split_ws a with _ :: cps -> List.map (fun x -> n_of_int (int_of_string x)) cps | [] -> [] in
  let fed = List.map n_of_int (ints_of f) in
  match lexer_case checked fed text (pairs_of (ints_of t)) with
  | Panic | OutOfFuel -> "FEEDPANIC"
  | Done rs ->
    let b = Buffer.create 256 in
    Buffer.add_string b "P";
    List.iter (fun (((s, e), o), o2) ->
      Buffer.add_string b (match o, o2 with
        | Done (l, c), Done ((l1, c1), (l2, c2)) ->
          Printf.sprintf " | %d %d %d %d %d %d %d %d" (int_of_nat s) (int_of_nat e) (int_of_nat l) (int_of_nat c)
            (int_of_nat l1) (int_of_nat c1) (int_of_nat l2) (int_of_nat c2)
        | _ -> Printf.sprintf " | %d %d P" (int_of_nat s) (int_of_nat e))) rs;
    Buffer.contents b

let () =
  iter_lines (fun line ->
    if String.length line > 0 && line.[0] = 'X' then spans_line line else
    if String.length line > 0 && line.[0] = 'P' then lexer_line line else
    if String.length line > 0 && line.[0] = 'E' then errpp_line line else
    if String.length line > 0 && line.[0] = 'O' then on_line_line line else
    if String.length line > 0 && line.[0] = 'D' then diag_line line else
    if String.length line > 0 && line.[0] = 'G' then spanned_line line else
    let line = if String.length line > 0 && line.[0] = 'T' then String.sub line 1 (String.length line - 1) else line in
    let chunks = List.map (fun c -> List.map n_of_int (ints_of c)) (String.split_on_char ';' line) in
    match run_case chunks with
    | Panic | OutOfFuel -> "FEEDPANIC"
    | Done r ->
      let b = Buffer.create 256 in
      Buffer.add_string b (Printf.sprintf "N %d" (int_of_nat r.cr_len));
      List.iter (fun (off, o) ->
        Buffer.add_string b (match o with
          | Done (Some l) -> Printf.sprintf " | B %d %d" (int_of_nat off) (int_of_nat l)
          | Done None -> Printf.sprintf " | B %d -" (int_of_nat off)
          | _ -> Printf.sprintf " | B %d P" (int_of_nat off))) r.cr_line_nums;
      List.iter (fun (off, o) ->
        Buffer.add_string b (match o with
          | Done (Some l) -> Printf.sprintf " | Y %d %d" (int_of_nat off) (int_of_nat l)
          | Done None -> Printf.sprintf " | Y %d -" (int_of_nat off)
          | _ -> Printf.sprintf " | Y %d P" (int_of_nat off))) r.cr_line_bytes;
      List.iter (fun (off, o) ->
        Buffer.add_string b (match o with
          | Done (Some (l, c)) -> Printf.sprintf " | L %d %d %d" (int_of_nat off) (int_of_nat l) (int_of_nat c)
          | Done None -> Printf.sprintf " | L %d - -" (int_of_nat off)
          | _ -> Printf.sprintf " | L %d P P" (int_of_nat off))) r.cr_line_cols;
      List.iter (fun ((s, e), o) ->
        Buffer.add_string b (match o with
          | Done (st, en) -> Printf.sprintf " | S %d %d %d %d" (int_of_nat s) (int_of_nat e) (int_of_nat st) (int_of_nat en)
          | _ -> Printf.sprintf " | S %d %d P" (int_of_nat s) (int_of_nat e))) r.cr_spans;
      Buffer.contents b)
