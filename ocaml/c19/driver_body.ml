let show_on f = function Some x -> f x | None -> "-"
let () =
  iter_lines (fun line ->
    let line = if String.length line > 0 && line.[0] = 'T' then String.sub line 1 (String.length line - 1) else line in
    let chunks = List.map (fun c -> List.map n_of_int (ints_of c)) (String.split_on_char ';' line) in
    match run_case chunks with
    | Panic | OutOfFuel -> "FEEDPANIC"
    | Done r ->
      let b = Buffer.create 256 in
      Buffer.add_string b (Printf.sprintf "N %d" (int_of_nat r.cr_len));
      List.iter (fun (off, o) ->
        Buffer.add_string b (match o with
          | Done (Some l) -> Printf.sprintf " | B %d %d" (int_of_nat off) (int_of_nat l)
          | Done None -> Printf.sprintf " | B %d -" (int_of_nat off)
          | _ -> Printf.sprintf " | B %d P" (int_of_nat off))) r.cr_line_nums;
      List.iter (fun (off, o) ->
        Buffer.add_string b (match o with
          | Done (Some l) -> Printf.sprintf " | Y %d %d" (int_of_nat off) (int_of_nat l)
          | Done None -> Printf.sprintf " | Y %d -" (int_of_nat off)
          | _ -> Printf.sprintf " | Y %d P" (int_of_nat off))) r.cr_line_bytes;
      List.iter (fun (off, o) ->
        Buffer.add_string b (match o with
          | Done (Some (l, c)) -> Printf.sprintf " | L %d %d %d" (int_of_nat off) (int_of_nat l) (int_of_nat c)
          | Done None -> Printf.sprintf " | L %d - -" (int_of_nat off)
          | _ -> Printf.sprintf " | L %d P P" (int_of_nat off))) r.cr_line_cols;
      List.iter (fun ((s, e), o) ->
        Buffer.add_string b (match o with
          | Done (st, en) -> Printf.sprintf " | S %d %d %d %d" (int_of_nat s) (int_of_nat e) (int_of_nat st) (int_of_nat en)
          | _ -> Printf.sprintf " | S %d %d P" (int_of_nat s) (int_of_nat e))) r.cr_spans;
      Buffer.contents b)
