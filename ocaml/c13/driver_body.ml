(* C13 driver: one case per line.
   subst <extra cps|-> <text cps|->            -> OK <cps|-> | ERR <byteoff> | PANIC | FUEL
   flags <12 header fields>                    -> <12 regen fields> | <12 fill fields>
   qflags <12 quoted fields, generated order>  -> <12 fields>
   eval <inputhex|-> <par> <prods> <tpl> <log> <resultid>  -> VAL <hex> | PANIC <i>
   (field orders and formats: checks/C13.py, harness/src/bin/c13.rs) *)
let cps_of s = if s = "-" then [] else List.map (fun x -> n_of_int (int_of_string x)) (String.split_on_char ',' s)
let cps_to l = if l = [] then "-" else String.concat "," (List.map (fun c -> string_of_int (int_of_n c)) l)
let unhex s =
  if s = "-" then "" else
  String.init (String.length s / 2) (fun i -> Char.chr (int_of_string ("0x" ^ String.sub s (2 * i) 2)))
let hex s = String.concat "" (List.map (fun c -> Printf.sprintf "%02x" (Char.code c)) (List.of_seq (String.to_seq s)))

let ob = function "-" -> None | "0" -> Some false | "1" -> Some true | _ -> failwith "bool field"
let on = function "-" -> None | s -> Some (n_of_int (int_of_string s))
let sb = function None -> "-" | Some false -> "0" | Some true -> "1"
let sn = function None -> "-" | Some n -> string_of_int (int_of_n n)
let qb = function "-" -> QNone | "0" -> QSome false | "1" -> QSome true | _ -> failwith "qbool"
let qn = function "-" -> QNone | s -> QSome (n_of_int (int_of_string s))

let show_flags f =
  String.concat " " [sb f.dot_matches_new_line; sb f.multi_line; sb f.octal; sb f.posix_escapes;
                     sb f.allow_wholeline_comments; sb f.case_insensitive; sb f.swap_greed;
                     sb f.ignore_whitespace; sb f.unicode; sn f.size_limit; sn f.dfa_size_limit; sn f.nest_limit]

let split_nonempty c s = List.filter (fun x -> x <> "") (String.split_on_char c s)

(* ---- eval: the value of a parse from its reduction log ---- *)
type item = IArg of string | ISpan | ISpanStr | IDollar | IParam

let parse_tpl s =
  let h = Hashtbl.create 16 in
  if s <> "-" then
    List.iter (fun ent ->
      let i = String.index ent '=' in
      let p = int_of_string (String.sub ent 0 i) in
      let rest = String.sub ent (i + 1) (String.length ent - i - 1) in
      let j = String.index rest ':' in
      let lab = unhex (String.sub rest 0 j) in
      let items = split_nonempty ',' (String.sub rest (j + 1) (String.length rest - j - 1)) in
      let items = List.map (fun it -> match it.[0] with
        | 'A' -> IArg (String.sub it 1 (String.length it - 1))
        | 'S' -> ISpan | 'X' -> ISpanStr | 'D' -> IDollar | 'P' -> IParam
        | _ -> failwith "item") items in
      Hashtbl.replace h p (lab, items)) (split_nonempty ';' s);
  h

let parse_prods s =
  Array.of_list (List.map (fun p ->
    if p = "e" then [] else
    List.map (fun x -> let k = int_of_string x in
                       if k land 1 = 0 then Tok (nat_of_int (k / 2)) else Rule (nat_of_int (k / 2)))
      (String.split_on_char ',' p)) (String.split_on_char ';' s))

let parse_elem e : nat astack =
  match e.[0] with
  | 'L' -> (match String.split_on_char '.' (String.sub e 1 (String.length e - 1)) with
            | [t; st; ln; f] -> ALexeme { lx_tok = nat_of_int (int_of_string t); lx_start = nat_of_int (int_of_string st);
                                          lx_len = nat_of_int (int_of_string ln); lx_faulty = (f = "1") }
            | _ -> failwith "lexeme elem")
  | 'V' -> (match String.split_on_char '.' (String.sub e 1 (String.length e - 1)) with
            | [r; id] -> AAction (nat_of_int (int_of_string r), nat_of_int (int_of_string id))
            | _ -> failwith "value elem")
  | _ -> failwith "elem"

let eval_case input par prods tpl log resid =
  let vals : (int, string) Hashtbl.t = Hashtbl.create 64 in
  let substr st ln = if st + ln <= String.length input then String.sub input st ln else "<OUTOFRANGE>" in
  let lexstr l = Printf.sprintf "%d@%d+%d" (int_of_nat l.lx_tok) (int_of_nat l.lx_start) (int_of_nat l.lx_len) in
  let failed = ref None in
  List.iteri (fun i ent ->
    if !failed = None then begin
      let c = String.index ent ':' in
      let head = String.sub ent 0 c in
      let body = String.sub ent (c + 1) (String.length ent - c - 1) in
      let a = String.index head '@' in
      let pidx = int_of_string (String.sub head 0 a) in
      let sp = String.sub head (a + 1) (String.length head - a - 1) in
      let d = String.index sp '-' in
      let s0 = int_of_string (String.sub sp 0 d) and s1 = int_of_string (String.sub sp (d + 1) (String.length sp - d - 1)) in
      let drain = List.map parse_elem (split_nonempty ',' body) in
      match run_unpack prods.(pidx) drain with
      | Done args ->
          let args = Array.of_list args in
          let n = Array.length args in
          let render_arg = function
            | ArgOk l -> Printf.sprintf "Ok(%s'%s')" (lexstr l) (substr (int_of_nat l.lx_start) (int_of_nat l.lx_len))
            | ArgErr l -> Printf.sprintf "Err(%s)" (lexstr l)
            | ArgVal id -> (try Hashtbl.find vals (int_of_nat id) with Not_found -> "<NOVALUE>") in
          let v = (match Hashtbl.find_opt tpl pidx with
            | None -> if n > 0 then render_arg args.(0) else ""
            | Some (lab, items) ->
                let its = List.map (function
                  | IArg ds ->
                      (match run_arg_index (nat_of_int n) (List.map (fun ch -> n_of_int (Char.code ch)) (List.of_seq (String.to_seq ds))) with
                       | Some k -> render_arg args.(int_of_nat k)
                       | None -> "<UNBOUND>")
                  | ISpan -> Printf.sprintf "%d..%d" s0 s1
                  | ISpanStr -> Printf.sprintf "[%s]" (substr s0 (s1 - s0))
                  | IDollar -> "$"
                  | IParam -> par) items in
                Printf.sprintf "%s(%s)" lab (String.concat "," its)) in
          Hashtbl.replace vals i v
      | _ -> failed := Some i
    end) (split_nonempty ';' log);
  match !failed with
  | Some i -> Printf.sprintf "PANIC %d" i
  | None -> (match Hashtbl.find_opt vals resid with Some v -> "VAL " ^ hex v | None -> "VAL -")

let () =
  iter_lines (fun line ->
    match split_ws line with
    | ["subst"; extra; text] ->
        (match run_subst (cps_of extra) (cps_of text) with
         | Done (SubstOk o) -> "OK " ^ cps_to o
         | Done (SubstErr n) -> Printf.sprintf "ERR %d" (int_of_nat n)
         | Panic -> "PANIC" | OutOfFuel -> "FUEL")
    | ["flags"; a; b; c; d; e; f; g; h; i; j; k; l] ->
        let hh = { dot_matches_new_line = ob a; multi_line = ob b; octal = ob c; posix_escapes = ob d;
                   allow_wholeline_comments = ob e; case_insensitive = ob f; swap_greed = ob g;
                   ignore_whitespace = ob h; unicode = ob i; size_limit = on j; dfa_size_limit = on k; nest_limit = on l } in
        show_flags (run_regen hh) ^ " | " ^ show_flags (run_fill hh)
    | ["qflags"; a; b; c; d; e; f; g; h; i; j; k; l] ->
        let q = { q_allow_wholeline_comments = qb a; q_dot_matches_new_line = qb b; q_multi_line = qb c; q_octal = qb d;
                  q_posix_escapes = qb e; q_case_insensitive = qb f; q_unicode = qb g; q_swap_greed = qb h;
                  q_ignore_whitespace = qb i; q_size_limit = qn j; q_dfa_size_limit = qn k; q_nest_limit = qn l } in
        show_flags (run_quoted q)
    | ["eval"; input; par; prods; tpl; log; resid] ->
        (try eval_case (unhex input) par (parse_prods prods) (parse_tpl tpl) (if log = "-" then "" else log) (int_of_string resid)
         with e -> "DRIVERERR " ^ Printexc.to_string e)
    | _ -> "BADLINE")
