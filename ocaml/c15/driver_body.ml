(* C15 driver: evaluates the extracted mirrors under several iteration orders.
   case lines (sections separated by '|', lists by ';', items by ' '):
     E <nprods> <rs> <ntokens> | <tidx>*                       implicit-token rewrite
     A <ntok> | <tidx>*                                        avoid_insert bits
     G <start> | <sym:tgt>* ; … (one list per state) | <sched> ; <sched> ; …
     P | <known key>* | <key:start:end>* ; <key:start:end>* ; …      `%epp` validation loop, one entry list per iteration order
     T | <t:level:kind>* | <p:level:kind>* | <cell>* | <goto>* | <0/1>* | <sym:tgt>* ; <sym:tgt>* ; …
   one result line per case. *)
let ints s = List.map int_of_string (split_ws s)
let nats s = List.map nat_of_int (ints s)
let sects c s = List.map String.trim (String.split_on_char c s)
let show_nats l = String.concat "." (List.map (fun x -> string_of_int (int_of_nat x)) l)
let show_prods ps =
  String.concat "," (List.map (fun (r, syms) -> Printf.sprintf "%d:%s" (int_of_nat r) (show_nats syms)) ps)
let show_eco e =
  Printf.sprintf "%s ip=%s sp=%d isp=%d" (show_prods e.eo_prods) (show_nats e.eo_implicit_prods)
    (int_of_nat e.eo_start_prod) (int_of_nat e.eo_implicit_start_prod)
let all_same l = match l with [] -> true | x :: xs -> List.for_all (fun y -> y = x) xs
let pairs s = List.map (fun it -> match String.split_on_char ':' it with
    | [a; b] -> (nat_of_int (int_of_string a), nat_of_int (int_of_string b))
    | _ -> failwith "pair") (split_ws s)
let triples s = List.map (fun it -> match String.split_on_char ':' it with
    | [a; b; c] -> (nat_of_int (int_of_string a), (nat_of_int (int_of_string b), nat_of_int (int_of_string c)))
    | _ -> failwith "triple") (split_ws s)
let show_pairs l = String.concat " " (List.map (fun (a, b) -> Printf.sprintf "%d:%d" (int_of_nat a) (int_of_nat b)) l)
let show_cell = function CErr -> "E" | CShift s -> "S" ^ string_of_int (int_of_nat s)
  | CReduce p -> "R" ^ string_of_int (int_of_nat p) | CAccept -> "A"
let parse_cell s = match s.[0] with
  | 'E' -> CErr | 'A' -> CAccept
  | 'S' -> CShift (nat_of_int (int_of_string (String.sub s 1 (String.length s - 1))))
  | 'R' -> CReduce (nat_of_int (int_of_string (String.sub s 1 (String.length s - 1))))
  | _ -> failwith "cell"
let show_row r =
  Printf.sprintf "%s / %s / %s / %s" (String.concat " " (List.map show_cell r.r_actions))
    (show_nats r.r_gotos) (String.concat "" (List.map (fun b -> if b then "1" else "0") r.r_sa))
    (show_pairs r.r_conflicts)
let show_out f = function Done x -> f x | Panic -> "PANIC" | OutOfFuel -> "FUEL"

let () =
  iter_lines (fun line ->
    match sects '|' line with
    | hd :: rest when String.length hd > 0 && hd.[0] = 'E' ->
      (match ints (String.sub hd 1 (String.length hd - 1)), rest with
       | [np; rs; nt], [o] ->
         let o = nats o in
         let res = run_eco (nat_of_int np) (nat_of_int rs) o in
         let fixed = run_eco_fixed (nat_of_int np) (nat_of_int rs) (nat_of_int nt) o in
         let b = Buffer.create 256 in
         Buffer.add_string b (Printf.sprintf "E %d" (List.length res));
         List.iter (fun (p, e) -> Buffer.add_string b (Printf.sprintf " # O %s = %s" (show_nats p) (show_eco e))) res;
         (match fixed with
          | f :: _ -> Buffer.add_string b (Printf.sprintf " # FIX %s allsame=%d" (show_eco f) (if all_same fixed then 1 else 0))
          | [] -> ());
         Buffer.contents b
       | _ -> "BADCASE")
    | hd :: [o] when String.length hd > 0 && hd.[0] = 'A' ->
      (match ints (String.sub hd 1 (String.length hd - 1)) with
       | [nt] ->
         let res = run_avoid (nat_of_int nt) (nats o) in
         let sh = show_out (fun v -> String.concat "" (List.map (fun b -> if b then "1" else "0") v)) in
         (match res with
          | r :: _ -> Printf.sprintf "A %s n=%d allsame=%d" (sh r) (List.length res) (if all_same res then 1 else 0)
          | [] -> "A none")
       | _ -> "BADCASE")
    | hd :: [edges; scheds] when String.length hd > 0 && hd.[0] = 'G' ->
      (match ints (String.sub hd 1 (String.length hd - 1)) with
       | [start] ->
         let edges = List.map pairs (sects ';' edges) in
         let scheds = List.map nats (sects ';' scheds) in
         let res = run_gc edges (nat_of_int start) scheds in
         let b = Buffer.create 256 in
         Buffer.add_string b "G";
         List.iter (fun (w, g) ->
           Buffer.add_string b (Printf.sprintf " # W %s => %s" (show_out show_nats w)
             (show_out (fun (kept, es) -> Printf.sprintf "%s / %s" (show_nats kept)
                 (String.concat " ; " (List.map show_pairs es))) g))) res;
         Buffer.add_string b (Printf.sprintf " # allsame=%d walks_differ=%d"
           (if all_same (List.map snd res) then 1 else 0) (if all_same (List.map fst res) then 0 else 1));
         Buffer.contents b
       | _ -> "BADCASE")
    | hd :: [tp; pp; cells; gotos; sa; orders] when String.length hd > 0 && hd.[0] = 'T' ->
      let init = { r_actions = List.map parse_cell (split_ws cells); r_gotos = nats gotos;
                   r_sa = List.map (fun x -> x <> 0) (ints sa); r_conflicts = [] } in
      let orders = List.map pairs (sects ';' orders) in
      let res = run_row (triples tp) (triples pp) init orders in
      let b = Buffer.create 256 in
      Buffer.add_string b "T";
      List.iter (fun (r, rf) ->
        Buffer.add_string b (Printf.sprintf " # R %s # RF %s" (show_out show_row r) (show_out show_row rf))) res;
      Buffer.add_string b (Printf.sprintf " # fixed_allsame=%d raw_allsame=%d"
        (if all_same (List.map snd res) then 1 else 0) (if all_same (List.map fst res) then 1 else 0));
      Buffer.contents b
    | hd :: [known; orders] when String.length hd > 0 && hd.[0] = 'P' ->
      let orders = List.map triples (sects ';' orders) in
      let res = run_epp (nats known) orders in
      let sh = function
        | None -> "none"
        | Some (k, (a, b)) -> Printf.sprintf "%d:%d:%d" (int_of_nat k) (int_of_nat a) (int_of_nat b) in
      let b = Buffer.create 256 in
      Buffer.add_string b "P";
      List.iter (fun (m, f) -> Buffer.add_string b (Printf.sprintf " # M %s F %s" (sh m) (sh f))) res;
      Buffer.add_string b (Printf.sprintf " # min_allsame=%d first_allsame=%d"
        (if all_same (List.map fst res) then 1 else 0) (if all_same (List.map snd res) then 1 else 0));
      Buffer.contents b
    | _ -> "BADCASE")
