(* C09 driver.  One case per line, as printed by harness/src/bin/c09.rs with
   the implementation's answer cut off:
     RULES r;r;… # STATES id:excl,… # N n # BD b… # MT row;row;…      -> `LEX items # GHOST steps=… ops=… depth=… stop=…`
     RULES r;r;… # MAP hexname:id,…                                    -> `OUT toks ; missing_from_lexer ; missing_from_parser`
   Rule names are interned (first occurrence order over rules, then map keys). *)
let sections (line : string) : (string * string) list =
  List.map (fun s ->
      let s = String.trim s in
      match String.index_opt s ' ' with
      | None -> (s, "")
      | Some i -> (String.sub s 0 i, String.trim (String.sub s (i + 1) (String.length s - i - 1))))
    (String.split_on_char '#' line)

let names : (string, int) Hashtbl.t = Hashtbl.create 16
let rev_names : (int, string) Hashtbl.t = Hashtbl.create 16
let intern (h : string) : int =
  match Hashtbl.find_opt names h with
  | Some i -> i
  | None ->
      let i = Hashtbl.length names in
      Hashtbl.add names h i; Hashtbl.add rev_names i h; i

let parse_target (s : string) =
  let id () = nat_of_int (int_of_string (String.sub s 1 (String.length s - 1))) in
  match s.[0] with
  | 'N' -> None
  | 'P' -> Some (id (), Push)
  | 'O' -> Some (id (), Pop)
  | 'R' -> Some (id (), ReplaceStack)
  | _ -> failwith "target"

let parse_rules (s : string) : rule list =
  if s = "-" then [] else
  List.map (fun r ->
      match String.split_on_char ',' r with
      | [name; tok; ss; tgt] ->
          { r_name = (if name = "-" then None else Some (nat_of_int (intern name)));
            r_tok = (if tok = "-" then None else Some (nat_of_int (int_of_string tok)));
            r_states = (if ss = "-" then [] else
                          List.map (fun x -> nat_of_int (int_of_string x)) (String.split_on_char '.' ss));
            r_target = parse_target tgt }
      | _ -> failwith "rule")
    (String.split_on_char ';' s)

let parse_states (s : string) : sstate list =
  if s = "-" then [] else
  List.map (fun x ->
      match String.split_on_char ':' x with
      | [id; ex] -> { ss_id = nat_of_int (int_of_string id); ss_excl = (ex = "1") }
      | _ -> failwith "state")
    (String.split_on_char ',' s)

let parse_table (s : string) : (nat * nat) list list =
  if s = "-" then [] else
  List.map (fun row ->
      if row = "-" then [] else
      List.map (fun c ->
          match String.split_on_char ':' c with
          | [p; l] -> (nat_of_int (int_of_string p), nat_of_int (int_of_string l))
          | _ -> failwith "cell")
        (split_ws row))
    (String.split_on_char ';' s)

let show_item = function
  | Lexeme (t, s, l) -> Printf.sprintf "L %d %d %d" (int_of_nat t) (int_of_nat s) (int_of_nat l)
  | LexErr (p, None) -> Printf.sprintf "E %d -" (int_of_nat p)
  | LexErr (p, Some st) -> Printf.sprintf "E %d %d" (int_of_nat p) (int_of_nat st)

let show_stop = function
  | StopEnd _ -> "end" | StopNoMatch _ -> "nomatch" | StopNoTokId _ -> "notokid"
  | StopNoTarget _ -> "notarget" | StopPopEmpty _ -> "popempty"
  | StopEmptyStack _ -> "emptystack" | StopNoInitial -> "noinitial"

let depth (st : stack) = List.fold_left (fun a (c, _) -> a + int_of_nat c) 0 st

let lex_case secs =
  let get k = try List.assoc k secs with Not_found -> failwith ("missing " ^ k) in
  let rules = parse_rules (get "RULES") in
  let sts = parse_states (get "STATES") in
  let n = nat_of_int (int_of_string (get "N")) in
  let bds = List.map nat_of_int (ints_of (get "BD")) in
  let tbl = parse_table (get "MT") in
  match run_lex rules sts tbl bds n with
  | Panic -> "LEX PANIC"
  | OutOfFuel -> "LEX FUEL"
  | Done r ->
      let items = List.map show_item r.items in
      let stacks = List.map (fun s -> s.st_stack) r.steps in
      let rec changes = function
        | a :: (b :: _ as tl) -> (if a <> b then 1 else 0) + changes tl
        | _ -> 0 in
      let ops = List.length (List.filter (fun s ->
                    match nth_error rules s.st_rule with
                    | Some rl -> rl.r_target <> None
                    | None -> false) r.steps) in
      Printf.sprintf "LEX %s # GHOST steps=%d ops=%d changes=%d depth=%d stop=%s"
        (if items = [] then "-" else String.concat "," items)
        (List.length r.steps) ops (changes stacks)
        (List.fold_left (fun a st -> max a (depth st)) 0 stacks) (show_stop r.stopped)

let show_set = function
  | None -> "NONE"
  | Some l ->
      let l = List.sort compare (List.map (fun k -> Hashtbl.find rev_names (int_of_nat k)) l) in
      (* a HashSet: duplicates collapse *)
      let l = List.sort_uniq compare l in
      if l = [] then "EMPTY" else String.concat "," l

let ids_case secs =
  let get k = try List.assoc k secs with Not_found -> failwith ("missing " ^ k) in
  let rules = parse_rules (get "RULES") in
  let mp = let s = get "MAP" in
    if s = "-" then [] else
    List.map (fun kv ->
        match String.split_on_char ':' kv with
        | [k; v] -> (nat_of_int (intern k), nat_of_int (int_of_string v))
        | _ -> failwith "map")
      (String.split_on_char ',' s) in
  match run_ids mp rules with
  | Panic -> "OUT PANIC"
  | OutOfFuel -> "OUT FUEL"
  | Done ((rs, mfl), mfp) ->
      let toks = List.map (fun r -> match r.r_tok with Some t -> string_of_int (int_of_nat t) | None -> "-") rs in
      Printf.sprintf "OUT %s ; %s ; %s" (if toks = [] then "-" else String.concat " " toks)
        (show_set mfl) (show_set mfp)

let () =
  iter_lines (fun line ->
    Hashtbl.reset names; Hashtbl.reset rev_names;
    try
      let secs = sections line in
      if List.mem_assoc "MAP" secs then ids_case secs
      else if List.mem_assoc "MT" secs then lex_case secs
      else "SKIP"
    with Failure m -> "BADCASE " ^ m)
