let () = ()
