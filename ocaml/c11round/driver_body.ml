(* C11 round trip: runs the extracted printer [print_spec], the denotation [spec_of] and the
   hypotheses [wf_aspec] / [wf_layout] of the theorem lex_roundtrip (C11/Print.v, RoundSpec.v)
   on a description of (awc, pe, iw, sp, lay); also evaluates the theorem's left-hand side, the
   extracted mirror [lex_from_str repaired] on the printed text.

   case line (tokens separated by blanks; <text> = x<hex of the UTF-8 bytes>, x alone = empty;
   <cp> = decimal code point):
     <awc:0|1> <pe:0|1> <iw:0|1> <nstates> {<text name> <excl:0|1>}*  <nrules> rule*  layout
     rule   := <npre> <text>*npre  <text regex as written>  (- | <text name>)  (- | (R|+|~) <text state>)      (~ = pop)
     layout := <n> ditem*n  <ndlines> dline*  <text blanks after %%>  <n> ritem*n  <nrlines> rline*  final
     ditem  := w <cp> | c <text body> <cp>
     ritem  := n <cp> | c <text body> <cp>
     dline  := <upper:0|1> <text kw> <text gap> <nseps> <text blanks>*nseps <text trail> <cp nl> <n> ditem*n
     rline  := <npads> {<text> <text>}*npads <text blanks> <cp sp> (s|d) (;|d|s) <text trail> <n> ritem*n
     final  := e | ec <text body> | cl <text ws>

   result line:
     <wf_aspec:0|1> <wf_layout:0|1> x<hex of (print_spec lay sp)> # <transcript of (spec_of pe iw lay sp)>
       # <transcript of (lex_from_str repaired (print_spec lay sp) 0 awc pe iw [])>
   transcripts in the format of the OK / ERRS section of harness/src/bin/c11.rs. *)
exception Bad of string

let unhex (s : string) : int list =
  let n = String.length s / 2 in
  let b = Array.init n (fun i -> int_of_string ("0x" ^ String.sub s (2 * i) 2)) in
  let rec go i acc =
    if i >= n then List.rev acc
    else
      let c = b.(i) in
      if c < 0x80 then go (i + 1) (c :: acc)
      else if c < 0xE0 then go (i + 2) ((((c land 0x1F) lsl 6) lor (b.(i + 1) land 0x3F)) :: acc)
      else if c < 0xF0 then
        go (i + 3) ((((c land 0x0F) lsl 12) lor ((b.(i + 1) land 0x3F) lsl 6) lor (b.(i + 2) land 0x3F)) :: acc)
      else
        go (i + 4)
          ((((c land 0x07) lsl 18) lor ((b.(i + 1) land 0x3F) lsl 12) lor ((b.(i + 2) land 0x3F) lsl 6)
            lor (b.(i + 3) land 0x3F)) :: acc)
  in
  go 0 []

let hex_of_text (s : n list) : string =
  let b = Buffer.create 16 in
  let byte x = Buffer.add_string b (Printf.sprintf "%02x" x) in
  List.iter (fun c ->
    let c = int_of_n c in
    if c < 0x80 then byte c
    else if c < 0x800 then (byte (0xC0 lor (c lsr 6)); byte (0x80 lor (c land 0x3F)))
    else if c < 0x10000 then
      (byte (0xE0 lor (c lsr 12)); byte (0x80 lor ((c lsr 6) land 0x3F)); byte (0x80 lor (c land 0x3F)))
    else
      (byte (0xF0 lor (c lsr 18)); byte (0x80 lor ((c lsr 12) land 0x3F));
       byte (0x80 lor ((c lsr 6) land 0x3F)); byte (0x80 lor (c land 0x3F)))) s;
  Buffer.contents b

let text_of (s : string) : n list =
  if String.length s = 0 || s.[0] <> 'x' then raise (Bad ("text " ^ s));
  List.map n_of_int (unhex (String.sub s 1 (String.length s - 1)))

let op_code = function ReplaceStack -> "R" | Push -> "+" | Pop -> "-"

let kind_name = function
  | PrematureEnd -> "PrematureEnd" | RoutinesNotSupported -> "RoutinesNotSupported"
  | UnknownDeclaration -> "UnknownDeclaration" | MissingSpace -> "MissingSpace" | InvalidName -> "InvalidName"
  | UnknownStartState -> "UnknownStartState" | DuplicateStartState -> "DuplicateStartState"
  | InvalidStartState -> "InvalidStartState" | InvalidStartStateName -> "InvalidStartStateName"
  | DuplicateName -> "DuplicateName" | RegexError -> "RegexError" | VerbatimNotSupported -> "VerbatimNotSupported"

let show_state (st : pstate) : string =
  let b = Buffer.create 256 in
  Buffer.add_string b (Printf.sprintf "OK %d %d" (List.length st.rules) (List.length st.start_states));
  List.iter (fun r ->
    let (s, e) = r.r_name_span in
    Buffer.add_string b (Printf.sprintf " ; r %s %d %d x%s %s %s"
      (match r.r_name with Some n -> "x" ^ hex_of_text n | None -> "-")
      (int_of_nat s) (int_of_nat e) (hex_of_text r.r_re_str)
      (match r.r_start_states with [] -> "-" | l -> String.concat "," (List.map (fun x -> string_of_int (int_of_nat x)) l))
      (match r.r_target with Some (id, o) -> Printf.sprintf "%d:%s" (int_of_nat id) (op_code o) | None -> "-"))) st.rules;
  List.iter (fun s ->
    let (a, e) = s.ss_span in
    Buffer.add_string b (Printf.sprintf " ; s %d x%s %d %d %d" (int_of_nat s.ss_id) (hex_of_text s.ss_name)
      (if s.ss_exclusive then 1 else 0) (int_of_nat a) (int_of_nat e))) st.start_states;
  Buffer.contents b

let show_parsed = function
  | Panic -> "PANIC" | OutOfFuel -> "FUEL"
  | Done (POk st) -> show_state st
  | Done (PErrs errs) ->
    let b = Buffer.create 64 in
    Buffer.add_string b (Printf.sprintf "ERRS %d" (List.length errs));
    List.iter (fun e ->
      Buffer.add_string b (Printf.sprintf " ; X %s %d" (kind_name e.e_kind) (List.length e.e_spans));
      List.iter (fun (s, t) -> Buffer.add_string b (Printf.sprintf " %d %d" (int_of_nat s) (int_of_nat t))) e.e_spans) errs;
    Buffer.contents b

let decode (toks : string list) : bool * bool * bool * aspec * layout =
  let cur = ref toks in
  let next () = match !cur with [] -> raise (Bad "short") | t :: r -> cur := r; t in
  let num () = int_of_string (next ()) in
  let flag () = match next () with "0" -> false | "1" -> true | s -> raise (Bad ("flag " ^ s)) in
  let rec many k f = if k <= 0 then [] else let x = f () in x :: many (k - 1) f in
  let txt () = text_of (next ()) in
  let cp () = n_of_int (num ()) in
  let awc = flag () in
  let pe = flag () in
  let iw = flag () in
  let ns = num () in
  let states = many ns (fun () -> let n = txt () in let e = flag () in (n, e)) in
  let rule () =
    let np = num () in
    let pre = many np txt in
    let re = txt () in
    let name = (match next () with "-" -> None | s -> Some (text_of s)) in
    let target = (match next () with
      | "-" -> None
      | "R" -> let s = txt () in Some (s, ReplaceStack)
      | "+" -> let s = txt () in Some (s, Push)
      | "~" -> let s = txt () in Some (s, Pop)
      | s -> raise (Bad ("target " ^ s))) in
    { a_pre = pre; a_re = re; a_name = name; a_target = target } in
  let nr = num () in
  let rules = many nr rule in
  let ditem () = match next () with
    | "w" -> DWs (cp ())
    | "c" -> let b = txt () in let c = cp () in DComment (b, c)
    | s -> raise (Bad ("ditem " ^ s)) in
  let ritem () = match next () with
    | "n" -> RNl (cp ())
    | "c" -> let b = txt () in let c = cp () in RComment (b, c)
    | s -> raise (Bad ("ritem " ^ s)) in
  let items f = let k = num () in many k f in
  let dline () =
    let upper = flag () in
    let kw = txt () in
    let gap = txt () in
    let nsep = num () in
    let seps = many nsep txt in
    let trail = txt () in
    let nl = cp () in
    let after = items ditem in
    { dl_upper = upper; dl_kw = kw; dl_gap = gap; dl_seps = seps; dl_trail = trail; dl_nl = nl; dl_after = after } in
  let rline () =
    let np = num () in
    let pads = many np (fun () -> let l = txt () in let r = txt () in (l, r)) in
    let blanks = txt () in
    let sp = cp () in
    let q = (match next () with "s" -> QSq | "d" -> QDq | s -> raise (Bad ("quote " ^ s))) in
    let sk = (match next () with ";" -> SkSemi | "d" -> SkDq | "s" -> SkSq | s -> raise (Bad ("skip " ^ s))) in
    let trail = txt () in
    let after = items ritem in
    { rl_pads = pads; rl_blanks = blanks; rl_sp = sp; rl_quote = q; rl_skip = sk; rl_trail = trail; rl_after = after } in
  let pre = items ditem in
  let dlines = items dline in
  let sepb = txt () in
  let gap0 = items ritem in
  let rlines = items rline in
  let final = (match next () with
    | "e" -> FEof None
    | "ec" -> FEof (Some (txt ()))
    | "cl" -> FClose (txt ())
    | s -> raise (Bad ("final " ^ s))) in
  if !cur <> [] then raise (Bad "trailing");
  (awc, pe, iw, { a_states = states; a_rules = rules },
   { l_pre = pre; l_dlines = dlines; l_sep_blanks = sepb; l_gap0 = gap0; l_rlines = rlines; l_final = final })

let () =
  iter_lines (fun line ->
    match (try Ok (decode (split_ws line)) with Bad m -> Error m | Failure m -> Error m | Invalid_argument m -> Error m) with
    | Error m -> "BADCASE " ^ m
    | Ok (awc, pe, iw, sp, lay) ->
      let text = print_spec lay sp in
      Printf.sprintf "%d %d x%s # %s # %s"
        (if wf_aspec awc sp then 1 else 0) (if wf_layout awc lay sp then 1 else 0)
        (hex_of_text text) (show_state (spec_of pe iw lay sp))
        (show_parsed (lex_from_str repaired text O awc pe iw [])))
