(* C03 driver.
   default mode: one `lr` dump per line (optionally extended with ` # DL kind tidx…`
   declaration lines in order and ` # DP pidx tidx|-` %prec annotations) ->
     W wf= pc=  # SC st tok (S t|R p|A)  # SD st tok (S|R|E) reported  # SAR st tok  # SS st tok pidx  # SRC st tok pidx…
     # M ok|builderr|panic|nofinal  # MS st tok pidx  # MR st tok x y
     # ETP tok level kind  # EPP pidx (level kind|-)  # EDUP tok  # EPANIC pidx
     # YC st tok (S t|R p|A|E)   cell_yacc's entry, printed only where it differs from cell_spec's
     # YS st tok pidx            every shift/reduce pair cell_yacc reports
     # YR st tok x y             every reduce/reduce pair cell_yacc reports
     # Y3 st tok <yacc_agrees_b>   every three-way cell (shift + >= 2 reductions)
     # B3 st tok (S t|R p|A|E)   cell_bison's entry, printed for the cells on which cell_bison differs from cell_yacc
     #                           (only three-way cells: C03_cell_bison_eq_yacc_outside_three_way), followed by ALL its
     # BS st tok pidx / BR st tok x y   reported pairs for that cell
   mode `canon-ar`: grammar dump -> `AR <0|1> n=<canonical states>`
   mode `expect`: lines `<expect|-> <expectrr|-> <sr> <rr>` -> `spec=<0|1> mirror=<0|1>` *)
let assoc_of_int = function 0 -> ALeft | 1 -> ARight | _ -> ANonassoc
let int_of_assoc = function ALeft -> 0 | ARight -> 1 | ANonassoc -> 2
let prec_list l = List.map (fun (k, (lv, a)) -> (n_of_int k, { p_level = n_of_int lv; p_kind = assoc_of_int a })) (List.rev l)

let opt_nat s = if s = "-" then None else Some (nat_of_int (int_of_string s))

let expect_main () =
  iter_lines (fun line ->
    match split_ws line with
    | [e; err; sr; rr] ->
        let sr = nat_of_int (int_of_string sr) and rr = nat_of_int (int_of_string rr) in
        Printf.sprintf "spec=%s mirror=%s" (b2s (build_ok_spec (opt_nat e) (opt_nat err) sr rr))
          (b2s (build_ok_mirror (opt_nat e) (opt_nat err) sr rr))
    | _ -> "BAD")

let pp_act = function
  | Shift t -> Printf.sprintf "S %d" (int_of_n t)
  | Reduce p -> Printf.sprintf "R %d" (int_of_n p)
  | Accept -> "A"
  | Err -> "E"

let dump_main () =
  iter_lines (fun line ->
    if String.length line < 2 || String.sub line 0 2 <> "G " then "SKIP" else
    let d = parse_dump line in
    let g = grammar_of d in
    let b = Buffer.create 1024 in
    let tl = prec_list d.tprec and pl = prec_list d.pprec in
    let tp = precs_of tl and pp = precs_of pl in
    let closed = per_state d d.closed_t and edges = per_state d d.edges_t in
    let sts = List.map2 (fun (_, items) (_, es) -> (items, es)) closed edges in
    let wf = List.for_all (fun (items, es) -> wf_state_b g items es) sts in
    Buffer.add_string b (Printf.sprintf "W wf=%s pc=%s" (b2s wf) (b2s (prec_consistent_b tl pl)));
    let toks = List.init d.ntoks (fun a -> a) in
    List.iteri (fun s (items, es) ->
      List.iter (fun a ->
        let na = n_of_int a in
        (match cell_spec g tp pp items es na with
         | Err -> ()
         | c -> Buffer.add_string b (Printf.sprintf " # SC %d %d %s" s a (pp_act c)));
        (match assoc_sym (T na) es, winner g items na with
         | Some tgt, Some p when not (acc_cand g items na) ->
             let (c, rep) = decide tp pp na p tgt in
             Buffer.add_string b (Printf.sprintf " # SD %d %d %s %s" s a
               (match c with Shift _ -> "S" | Reduce _ -> "R" | Err -> "E" | Accept -> "A") (b2s rep))
         | _ -> ());
        (let ((ya, ys), yr) = cell_yacc g tp pp items es na in
         if ya <> cell_spec g tp pp items es na then
           Buffer.add_string b (Printf.sprintf " # YC %d %d %s" s a (pp_act ya));
         List.iter (fun p -> Buffer.add_string b (Printf.sprintf " # YS %d %d %d" s a (int_of_n p))) ys;
         List.iter (fun (x, y) ->
           Buffer.add_string b (Printf.sprintf " # YR %d %d %d %d" s a (int_of_n x) (int_of_n y))) yr;
         if three_way_b g items es na then
           Buffer.add_string b (Printf.sprintf " # Y3 %d %d %s" s a (b2s (yacc_agrees_b g tp pp items es na)));
         let ((ba, bs), br) = cell_bison g tp pp items es na in
         if ((ba, bs), br) <> ((ya, ys), yr) then begin
           Buffer.add_string b (Printf.sprintf " # B3 %d %d %s" s a (pp_act ba));
           List.iter (fun p -> Buffer.add_string b (Printf.sprintf " # BS %d %d %d" s a (int_of_n p))) bs;
           List.iter (fun (x, y) ->
             Buffer.add_string b (Printf.sprintf " # BR %d %d %d %d" s a (int_of_n x) (int_of_n y))) br
         end);
        if accept_reduce_b g items na then Buffer.add_string b (Printf.sprintf " # SAR %d %d" s a);
        (match red_cands g items na with
         | _ :: _ :: _ as l ->
             Buffer.add_string b (Printf.sprintf " # SRC %d %d" s a);
             List.iter (fun p -> Buffer.add_string b (Printf.sprintf " %d" (int_of_n p))) l
         | _ -> ())) toks;
      List.iter (fun ((a, p), _) ->
        Buffer.add_string b (Printf.sprintf " # SS %d %d %d" s (int_of_n a) (int_of_n p)))
        (sr_spec g tp pp (n_of_int s) items es)) sts;
    (match table_mirror g tp pp sts with
     | Done (Some t) ->
         Buffer.add_string b " # M ok";
         List.iter (fun ((a, p), s) ->
           Buffer.add_string b (Printf.sprintf " # MS %d %d %d" (int_of_n s) (int_of_n a) (int_of_n p))) t.tb_sr;
         List.iter (fun (((a, x), y), s) ->
           Buffer.add_string b (Printf.sprintf " # MR %d %d %d %d" (int_of_n s) (int_of_n a) (int_of_n x) (int_of_n y))) t.tb_rr
     | Done None -> Buffer.add_string b " # M builderr"
     | Panic -> Buffer.add_string b " # M panic"
     | OutOfFuel -> Buffer.add_string b " # M fuel");
    (* precedences implied by the declarations *)
    let secs = split_sections line in
    let decls = List.filter_map (function
      | "DL" :: k :: ts -> Some (assoc_of_int (int_of_string k), List.map (fun t -> n_of_int (int_of_string t)) ts)
      | _ -> None) secs in
    let has_decl = List.exists (function "DL" :: _ -> true | "DP" :: _ -> true | "DN" :: _ -> true | _ -> false) secs in
    if has_decl then begin
      let tps = token_prec_spec decls in
      List.iter (fun a ->
        let same = (match tps (n_of_int a), token_prec_mirror decls (n_of_int a) with
                    | Some x, Some y -> x.p_level = y.p_level && x.p_kind = y.p_kind
                    | None, None -> true | _ -> false) in
        if not same then Buffer.add_string b (Printf.sprintf " # EMISMATCH %d" a);
        match tps (n_of_int a) with
        | Some p -> Buffer.add_string b (Printf.sprintf " # ETP %d %d %d" a (int_of_n p.p_level) (int_of_assoc p.p_kind))
        | None -> ()) toks;
      List.iter (fun t -> Buffer.add_string b (Printf.sprintf " # EDUP %d" (int_of_n t))) (decl_dups decls);
      let precname = Hashtbl.create 16 in
      List.iter (function
        | "DP" :: p :: t :: _ -> if t <> "-" then Hashtbl.replace precname (int_of_string p) (int_of_string t)
        | _ -> ()) secs;
      List.iteri (fun p (_, syms) ->
        let pn = (match Hashtbl.find_opt precname p with Some t -> Some (n_of_int t) | None -> None) in
        match prod_prec_mirror tps pn syms with
        | Done (Some pr) -> Buffer.add_string b (Printf.sprintf " # EPP %d %d %d" p (int_of_n pr.p_level) (int_of_assoc pr.p_kind))
        | Done None -> ()
        | _ -> Buffer.add_string b (Printf.sprintf " # EPANIC %d" p)) g.prods
    end;
    Buffer.contents b)

(* oracle for construction errors: does the canonical LR(1) automaton have a cell offering
   accept and a reduction?  (the state reached on the start symbol is never merged by Pager's
   algorithm — its core is unique — so its lookaheads are the canonical ones) *)
let canon_ar_main () =
  iter_lines (fun line ->
    if String.length line < 2 || String.sub line 0 2 <> "G " then "SKIP" else
    let d = parse_dump line in
    let g = grammar_of d in
    match canon_lr1 g (nat_of_int 1500) with
    | None -> "AR none"
    | Some c ->
        let toks = List.init d.ntoks (fun a -> n_of_int a) in
        let ar = List.exists (fun (_, items) -> List.exists (fun a -> accept_reduce_b g items a) toks) c.c_dump.d_closed in
        Printf.sprintf "AR %s n=%d" (b2s ar) (int_of_n c.c_dump.d_nstates))

let () =
  if Array.length Sys.argv > 1 && Sys.argv.(1) = "expect" then expect_main ()
  else if Array.length Sys.argv > 1 && Sys.argv.(1) = "canon-ar" then canon_ar_main ()
  else dump_main ()
