(* C02 driver (stage 1): one probe record of the `c02` harness per line
     [GP a b] W <ntoks> <wc> <mc> # KA p d la… # KB p d la… [# KM …]
   -> R wc=<0|1|panic> mc=<0|1|panic> od=<0|1> # KM p d la… (the merged self, sorted, contexts sorted)
   wc: weakly_compatible_mirror with keys = the order of the KA sections (= the order in which the implementation's
       self.items.keys() yielded them); od=1 when another key order / another layout of the two association lists
       (reverse, a fixed pseudo-random permutation) gives a different answer (excluded by
       weakly_compatible_order_insensitive / _layout_insensitive);
   mc/KM: weakly_merge_mirror self other. *)
let perm k l =
  match k with
  | 0 -> l
  | 1 -> List.rev l
  | _ ->
      let a = List.mapi (fun i x -> (((i * 7919 + k * 31 + 13) mod 1009, i), x)) l in
      List.map snd (List.sort compare a)

let item_of = function
  | p :: d :: la -> ((n_of_int (int_of_string p), nat_of_int (int_of_string d)), List.map (fun x -> n_of_int (int_of_string x)) la)
  | _ -> failwith "item"

let wc_str = function Done true -> "1" | Done false -> "0" | Panic -> "panic" | OutOfFuel -> "fuel"

let weak_main () =
  iter_lines (fun line ->
    let secs = split_sections line in
    let ka = List.filter_map (function "KA" :: r -> Some (item_of r) | _ -> None) secs in
    let kb = List.filter_map (function "KB" :: r -> Some (item_of r) | _ -> None) secs in
    let keys = List.map fst ka in
    let r0 = weakly_compatible_mirror keys ka kb in
    let od = List.exists (fun (k1, k2, k3) ->
        weakly_compatible_mirror (perm k1 keys) (perm k2 ka) (perm k3 kb) <> r0)
      [ (1, 0, 0); (2, 0, 0); (0, 1, 2); (1, 2, 1); (2, 1, 0); (2, 2, 2) ] in
    let b = Buffer.create 256 in
    let m = weakly_merge_mirror ka kb in
    Buffer.add_string b (Printf.sprintf "R wc=%s mc=%s od=%s" (wc_str r0)
      (match m with Done (_, true) -> "1" | Done (_, false) -> "0" | Panic -> "panic" | OutOfFuel -> "fuel")
      (if od then "1" else "0"));
    (match m with
     | Done (items, _) ->
         let c = List.sort compare
           (List.map (fun ((p, d), la) -> (int_of_n p, int_of_nat d, List.sort_uniq compare (List.map int_of_n la))) items) in
         List.iter (fun (p, d, la) ->
           Buffer.add_string b (Printf.sprintf " # KM %d %d" p d);
           List.iter (fun a -> Buffer.add_string b (Printf.sprintf " %d" a)) la) c
     | _ -> ());
    Buffer.contents b)

(* `lr1` mode: one `lr` harness dump per line (only the grammar sections G / P are used)
     -> L n=<states of the canonical LR(1) automaton> conflicts=<cells with two candidates> lr1check=<0|1>
   lr1check = lr1_check g (canon_lr1 g): the PROVED-SOUND certificate checker for "the grammar is LR(1)"
   (C02_lr1_check_sound) applied to the automaton built by the unverified canon_lr1. *)
let lr1_main () =
  iter_lines (fun line ->
    if String.length line < 2 || String.sub line 0 2 <> "G " then "SKIP" else
    let d = parse_dump line in
    let g = grammar_of d in
    match canon_lr1 g (nat_of_int 1500) with
    | None -> "L none"
    | Some c ->
        let a = of_dump c.c_dump in
        Printf.sprintf "L n=%d conflicts=%d lr1check=%s" (int_of_n c.c_dump.d_nstates)
          (int_of_nat c.c_conflicts) (b2s (lr1_check g a)))

(* `loop` mode: one `P` record of the c02 harness per line (grammar + automaton dump + TR trace sections)
     -> PG <n> # K s p d la… # C s p d la… # E s sym t      the graph pager_mirror builds when it replays the trace
      | PGFAIL panic|fuel|nofirst
   FIRST/nullable = the proved-exact first_ref; max_st = 2^32 - 1 (StorageT = u32); fuel = |trace| + 2. *)
let loop_main () =
  iter_lines (fun line ->
    if String.length line < 2 || String.sub line 0 2 <> "G " then "SKIP" else
    let d = parse_dump line in
    let g = grammar_of d in
    let secs = split_sections line in
    let rec pairs = function
      | p :: dt :: r -> (n_of_int (int_of_string p), nat_of_int (int_of_string dt)) :: pairs r
      | _ -> [] in
    let orders = List.filter_map (function "TR" :: _ :: r -> Some (pairs r) | _ -> None) secs in
    match first_ref g with
    | None -> "PGFAIL nofirst"
    | Some (nl, fs) ->
      match pager_mirror g nl fs (n_of_int 4294967295) (nat_of_int (List.length orders + 2)) orders with
      | Panic -> "PGFAIL panic"
      | OutOfFuel -> "PGFAIL fuel"
      | Done pg ->
          let b = Buffer.create 4096 in
          let ia = induced g pg in
          Buffer.add_string b (Printf.sprintf "PG %d S=%s C=%s E=%s single=%s" (List.length pg.pg_states)
            (b2s (validS g ia)) (b2s (validC g ia)) (b2s (validE g ia)) (b2s (single_candidate g ia)));
          (* the induced table: A s tok S t | A s tok R p | A s tok A ; T s rule t *)
          List.iteri (fun s _ ->
            let sn = n_of_int s in
            for a = 0 to d.ntoks - 1 do
              (match ia.action sn (n_of_int a) with
               | Shift t -> Buffer.add_string b (Printf.sprintf " # A %d %d S %d" s a (int_of_n t))
               | Reduce p -> Buffer.add_string b (Printf.sprintf " # A %d %d R %d" s a (int_of_n p))
               | Accept -> Buffer.add_string b (Printf.sprintf " # A %d %d A" s a)
               | Err -> ())
            done;
            for r = 0 to d.nrules - 1 do
              (match ia.goto sn (n_of_int r) with
               | Some t -> Buffer.add_string b (Printf.sprintf " # T %d %d %d" s r (int_of_n t))
               | None -> ())
            done) pg.pg_states;
          let put tag s items =
            let c = List.sort compare
              (List.map (fun ((p, dt), la) -> (int_of_n p, int_of_nat dt, List.sort_uniq compare (List.map int_of_n la))) items) in
            List.iter (fun (p, dt, la) ->
              Buffer.add_string b (Printf.sprintf " # %s %d %d %d" tag s p dt);
              List.iter (fun a -> Buffer.add_string b (Printf.sprintf " %d" a)) la) c in
          List.iteri (fun s (core, closed) -> put "K" s core; put "C" s closed) pg.pg_states;
          List.iteri (fun s es ->
            List.iter (fun (code, t) -> Buffer.add_string b (Printf.sprintf " # E %d %d %d" s code t))
              (List.sort compare (List.map (fun (sy, t) ->
                 ((match sy with T x -> 2 * int_of_n x | R x -> 2 * int_of_n x + 1), int_of_nat t)) es))) pg.pg_edges;
          Buffer.contents b)

(* `tb` mode: one `lr` harness dump per line (grammar sections G / P and the token lists I)
     -> TB n=<states of the TEXTBOOK canonical LR(1) collection> conflicts=<cells with two candidates>
           tbcheck=<0|1> S=<0|1> [# O acc <tree> | rej <k> <state> | panic | fuel]*
   The collection is built by the unverified canon_tb (sets of single-lookahead items: an item comes into being
   only with a lookahead); tbcheck = lr1_textbook_check g (canon_tb g): the PROVED-SOUND certificate checker for
   "the grammar is LR(1) in the textbook sense" (C02_lr1_textbook_check_sound); S = validS of that automaton
   (what it accepts is then a sentence with that tree, C01_lr_sound).  The inputs are run on it when it has no
   conflict. *)
let rec pp_tree g b = function
  | Leaf (a, i) -> Buffer.add_string b (Printf.sprintf "[%d %d]" (int_of_n a) (int_of_nat i))
  | Node (p, kids) ->
      Buffer.add_string b (Printf.sprintf "(%d" (int_of_n (lhs g p)));
      List.iter (fun k -> Buffer.add_char b ' '; pp_tree g b k) kids;
      Buffer.add_char b ')'

let tb_main () =
  iter_lines (fun line ->
    if String.length line < 2 || String.sub line 0 2 <> "G " then "SKIP" else
    let d = parse_dump line in
    let g = grammar_of d in
    match canon_tb g (nat_of_int 1500) with
    | None -> "TB none"
    | Some c ->
        let a = of_dump c.c_dump in
        let b = Buffer.create 256 in
        Buffer.add_string b (Printf.sprintf "TB n=%d conflicts=%d tbcheck=%s S=%s" (int_of_n c.c_dump.d_nstates)
          (int_of_nat c.c_conflicts) (b2s (lr1_textbook_check g a)) (b2s (validS g a)));
        if int_of_nat c.c_conflicts = 0 then
          List.iter (fun inp ->
            let input = List.map n_of_int inp in
            let fuel = nat_of_int (200 + 40 * (List.length inp + 1) * (List.length g.prods + 2)) in
            Buffer.add_string b " # O ";
            (match run g a fuel input with
             | RAccept t -> Buffer.add_string b "acc "; pp_tree g b t
             | RReject (k, st) -> Buffer.add_string b (Printf.sprintf "rej %d %d" (int_of_nat k) (int_of_n st))
             | RPanic -> Buffer.add_string b "panic"
             | ROutOfFuel -> Buffer.add_string b "fuel")) (List.rev d.inputs_rev);
        Buffer.contents b)

let () =
  if Array.length Sys.argv > 1 && Sys.argv.(1) = "lr1" then lr1_main ()
  else if Array.length Sys.argv > 1 && Sys.argv.(1) = "tb" then tb_main ()
  else if Array.length Sys.argv > 1 && Sys.argv.(1) = "loop" then loop_main ()
  else weak_main ()
