(* C17 reference side: reads the harness line (grammar dump + COST section), prints
   the proved-exact reference sets and the certified sentence costs in the harness's
   canonical format:
     WF b # NUL r… # FI r tok… # FOS r tok… (strict) # FOT r tok… (textbook) # HP a b …
     # CM r unproductive | CM r <min> <max|inf>   (or CMNONE if the search produced no accepted certificate)
     # MM done c… | MM panic | MM diverges | MM fuel     (mirror of the ORIGINAL rule_min_costs)
     # FXMIN v… | FXMIN panic | FXMIN fuel   # FXMAX v… | FXMAX panic | FXMAX fuel
       (mirrors of the REPAIRED rule_min_costs / rule_max_costs, C17/CostMirror.v: one u16 per rule,
        65535 = no sentence (min) / unbounded (max)) *)
let costs_of (line : string) (ntoks : int) : int array =
  let a = Array.make (max ntoks 1) 1 in
  List.iter (fun sec ->
    match sec with
    | "COST" :: rest ->
        let rec go = function
          | t :: c :: tl -> let t = int_of_string t in
              if t >= 0 && t < Array.length a then a.(t) <- int_of_string c; go tl
          | _ -> () in
        go rest
    | _ -> ()) (split_sections line);
  a

let pairs_by_first (n : int) (ps : (n * n) list) : int list array =
  let a = Array.make (max n 1) [] in
  List.iter (fun (r, t) -> let r = int_of_n r in if r < n then a.(r) <- int_of_n t :: a.(r)) ps;
  Array.map (fun l -> List.sort_uniq compare l) a

let add_sets b tag n (ps : (n * n) list) =
  let a = pairs_by_first n ps in
  for r = 0 to n - 1 do
    Buffer.add_string b (Printf.sprintf " # %s %d" tag r);
    List.iter (fun t -> Buffer.add_string b (Printf.sprintf " %d" t)) a.(r)
  done

(* `gvm_c17 msb`: only the mirror of min_sentences (C17/QueryModel.v, unbounded native stack, fuel = rules + 1 — the
   depth never exceeds the number of rules, C17_min_sentences_depth_le_rules), one section per rule IN THE ORDER the
   mirror produces the sentences:   MSB r ; tok… ; tok…   |   MSB r panic   |   MSB r fuel *)
let msb_mode = Array.length Sys.argv > 1 && Sys.argv.(1) = "msb"

let msb_line (line : string) : string =
  let d = parse_dump line in
  let g = grammar_of d in
  let ca = costs_of line d.ntoks in
  let c = tcost (Array.to_list (Array.map n_of_int ca)) in
  let b = Buffer.create 512 in
  Buffer.add_string b "MSBS";
  for r = 0 to d.nrules - 1 do
    Buffer.add_string b (Printf.sprintf " # MSB %d" r);
    (match min_sentences_m None (nat_of_int (d.nrules + 1)) g c (n_of_int r) with
     | Done ss -> List.iter (fun s -> Buffer.add_string b " ;"; List.iter (fun t -> Buffer.add_string b (Printf.sprintf " %d" (int_of_n t))) s) ss
     | Panic -> Buffer.add_string b " panic"
     | OutOfFuel -> Buffer.add_string b " fuel")
  done;
  Buffer.contents b

let () =
  iter_lines (fun line ->
    let line = if String.length line > 11 && String.sub line 0 11 = "HANGCOST # " then String.sub line 11 (String.length line - 11) else line in
    if String.length line < 2 || String.sub line 0 2 <> "G " then "SKIP" else
    if msb_mode then msb_line line else
    let d = parse_dump line in
    let g = grammar_of d in
    let n = d.nrules in
    let b = Buffer.create 512 in
    Buffer.add_string b (Printf.sprintf "WF %s" (b2s (wf_grammar g)));
    (match first_ref g with
     | None -> Buffer.add_string b " # FIRSTNONE"
     | Some (nl, fs) ->
        Buffer.add_string b " # NUL";
        List.iter (fun r -> Buffer.add_string b (Printf.sprintf " %d" r)) (List.sort_uniq compare (List.map int_of_n nl));
        add_sets b "FI" n fs);
    (match follow_strict_ref g with None -> Buffer.add_string b " # FOSNONE" | Some fo -> add_sets b "FOS" n fo);
    (match follow_textbook_ref g with None -> Buffer.add_string b " # FOTNONE" | Some fo -> add_sets b "FOT" n fo);
    (match reach_ref g with
     | None -> Buffer.add_string b " # HPNONE"
     | Some rs ->
        Buffer.add_string b " # HP";
        List.iter (fun (x, y) -> Buffer.add_string b (Printf.sprintf " %d %d" x y))
          (List.sort_uniq compare (List.map (fun (x, y) -> (int_of_n x, int_of_n y)) rs)));
    let ca = costs_of line d.ntoks in
    let cs = Array.to_list (Array.map n_of_int ca) in
    let c = tcost cs in
    (match certified_costs g c with
     | None -> Buffer.add_string b " # CMNONE"
     | Some l ->
        List.iter (fun (r, a) ->
          match a with
          | CUnprod -> Buffer.add_string b (Printf.sprintf " # CM %d unproductive" (int_of_n r))
          | CCost (mn, mx) ->
              Buffer.add_string b (Printf.sprintf " # CM %d %d %s" (int_of_n r) (int_of_n mn)
                (match mx with Some v -> string_of_int (int_of_n v) | None -> "inf"))) l);
    (match rule_min_costs_run (nat_of_int 70000) g c with
     | McDone l -> Buffer.add_string b " # MM done"; List.iter (fun v -> Buffer.add_string b (Printf.sprintf " %d" (int_of_n v))) l
     | McPanic -> Buffer.add_string b " # MM panic"
     | McDiverges -> Buffer.add_string b " # MM diverges"
     | McFuel -> Buffer.add_string b " # MM fuel");
    List.iter (fun (tag, o) ->
      match o with
      | Done l -> Buffer.add_string b (" # " ^ tag); List.iter (fun v -> Buffer.add_string b (Printf.sprintf " %d" (int_of_n v))) l
      | Panic -> Buffer.add_string b (" # " ^ tag ^ " panic")
      | OutOfFuel -> Buffer.add_string b (" # " ^ tag ^ " fuel"))
      [("FXMIN", rule_min_costs_fx g c); ("FXMAX", rule_max_costs_fx g c)];
    Buffer.contents b)
