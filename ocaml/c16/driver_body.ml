(* C16 driver: one `c16` dump per line (lr dump + VA/VSH/VCR/VRO sections) ->
     K coherent=<0|1> first=<0|1> exact=<0|1>   (exact: the hypotheses of C16_coherent_b_exact_dump hold of this dump:
                                                   wf_grammar, vS1, vS5, dump_edges_in_syms_b, core_la_in_toks_b)
     # RE <0|1> (all states reachable; only when not coherent)
     # RB st a=<0|1> sh=<0|1> tg=<0|1> cr=<0|1> ro=<0|1> cl=<0|1>     (only states with a failing clause)
     # NE st tok                                  (cells erased by %nonassoc: candidates exist, specified cell is Error)
     # M ok|builderr|panic  # MSA st tok…   (state_actions of the mirror of the first half of StateTable::new, run on the
                                              implementation's item sets and edges)
     # MSH st tok…  # MCR st pidx…  # MRO st 0|1   (mirror of the second half, run on the implementation's final cells) *)
let assoc_of_int = function 0 -> ALeft | 1 -> ARight | _ -> ANonassoc
let prec_list l = List.map (fun (k, (lv, a)) -> (n_of_int k, { p_level = n_of_int lv; p_kind = assoc_of_int a })) (List.rev l)
let sort_uniq_ints l = List.sort_uniq compare (List.map int_of_n l)

let () =
  iter_lines (fun line ->
    if String.length line < 2 || String.sub line 0 2 <> "G " then "SKIP" else
    let d = parse_dump line in
    let g = grammar_of d in
    let dd = dump_of d in
    let a = of_dump dd in
    let secs = split_sections line in
    let ios = int_of_string in
    let pick tag = List.filter_map (function
      | t :: s :: rest when t = tag -> Some (n_of_int (ios s), List.map (fun x -> n_of_int (ios x)) rest)
      | _ -> None) secs in
    let va = pick "VA" and vsh = pick "VSH" and vcr = pick "VCR" in
    let vro = List.filter_map (function
      | "VRO" :: s :: f :: _ -> Some (n_of_int (ios s), f = "1")
      | _ -> None) secs in
    let v = views_of_dump va vsh vcr vro in
    let b = Buffer.create 1024 in
    let fr = first_ref g in
    let coh = coherent_b g a v in
    Buffer.add_string b (Printf.sprintf "K coherent=%s first=%s exact=%s" (b2s coh) (b2s (match fr with Some _ -> true | None -> false))
      (b2s (wf_grammar g && vS1 g a && vS5 g a && dump_edges_in_syms_b g dd && core_la_in_toks_b g a)));
    let toks = List.init d.ntoks (fun x -> n_of_int x) in
    if not coh then begin
      Buffer.add_string b (Printf.sprintf " # RE %s" (b2s (all_reachable_b g a)));
      for s = 0 to d.nstates - 1 do
        let ns = n_of_int s in
        let cells = a.action ns in
        let r1 = actions_b toks cells (v.v_actions ns) and r2 = shifts_b toks cells (v.v_shifts ns)
        and r3 = targets_b g a ns and r4 = core_reduces_b g toks cells (v.v_core_reduces ns)
        and r5 = reduce_only_b g toks cells (v.v_reduce_only ns)
        and r6 = (match fr with Some (nl, fs) -> closure_b g nl fs a ns | None -> false) in
        if not (r1 && r2 && r3 && r4 && r5 && r6) then
          Buffer.add_string b (Printf.sprintf " # RB %d a=%s sh=%s tg=%s cr=%s ro=%s cl=%s" s (b2s r1) (b2s r2) (b2s r3) (b2s r4) (b2s r5) (b2s r6))
      done
    end;
    (* the construction mirror on the implementation's own item sets and edges *)
    let tl = prec_list d.tprec and pl = prec_list d.pprec in
    let tp = precs_of tl and pp = precs_of pl in
    let closed = per_state d d.closed_t and edges = per_state d d.edges_t in
    let sts = List.map2 (fun (_, items) (_, es) -> (items, es)) closed edges in
    List.iteri (fun s (items, es) ->
      List.iter (fun x ->
        if has_candidate g items es x && (match cell_spec g tp pp items es x with Err -> true | _ -> false)
        then Buffer.add_string b (Printf.sprintf " # NE %d %d" s (int_of_n x))) toks) sts;
    (match table_mirror g tp pp sts with
     | Done (Some t) ->
         Buffer.add_string b " # M ok";
         List.iteri (fun s row ->
           Buffer.add_string b (Printf.sprintf " # MSA %d" s);
           List.iter (fun x -> Buffer.add_string b (Printf.sprintf " %d" x)) (sort_uniq_ints row.row_sa);
           (* second half of StateTable::new: from the FINAL cells — the implementation's own *)
           let ((sh, cr), ro) = views_row g toks (a.action (n_of_int s)) in
           Buffer.add_string b (Printf.sprintf " # MSH %d" s);
           List.iter (fun x -> Buffer.add_string b (Printf.sprintf " %d" x)) (sort_uniq_ints sh);
           Buffer.add_string b (Printf.sprintf " # MCR %d" s);
           List.iter (fun x -> Buffer.add_string b (Printf.sprintf " %d" x)) (sort_uniq_ints cr);
           Buffer.add_string b (Printf.sprintf " # MRO %d %s" s (b2s ro))) t.tb_rows
     | Done None -> Buffer.add_string b " # M builderr"
     | Panic -> Buffer.add_string b " # M panic"
     | OutOfFuel -> Buffer.add_string b " # M fuel");
    Buffer.contents b)
