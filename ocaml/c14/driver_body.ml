(* C14 driver.  case line:  <G|S> <8|16|32> <fix|var> <hex bytes>
   result:  FAIL | OK rest=<n> reenc=<same|diff@i> wf=<0|1> V <value>
   value dump: int = decimal, bool = t/f, bytes = x<hex>, N, S(v), [v,..], (v,..), E<i>(v), O *)
let int64_of_n (n : n) : int64 =
  let rec go = function
    | XH -> 1L
    | XO p -> Int64.mul 2L (go p)
    | XI p -> Int64.add (Int64.mul 2L (go p)) 1L in
  match n with N0 -> 0L | Npos p -> go p
let dec_of_n (n : n) : string = Printf.sprintf "%Lu" (int64_of_n n)
let bytes_of_hex (s : string) : n list =
  let k = String.length s / 2 in
  let rec go i acc = if i < 0 then acc else go (i - 1) (n_of_int (int_of_string ("0x" ^ String.sub s (2 * i) 2)) :: acc) in
  go (k - 1) []
let rec dump (b : Buffer.t) (v : value) : unit =
  match v with
  | VInt n -> Buffer.add_string b (dec_of_n n)
  | VBool x -> Buffer.add_char b (if x then 't' else 'f')
  | VBytes l -> Buffer.add_char b 'x'; List.iter (fun x -> Buffer.add_string b (Printf.sprintf "%02x" (int_of_n x))) l
  | VNone -> Buffer.add_char b 'N'
  | VSome v' -> Buffer.add_string b "S("; dump b v'; Buffer.add_char b ')'
  | VList l -> Buffer.add_char b '['; dump_list b l; Buffer.add_char b ']'
  | VTuple l -> Buffer.add_char b '('; dump_list b l; Buffer.add_char b ')'
  | VEnum (i, v') -> Buffer.add_string b (Printf.sprintf "E%d(" (int_of_nat i)); dump b v'; Buffer.add_char b ')'
  | VOpaque -> Buffer.add_char b 'O'
and dump_list b l =
  List.iteri (fun i v -> if i > 0 then Buffer.add_char b ','; dump b v) l
let rec first_diff i a b =
  match a, b with
  | [], [] -> -1
  | x :: a', y :: b' -> if x = y then first_diff (i + 1) a' b' else i
  | _, _ -> i
let () =
  iter_lines (fun line ->
    match split_ws line with
    | [which; w; enc; hex] | [which; w; enc; hex; _] ->
      let table = (which = "S") in
      let t = (match w with "8" -> St8 | "16" -> St16 | "32" -> St32 | _ -> failwith "width") in
      let c = (match enc with "fix" -> Fix | "var" -> Var | _ -> failwith "enc") in
      let bs = bytes_of_hex (if hex = "-" then "" else hex) in
      let wf = if wf_case table t then 1 else 0 in
      (match run_case table t c bs with
       | None -> Printf.sprintf "FAIL wf=%d" wf
       | Some ((v, rest), re) ->
         let nkeep = List.length bs - List.length rest in
         let consumed = List.filteri (fun i _ -> i < nkeep) bs in
         let d = first_diff 0 consumed re in
         let b = Buffer.create 4096 in
         dump b v;
         Printf.sprintf "OK rest=%d reenc=%s wf=%d V %s" (List.length rest)
           (if d < 0 then "same" else Printf.sprintf "diff@%d" d) wf (Buffer.contents b))
    | _ -> "BADCASE")
