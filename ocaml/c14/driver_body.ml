(* C14 driver.  case line:  <G|S> <8|16|32> <fix|var> <hex bytes> [novalue]
   result:  FAIL | OK rest=<n> reenc=<same|diff@i> wf=<0|1> lim=<0|1> V <value>
     (lim: does the reader of wincode's default configuration — 4 MiB preallocation size limit,
      [decode_limited PREALLOC_LIMIT mem_size] — accept the same bytes; `novalue`: V - )
   case line:  SIZES <8|16|32>   result: SIZES G <n> <n> ... # S <n> <n> ...   ([mem_size] of the element
      type of every sequence position of the two generated schemas, in encoding order)
   value dump: int = decimal, bool = t/f, bytes = x<hex>, N, S(v), [v,..], (v,..), E<i>(v), O *)
let int64_of_n (n : n) : int64 =
  let rec go = function
    | XH -> 1L
    | XO p -> Int64.mul 2L (go p)
    | XI p -> Int64.add (Int64.mul 2L (go p)) 1L in
  match n with N0 -> 0L | Npos p -> go p
let dec_of_n (n : n) : string = Printf.sprintf "%Lu" (int64_of_n n)
(* one shared N per byte value (a 4 MiB blob would otherwise allocate a fresh binary numeral per byte) *)
let byte_n = Array.init 256 n_of_int
let bytes_of_hex (s : string) : n list =
  let k = String.length s / 2 in
  let hv ch = (match ch with '0'..'9' -> Char.code ch - 48 | 'a'..'f' -> Char.code ch - 87 | 'A'..'F' -> Char.code ch - 55 | _ -> failwith "hex") in
  let rec go i acc = if i < 0 then acc else go (i - 1) (byte_n.(16 * hv s.[2 * i] + hv s.[2 * i + 1]) :: acc) in
  go (k - 1) []
let hex2 = Array.init 256 (fun i -> Printf.sprintf "%02x" i)
let rec dump (b : Buffer.t) (v : value) : unit =
  match v with
  | VInt n -> Buffer.add_string b (dec_of_n n)
  | VBool x -> Buffer.add_char b (if x then 't' else 'f')
  | VBytes l -> Buffer.add_char b 'x'; List.iter (fun x -> Buffer.add_string b hex2.(int_of_n x land 255)) l
  | VNone -> Buffer.add_char b 'N'
  | VSome v' -> Buffer.add_string b "S("; dump b v'; Buffer.add_char b ')'
  | VList l -> Buffer.add_char b '['; dump_list b l; Buffer.add_char b ']'
  | VTuple l -> Buffer.add_char b '('; dump_list b l; Buffer.add_char b ')'
  | VEnum (i, v') -> Buffer.add_string b (Printf.sprintf "E%d(" (int_of_nat i)); dump b v'; Buffer.add_char b ')'
  | VOpaque -> Buffer.add_char b 'O'
and dump_list b l =
  List.iteri (fun i v -> if i > 0 then Buffer.add_char b ','; dump b v) l
let rec first_diff i a b =
  match a, b with
  | [], [] -> -1
  | x :: a', y :: b' -> if x = y then first_diff (i + 1) a' b' else i
  | _, _ -> i
let () =
  iter_lines (fun line ->
    match split_ws line with
    | ["SIZES"; w] ->
      let t = (match w with "8" -> St8 | "16" -> St16 | "32" -> St32 | _ -> failwith "width") in
      let f table = String.concat " " (List.map dec_of_n (elem_sizes table t)) in
      Printf.sprintf "SIZES G %s # S %s" (f false) (f true)
    | [which; w; enc; hex] | [which; w; enc; hex; _] ->
      let novalue = (match split_ws line with [_; _; _; _; "novalue"] -> true | _ -> false) in
      let table = (which = "S") in
      let t = (match w with "8" -> St8 | "16" -> St16 | "32" -> St32 | _ -> failwith "width") in
      let c = (match enc with "fix" -> Fix | "var" -> Var | _ -> failwith "enc") in
      let bs = bytes_of_hex (if hex = "-" then "" else hex) in
      let wf = if wf_case table t then 1 else 0 in
      (match run_case table t c bs with
       | None -> Printf.sprintf "FAIL wf=%d" wf
       | Some ((v, rest), re) ->
         let nkeep = List.length bs - List.length rest in
         let consumed = List.filteri (fun i _ -> i < nkeep) bs in
         let d = first_diff 0 consumed re in
         let lim = if run_limited table t c bs then 1 else 0 in
         let b = Buffer.create 4096 in
         if novalue then Buffer.add_char b '-' else dump b v;
         Printf.sprintf "OK rest=%d reenc=%s wf=%d lim=%d V %s" (List.length rest)
           (if d < 0 then "same" else Printf.sprintf "diff@%d" d) wf lim (Buffer.contents b))
    | _ -> "BADCASE")
