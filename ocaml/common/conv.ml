(* shared glue, textually prepended to every driver (after `open Model`) *)
let nat_of_int (n : int) : nat =
  let rec go acc k = if k <= 0 then acc else go (S acc) (k - 1) in go O n
let int_of_nat (n : nat) : int =
  let rec go acc = function O -> acc | S m -> go (acc + 1) m in go 0 n
let rec pos_of_int (n : int) : positive =
  if n <= 1 then XH else if n land 1 = 0 then XO (pos_of_int (n lsr 1)) else XI (pos_of_int (n lsr 1))
let n_of_int (n : int) : n = if n <= 0 then N0 else Npos (pos_of_int n)
let rec int_of_pos = function XH -> 1 | XO p -> 2 * int_of_pos p | XI p -> 2 * int_of_pos p + 1
let int_of_n = function N0 -> 0 | Npos p -> int_of_pos p
let split_ws (s : string) : string list =
  List.filter (fun x -> x <> "") (String.split_on_char ' ' s)
let ints_of (s : string) : int list = List.map int_of_string (split_ws s)
let iter_lines (f : string -> string) : unit =
  (try
     while true do
       let l = input_line stdin in
       let l = String.trim l in
       if l <> "" then (print_string (f l); print_char '\n')
     done
   with End_of_file -> ());
  flush stdout
