(* parsing of the ` # `-separated dump sections shared by the LR-family drivers *)
let split_sections (line : string) : string list list =
  List.map split_ws (Str.split (Str.regexp_string " # ") line)

let sym_of_code c = if c land 1 = 0 then T (n_of_int (c / 2)) else R (n_of_int (c / 2))

type pdump = {
  mutable ntoks : int; mutable nrules : int; mutable eof : int; mutable start_prod : int;
  mutable prods_rev : (n * sym list) list;
  mutable nstates : int; mutable start : int;
  closed_t : (int, (n * nat) * n list) Hashtbl.t;   (* multi-binding per state *)
  core_t : (int, (n * nat) * n list) Hashtbl.t;
  edges_t : (int, sym * n) Hashtbl.t;
  actions_t : (int, n * act) Hashtbl.t;
  gotos_t : (int, n * n) Hashtbl.t;
  mutable inputs_rev : int list list;
  mutable tprec : (int * (int * int)) list;
  mutable pprec : (int * (int * int)) list;
}

let parse_dump (line : string) : pdump =
  let d = { ntoks = 0; nrules = 0; eof = 0; start_prod = 0; prods_rev = []; nstates = 0; start = 0;
            closed_t = Hashtbl.create 64; core_t = Hashtbl.create 64; edges_t = Hashtbl.create 64;
            actions_t = Hashtbl.create 64; gotos_t = Hashtbl.create 64; inputs_rev = [];
            tprec = []; pprec = [] } in
  let ios = int_of_string in
  List.iter (fun sec ->
    match sec with
    | "G" :: a :: b :: c :: e :: _ -> d.ntoks <- ios a; d.nrules <- ios b; d.eof <- ios c; d.start_prod <- ios e
    | "P" :: l :: syms -> d.prods_rev <- (n_of_int (ios l), List.map (fun s -> sym_of_code (ios s)) syms) :: d.prods_rev
    | "N" :: a :: b :: _ -> d.nstates <- ios a; d.start <- ios b
    | "C" :: st :: p :: dot :: la ->
        Hashtbl.add d.closed_t (ios st) ((n_of_int (ios p), nat_of_int (ios dot)), List.map (fun x -> n_of_int (ios x)) la)
    | "K" :: st :: p :: dot :: la ->
        Hashtbl.add d.core_t (ios st) ((n_of_int (ios p), nat_of_int (ios dot)), List.map (fun x -> n_of_int (ios x)) la)
    | "E" :: st :: sy :: tg :: _ -> Hashtbl.add d.edges_t (ios st) (sym_of_code (ios sy), n_of_int (ios tg))
    | "A" :: st :: tk :: "S" :: tg :: _ -> Hashtbl.add d.actions_t (ios st) (n_of_int (ios tk), Shift (n_of_int (ios tg)))
    | "A" :: st :: tk :: "R" :: p :: _ -> Hashtbl.add d.actions_t (ios st) (n_of_int (ios tk), Reduce (n_of_int (ios p)))
    | "A" :: st :: tk :: "A" :: _ -> Hashtbl.add d.actions_t (ios st) (n_of_int (ios tk), Accept)
    | "T" :: st :: r :: tg :: _ -> Hashtbl.add d.gotos_t (ios st) (n_of_int (ios r), n_of_int (ios tg))
    | "I" :: toks -> d.inputs_rev <- List.map ios toks :: d.inputs_rev
    | "TP" :: t :: l :: a :: _ -> d.tprec <- (ios t, (ios l, ios a)) :: d.tprec
    | "PP" :: p :: l :: a :: _ -> d.pprec <- (ios p, (ios l, ios a)) :: d.pprec
    | _ -> ()) (split_sections line);
  d

let grammar_of (d : pdump) : grammar =
  { ntoks = n_of_int d.ntoks; nrules = n_of_int d.nrules; prods = List.rev d.prods_rev;
    start_prod = n_of_int d.start_prod; eof = n_of_int d.eof }

let per_state (d : pdump) (t : (int, 'a) Hashtbl.t) : (n * 'a list) list =
  List.init d.nstates (fun s -> (n_of_int s, List.rev (Hashtbl.find_all t s)))

let dump_of (d : pdump) : dump =
  { d_nstates = n_of_int d.nstates; d_start = n_of_int d.start;
    d_closed = per_state d d.closed_t; d_core = per_state d d.core_t;
    d_edges = per_state d d.edges_t; d_actions = per_state d d.actions_t; d_gotos = per_state d d.gotos_t }

let b2s b = if b then "1" else "0"
