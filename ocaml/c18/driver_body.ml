(* C18 driver.  case line:
     <P|C> <fixed 0|1> <tf0> | <y: id syn warn conf toks> | <l: id syn miss> | <17 settings> | op ; op ; ... | <rejected>
   op:  <t> Y id syn warn conf toks | <t> L id syn miss | <t> S <17 settings> | <t> T <tf> | <t> B
   settings order: yk rec vis ed eoc wae sw ser mod st stc lx lxc lvis led lmod lci
   rejected: the inspector's verdict (C18/InspModel.v: an arbitrary function; here a finite table):
     triples <y_id>:<l_id>:<tf> on which the `test_files` check returns Err; Ok everywhere else
   result: one field per operation, separated by " | ":
     state:  y=<desc@mtime|-> l=<desc@mtime|->   (content descriptors / mtimes of the outputs after the op)
     build:  additionally  r=<ok|err_ysyntax|err_ywarn|err_yconflict|err_lsyntax|panic>
             ps=<1 regenerated|0 not|e error|-> yw=<0|1> lw=<0|1> cy=<desc|-> cl=<desc|->   (clean build) *)
let b_of_int i = i <> 0
let int_of_b b = if b then 1 else 0
let ysrc_of = function
  | [id; syn; warn; conf; toks] ->
    { y_id = nat_of_int id; y_syn = b_of_int syn; y_warn = b_of_int warn; y_conf = b_of_int conf; y_toks = nat_of_int toks }
  | _ -> failwith "ysrc"
let lsrc_of = function
  | [id; syn; miss] -> { l_id = nat_of_int id; l_syn = b_of_int syn; l_miss = b_of_int miss }
  | _ -> failwith "lsrc"
let settings_of = function
  | [yk; rc; vis; ed; eoc; wae; sw; ser; md; st; stc; lx; lxc; lvis; led; lmod; lci] ->
    { p_yk = nat_of_int yk; p_rec = nat_of_int rc; p_vis = nat_of_int vis; p_ed = nat_of_int ed;
      p_eoc = b_of_int eoc; p_wae = b_of_int wae; p_sw = b_of_int sw; p_ser = nat_of_int ser;
      p_mod = nat_of_int md; p_st = nat_of_int st; p_stc = nat_of_int stc; p_lx = nat_of_int lx; p_lxc = nat_of_int lxc; l_vis = nat_of_int lvis; l_ed = nat_of_int led;
      l_mod = nat_of_int lmod; l_ci = nat_of_int lci }
  | _ -> failwith "settings"
let i = int_of_nat
let show_cache c =
  Printf.sprintf "%d.%d.%d.%d.%d.%d.%d.%d.%d.%d.%d.%d" (i c.c_ser) (i c.c_mod) (i c.c_rec) (i c.c_yk)
    (int_of_b c.c_eoc) (int_of_b c.c_sw) (int_of_b c.c_wae) (i c.c_ed) (i c.c_toks) (i c.c_vis) (i c.c_stc) (i c.c_lxc)
let show_y = function
  | None -> "-"
  | Some c -> Printf.sprintf "Y%d:%s:%d.%d" (i c.yc_src.y_id) (show_cache c.yc_cache) (i c.yc_st) (i c.yc_lx)
let show_l = function
  | None -> "-"
  | Some c -> Printf.sprintf "L%d:%d:%d:%d:%d:%d" (i c.lc_src.l_id) (i c.lc_toks) (i c.lc_vis) (i c.lc_mod) (i c.lc_ci) (i c.lc_st)
let fst_opt = function None -> None | Some (a, _) -> Some a
let at f = function None -> "-" | Some (a, mt) -> Printf.sprintf "%s@%d" (f (Some a)) (i mt)
let show_err = function
  | EYSyntax -> "err_ysyntax" | EYWarn -> "err_ywarn" | EYConflict -> "err_yconflict" | ELSyntax -> "err_lsyntax"
  | EInspect -> "err_inspect"
(* manual-lexer flow (C18/TokModel.v).  case line:
     M <fixed 0|1> <tfixed 0|1> | <y> | <17 settings> | <mod modok st adc ren> | op ; op ; ... | <renamed>
   op: <t> Y id syn warn conf toks | <t> S <17 settings> | <t> R mod modok st adc ren | <t> B
   renamed: the abstract function of C18/TokModel.v as a table  <toks>:<ren>:<code>  (code -1, or no entry: some
     renamed token name is not an identifier)
   result, one field per operation: y=<desc@mtime|-> d=<mod>:<desc@mtime>,...   (every module file in OUT_DIR, mods 0..7)
     build: additionally p=<ok1|ok0|err_*> yw=<0|1> ts=<ok1|ok0|err|panic|-> cp=.. cts=.. cy=<desc|-> ct=<desc|-> *)
let tsettings_of = function
  | [md; mok; st; adc; ren] ->
    { t_mod = nat_of_int md; t_modok = b_of_int mok; t_st = nat_of_int st; t_adc = b_of_int adc; t_ren = nat_of_int ren }
  | _ -> failwith "tsettings"
let show_t = function
  | None -> "-"
  | Some c -> Printf.sprintf "T%d:%d:%d:%d" (i c.tc_names) (i c.tc_st) (int_of_b c.tc_adc) (i c.tc_mod)
let show_pres = function
  | POk true -> "ok1" | POk false -> "ok0" | PErr e -> show_err e
let show_tres = function
  | None -> "-" | Some (TOk true) -> "ok1" | Some (TOk false) -> "ok0" | Some TErr -> "err" | Some TPanic -> "panic"
let manual line =
  match String.split_on_char '|' line with
  | [hd; y; c; tc; ops; ren] ->
    let fixed, tfixed = (match split_ws hd with
      | ["M"; f; tf] -> (f = "1", tf = "1")
      | _ -> failwith "head") in
    let table = List.map (fun w -> match String.split_on_char ':' w with
      | [a; b; c] -> ((int_of_string a, int_of_string b), int_of_string c)
      | _ -> failwith "renamed") (split_ws ren) in
    let renamed toks r =
      match List.assoc_opt (int_of_nat toks, int_of_nat r) table with
      | Some n when n >= 0 -> Some (nat_of_int n)
      | _ -> None in
    let ops = List.filter (fun s -> String.trim s <> "") (String.split_on_char ';' ops) in
    let h = List.map (fun o ->
      match split_ws o with
      | t :: "Y" :: r -> (nat_of_int (int_of_string t), MBase (EditY (ysrc_of (List.map int_of_string r))))
      | t :: "S" :: r -> (nat_of_int (int_of_string t), MBase (SetOpt (settings_of (List.map int_of_string r))))
      | t :: "R" :: r -> (nat_of_int (int_of_string t), SetT (tsettings_of (List.map int_of_string r)))
      | [t; "B"] -> (nat_of_int (int_of_string t), MBase Build)
      | _ -> failwith "op") ops in
    let x0 = init_m (ysrc_of (ints_of y)) { l_id = nat_of_int 0; l_syn = true; l_miss = false }
        (settings_of (ints_of c)) (tsettings_of (ints_of tc)) in
    let tr = trace_m renamed fixed tfixed x0 h in
    String.concat " | " (List.map (fun (x, r) ->
      let dir = String.concat "," (List.concat (List.map (fun k ->
        match x.m_tdir (nat_of_int k) with
        | None -> []
        | Some f -> [Printf.sprintf "%d:%s" k (at show_t (Some f))]) [0; 1; 2; 3; 4; 5; 6; 7])) in
      let st = Printf.sprintf "y=%s d=%s" (at show_y x.m_s.s_yout) (if dir = "" then "-" else dir) in
      match r with
      | None -> st
      | Some (res, (cres, (cy, ct))) ->
        Printf.sprintf "%s p=%s yw=%d ts=%s cp=%s cts=%s cy=%s ct=%s" st (show_pres res.mr_p) (int_of_b res.mr_ywritten)
          (show_tres res.mr_t) (show_pres cres.mr_p) (show_tres cres.mr_t) (show_y cy) (show_t ct)) tr)
  | _ -> "BADLINE"
let () =
  iter_lines (fun line ->
    if String.length line > 1 && line.[0] = 'M' && line.[1] = ' ' then manual line else
    match String.split_on_char '|' line with
    | [hd; y; l; c; ops; rej] ->
      let m, fixed, tf0 = (match split_ws hd with
        | [m; f; tf0] -> ((if m = "P" then MParser else MCombined), f = "1", int_of_string tf0)
        | _ -> failwith "head") in
      let rejected = List.map (fun w -> match String.split_on_char ':' w with
        | [a; b; c] -> (int_of_string a, int_of_string b, int_of_string c)
        | _ -> failwith "rejected") (split_ws rej) in
      let verdict y l _ tf = not (List.mem (int_of_nat y.y_id, int_of_nat l.l_id, int_of_nat tf) rejected) in
      let ops = List.filter (fun s -> String.trim s <> "") (String.split_on_char ';' ops) in
      let h = List.map (fun o ->
        match split_ws o with
        | t :: "Y" :: r -> (nat_of_int (int_of_string t), IBase (EditY (ysrc_of (List.map int_of_string r))))
        | t :: "L" :: r -> (nat_of_int (int_of_string t), IBase (EditL (lsrc_of (List.map int_of_string r))))
        | t :: "S" :: r -> (nat_of_int (int_of_string t), IBase (SetOpt (settings_of (List.map int_of_string r))))
        | [t; "T"; tf] -> (nat_of_int (int_of_string t), EditT (nat_of_int (int_of_string tf)))
        | [t; "B"] -> (nat_of_int (int_of_string t), IBase Build)
        | _ -> failwith "op") ops in
      let s0 = init_i (ysrc_of (ints_of y)) (lsrc_of (ints_of l)) (settings_of (ints_of c)) (nat_of_int tf0) in
      let tr = trace_i verdict m fixed s0 h in
      String.concat " | " (List.map (fun (x, r) ->
        let s = x.i_s in
        let st = Printf.sprintf "y=%s l=%s" (at show_y s.s_yout) (at show_l s.s_lout) in
        match r with
        | None -> st
        | Some (res, (cy, cl)) ->
          let rs = (match res with
            | Done b ->
              Printf.sprintf "r=%s ps=%s yw=%d lw=%d"
                (match b.b_err with None -> "ok" | Some e -> show_err e)
                (match b.b_pstage with None -> "-" | Some (POk true) -> "1" | Some (POk false) -> "0" | Some (PErr _) -> "e")
                (int_of_b b.b_ywritten) (int_of_b b.b_lwritten)
            | Panic -> "r=panic ps=? yw=? lw=0"
            | OutOfFuel -> "r=fuel") in
          Printf.sprintf "%s %s cy=%s cl=%s" st rs (show_y cy) (show_l cl)) tr)
    | _ -> "BADLINE")
