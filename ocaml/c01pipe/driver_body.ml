(* C01 pipeline driver: one `P` record of the c02 harness per line (grammar dump with TP/PP, automaton
   dump, `X` conflict counts, TR trace sections)
     -> FY <nstates> rr=<k> sr=<k> S=<0|1> C=<0|1> E=<0|1> single=<0|1> # A s tok (S t|R p|A) # T s rule t
      | FYFAIL panic|fuel|arconflict
   = from_yacc_mirror (theories/C01/Pipeline.v: pager_mirror replaying the implementation's recorded key
   orders, then table_mirror on the resulting graph in list order) with the implementation's
   token/production precedences; max_st = 2^32 - 1 (StorageT = u32); fuel = |trace| + 2.  The cells of a
   table do not depend on the iteration orders of StateTable::new (C03_table_mirror_meets_spec), so the
   list order is used for them. *)
let assoc_of_int = function 0 -> ALeft | 1 -> ARight | _ -> ANonassoc
let prec_list l = List.map (fun (k, (lv, a)) -> (n_of_int k, { p_level = n_of_int lv; p_kind = assoc_of_int a })) (List.rev l)

let () =
  iter_lines (fun line ->
    if String.length line < 2 || String.sub line 0 2 <> "G " then "SKIP" else
    let d = parse_dump line in
    let g = grammar_of d in
    let secs = split_sections line in
    let rec pairs = function
      | p :: dt :: r -> (n_of_int (int_of_string p), nat_of_int (int_of_string dt)) :: pairs r
      | _ -> [] in
    let orders = List.filter_map (function "TR" :: _ :: r -> Some (pairs r) | _ -> None) secs in
    let tp = precs_of (prec_list d.tprec) and pp = precs_of (prec_list d.pprec) in
    match from_yacc_mirror g tp pp (n_of_int 4294967295) (nat_of_int (List.length orders + 2)) orders [] with
    | Panic -> "FYFAIL panic"
    | OutOfFuel -> "FYFAIL fuel"
    | Done None -> "FYFAIL arconflict"
    | Done (Some bt) ->
        let a = built_automaton bt in
        let b = Buffer.create 4096 in
        let n = int_of_n a.nstates in
        Buffer.add_string b (Printf.sprintf "FY %d rr=%d sr=%d S=%s C=%s E=%s single=%s" n
          (List.length bt.b_table.tb_rr) (List.length bt.b_table.tb_sr)
          (b2s (validS g a)) (b2s (validC g a)) (b2s (validE g a)) (b2s (single_candidate g a)));
        for s = 0 to n - 1 do
          let sn = n_of_int s in
          for t = 0 to d.ntoks - 1 do
            (match a.action sn (n_of_int t) with
             | Shift u -> Buffer.add_string b (Printf.sprintf " # A %d %d S %d" s t (int_of_n u))
             | Reduce p -> Buffer.add_string b (Printf.sprintf " # A %d %d R %d" s t (int_of_n p))
             | Accept -> Buffer.add_string b (Printf.sprintf " # A %d %d A" s t)
             | Err -> ())
          done;
          for r = 0 to d.nrules - 1 do
            (match a.goto sn (n_of_int r) with
             | Some u -> Buffer.add_string b (Printf.sprintf " # T %d %d %d" s r (int_of_n u))
             | None -> ())
          done
        done;
        Buffer.contents b)
