#!/bin/bash
# Build the extracted model runner for one property:  ocaml/build.sh c19
# (extraction runs from the compiled Coq project; ExtrOcamlBasic only)
set -euo pipefail
p="$1"                       # e.g. c19
P=$(echo "$p" | tr a-z A-Z)  # C19
here="$(cd "$(dirname "$0")" && pwd)"
out="$here/../.work/ocaml/$p"
mkdir -p "$out"
cd "$out"
rm -f model.ml model.mli
cp "$here/../coq/extract/$P.v" "Extract_$P.v"
coqc -q -Q "$here/../coq/theories" GV "Extract_$P.v" > extract.log 2>&1 || { cat extract.log; exit 1; }
extra=""; [ -f "$here/$p/uses_dump" ] && extra="$here/common/dump.ml"
{ echo "open Model"; cat "$here/common/conv.ml" $extra "$here/$p/driver_body.ml"; } > driver.ml
ocamlfind ocamlopt -O3 -w -a -package str -linkpkg model.mli model.ml driver.ml -o "gvm_$p" 2> ocaml.log || \
ocamlfind ocamlopt -w -a -package str -linkpkg model.mli model.ml driver.ml -o "gvm_$p" 2> ocaml.log || { cat ocaml.log; exit 1; }
echo "built $out/gvm_$p"
