(* C11 driver.  case line: `src=<hex|-> pos=<n> awc=<0|1> pe=<0|1> iw=<0|1> bad=<n,n,..|-> fx=<9 digits hdr tgt prefix dangling iw
   esc-table decl-blanks trim-blank esc-octal>` (a shorter fx is padded with 0 = that repair not applied)
   or `un=<hex|-> pe=<0|1> fx=<0|1> kw=<0|1> et=<0|1> eo=<0|1>` (unescape alone; kw = white-space repair applied AND ignore_whitespace on;
   et = escape-table repair, default 1; eo = only octal digits are kept escapes, default 1)
   or `tr=<hex|-> tb=<0|1>` (trim_end_unescaped alone; tb = trims blanks only (repaired), default 1).
   result: the OK / ERRS section of harness/src/bin/c11.rs, or PANIC / FUEL. *)
let bytes_of_hex (h : string) : int list =
  if h = "-" then [] else
  List.init (String.length h / 2) (fun i -> int_of_string ("0x" ^ String.sub h (2 * i) 2))
(* UTF-8 decoding of a valid byte sequence *)
let rec cps_of_bytes = function
  | [] -> []
  | b :: r when b < 0x80 -> b :: cps_of_bytes r
  | b :: b1 :: r when b < 0xE0 -> (((b land 0x1F) lsl 6) lor (b1 land 0x3F)) :: cps_of_bytes r
  | b :: b1 :: b2 :: r when b < 0xF0 ->
      (((b land 0x0F) lsl 12) lor ((b1 land 0x3F) lsl 6) lor (b2 land 0x3F)) :: cps_of_bytes r
  | b :: b1 :: b2 :: b3 :: r ->
      (((b land 0x07) lsl 18) lor ((b1 land 0x3F) lsl 12) lor ((b2 land 0x3F) lsl 6) lor (b3 land 0x3F)) :: cps_of_bytes r
  | _ -> failwith "bad utf8"
let text_of_hex h = List.map n_of_int (cps_of_bytes (bytes_of_hex h))
let hex_of_text (t : n list) : string =
  let b = Buffer.create 16 in
  let add x = Buffer.add_string b (Printf.sprintf "%02x" x) in
  List.iter (fun c ->
    let c = int_of_n c in
    if c < 0x80 then add c
    else if c < 0x800 then (add (0xC0 lor (c lsr 6)); add (0x80 lor (c land 0x3F)))
    else if c < 0x10000 then (add (0xE0 lor (c lsr 12)); add (0x80 lor ((c lsr 6) land 0x3F)); add (0x80 lor (c land 0x3F)))
    else (add (0xF0 lor (c lsr 18)); add (0x80 lor ((c lsr 12) land 0x3F)); add (0x80 lor ((c lsr 6) land 0x3F)); add (0x80 lor (c land 0x3F)))) t;
  Buffer.contents b
let kind_name = function
  | PrematureEnd -> "PrematureEnd" | RoutinesNotSupported -> "RoutinesNotSupported"
  | UnknownDeclaration -> "UnknownDeclaration" | MissingSpace -> "MissingSpace" | InvalidName -> "InvalidName"
  | UnknownStartState -> "UnknownStartState" | DuplicateStartState -> "DuplicateStartState"
  | InvalidStartState -> "InvalidStartState" | InvalidStartStateName -> "InvalidStartStateName"
  | DuplicateName -> "DuplicateName" | RegexError -> "RegexError" | VerbatimNotSupported -> "VerbatimNotSupported"
let op_code = function ReplaceStack -> "R" | Push -> "+" | Pop -> "-"
let kv line =
  List.filter_map (fun t -> match String.index_opt t '=' with
    | Some i -> Some (String.sub t 0 i, String.sub t (i + 1) (String.length t - i - 1))
    | None -> None) (split_ws line)
let get d k def = try List.assoc k d with Not_found -> def
let show_out = function Done t -> "x" ^ hex_of_text t | Panic -> "PANIC" | OutOfFuel -> "FUEL"
let () =
  iter_lines (fun line ->
    let d = kv line in
    if List.mem_assoc "un" d then
      show_out (unescape_sel (get d "et" "1" = "1") (get d "eo" "1" = "1") (get d "fx" "0" = "1") (get d "kw" "0" = "1") (text_of_hex (get d "un" "-")) (get d "pe" "0" = "1"))
    else if List.mem_assoc "tr" d then
      show_out (trim_end_unescaped_gen (trim_pred (get d "tb" "1" = "1")) (text_of_hex (get d "tr" "-")))
    else
    let src = text_of_hex (get d "src" "-") in
    let pos = nat_of_int (int_of_string (get d "pos" "0")) in
    let bad = let b = get d "bad" "-" in
      if b = "-" then [] else List.map (fun x -> nat_of_int (int_of_string x)) (String.split_on_char ',' b) in
    let f = get d "fx" "000000000" in
    let f = if String.length f < 9 then f ^ String.make (9 - String.length f) '0' else f in
    let fx = { fix_header = f.[0] = '1'; fix_target_span = f.[1] = '1';
               fix_prefix_unescape = f.[2] = '1'; fix_dangling = f.[3] = '1'; fix_iw = f.[4] = '1';
               fix_esc_table = f.[5] = '1'; fix_decl_blanks = f.[6] = '1'; fix_trim_blank = f.[7] = '1';
               fix_esc_octal = f.[8] = '1' } in
    match lex_from_str fx src pos (get d "awc" "0" = "1") (get d "pe" "0" = "1") (get d "iw" "0" = "1") bad with
    | Panic -> "PANIC" | OutOfFuel -> "FUEL"
    | Done (PErrs errs) ->
      let b = Buffer.create 64 in
      Buffer.add_string b (Printf.sprintf "ERRS %d" (List.length errs));
      List.iter (fun e ->
        Buffer.add_string b (Printf.sprintf " ; X %s %d" (kind_name e.e_kind) (List.length e.e_spans));
        List.iter (fun (s, t) -> Buffer.add_string b (Printf.sprintf " %d %d" (int_of_nat s) (int_of_nat t))) e.e_spans) errs;
      Buffer.contents b
    | Done (POk st) ->
      let b = Buffer.create 256 in
      Buffer.add_string b (Printf.sprintf "OK %d %d" (List.length st.rules) (List.length st.start_states));
      List.iter (fun r ->
        let (s, e) = r.r_name_span in
        Buffer.add_string b (Printf.sprintf " ; r %s %d %d x%s %s %s"
          (match r.r_name with Some n -> "x" ^ hex_of_text n | None -> "-")
          (int_of_nat s) (int_of_nat e) (hex_of_text r.r_re_str)
          (match r.r_start_states with [] -> "-" | l -> String.concat "," (List.map (fun x -> string_of_int (int_of_nat x)) l))
          (match r.r_target with Some (id, o) -> Printf.sprintf "%d:%s" (int_of_nat id) (op_code o) | None -> "-"))) st.rules;
      List.iter (fun s ->
        let (a, e) = s.ss_span in
        Buffer.add_string b (Printf.sprintf " ; s %d x%s %d %d %d" (int_of_nat s.ss_id) (hex_of_text s.ss_name)
          (if s.ss_exclusive then 1 else 0) (int_of_nat a) (int_of_nat e))) st.start_states;
      Buffer.contents b)
