(* C17 mirror side: reads the harness line (grammar dump; later sections ignored), runs the
   extracted MIRRORS of YaccFirsts::new / YaccFollows::new (proved exact and terminating for every
   well-formed grammar: Properties/C17mirror.v) with the fuel of the termination theorems, prints
     WF b # NUL r… # FI r tok… # FO r tok… (repaired loop) # FOORIG r tok… (original one-symbol lookahead)
   or  … # FIRSTS fuel|panic  /  # FOLLOWS fuel|panic  when a loop gives no table (excluded by the theorems) *)
let pairs_by_first (n : int) (ps : (n * n) list) : int list array =
  let a = Array.make (max n 1) [] in
  List.iter (fun (r, t) -> let r = int_of_n r in if r >= 0 && r < n then a.(r) <- int_of_n t :: a.(r)) ps;
  Array.map (fun l -> List.sort_uniq compare l) a

let add_sets b tag n (ps : (n * n) list) =
  let a = pairs_by_first n ps in
  for r = 0 to n - 1 do
    Buffer.add_string b (Printf.sprintf " # %s %d" tag r);
    List.iter (fun t -> Buffer.add_string b (Printf.sprintf " %d" t)) a.(r)
  done

let () =
  iter_lines (fun line ->
    let line = if String.length line > 11 && String.sub line 0 11 = "HANGCOST # " then String.sub line 11 (String.length line - 11) else line in
    if String.length line < 2 || String.sub line 0 2 <> "G " then "SKIP" else
    let d = parse_dump line in
    let g = grammar_of d in
    let n = d.nrules in
    let b = Buffer.create 512 in
    Buffer.add_string b (Printf.sprintf "WF %s" (b2s (wf_grammar g)));
    (match firsts_mirror (firsts_fuel g) g with
     | OutOfFuel -> Buffer.add_string b " # FIRSTS fuel"
     | Panic -> Buffer.add_string b " # FIRSTS panic"
     | Done (nl, fs) ->
        Buffer.add_string b " # NUL";
        List.iter (fun r -> Buffer.add_string b (Printf.sprintf " %d" r)) (List.sort_uniq compare (List.map int_of_n nl));
        add_sets b "FI" n fs;
        List.iter (fun (fixed, tag) ->
          match follows_mirror fixed (follows_fuel g) g nl fs with
          | OutOfFuel -> Buffer.add_string b (Printf.sprintf " # FOLLOWS%s fuel" (if fixed then "" else "ORIG"))
          | Panic -> Buffer.add_string b (Printf.sprintf " # FOLLOWS%s panic" (if fixed then "" else "ORIG"))
          | Done fo -> add_sets b tag n fo) [(true, "FO"); (false, "FOORIG")]);
    Buffer.contents b)
