(* C05/C07 driver: input = one output line of the `repair` harness.  For every input of the
   line: replay the mirror driver with the implementation's FIRST sequence of each error,
   compare errors and value, evaluate valid_repair on EVERY reported sequence, run the plain
   interpreter on the original and on the repaired input.  Prints facts; Python judges. *)
let rec pp_vtree g b = function
  | VLeaf (a, i, f) ->
      Buffer.add_string b (Printf.sprintf (if f then "[%d %d f]" else "[%d %d]") (int_of_n a) (int_of_nat i))
  | VNode (p, kids) ->
      Buffer.add_string b (Printf.sprintf "(%d" (int_of_n (lhs g p)));
      List.iter (fun k -> Buffer.add_char b ' '; pp_vtree g b k) kids;
      Buffer.add_char b ')'

(* shape: productions and leaf tokens only *)
let rec shape_v b = function
  | VLeaf (a, _, _) -> Buffer.add_string b (Printf.sprintf "[%d]" (int_of_n a))
  | VNode (p, kids) -> Buffer.add_string b (Printf.sprintf "(%d" (int_of_n p)); List.iter (shape_v b) kids; Buffer.add_char b ')'
let rec shape_t b = function
  | Leaf (a, _) -> Buffer.add_string b (Printf.sprintf "[%d]" (int_of_n a))
  | Node (p, kids) -> Buffer.add_string b (Printf.sprintf "(%d" (int_of_n p)); List.iter (shape_t b) kids; Buffer.add_char b ')'
let str_of f x = let b = Buffer.create 64 in f b x; Buffer.contents b

type ierr = { ipos : int; ist : int; seqs : (repair * int) list list }   (* step, lexeme idx (-1 for Ins) *)
type icase = { toks : int list; mutable errs : ierr list; mutable value : string; mutable ms : int }

let parse_step (s : string) : repair * int =
  let n = int_of_string (String.sub s 1 (String.length s - 1)) in
  match s.[0] with
  | 'I' -> (Ins (n_of_int n), -1)
  | 'D' -> (Del, n)
  | _ -> (Shf, n)

let parse_inputs (secs : string list list) : icase list =
  let cases = ref [] in
  List.iter (fun sec ->
    match sec, !cases with
    | "I" :: toks, _ -> cases := { toks = List.map int_of_string toks; errs = []; value = ""; ms = 0 } :: !cases
    | "ER" :: p :: s :: _, c :: _ -> c.errs <- { ipos = int_of_string p; ist = int_of_string s; seqs = [] } :: c.errs
    | "RS" :: steps, c :: _ ->
        (match c.errs with
         | e :: rest -> c.errs <- { e with seqs = List.map parse_step steps :: e.seqs } :: rest
         | [] -> ())
    | "VL" :: v, c :: _ -> c.value <- String.concat " " v
    | "TM" :: m :: _, c :: _ -> c.ms <- int_of_string m
    | _ -> ()) secs;
  List.rev_map (fun c -> c.errs <- List.rev_map (fun e -> { e with seqs = List.rev e.seqs }) c.errs; c) !cases

let plain_str g a fuel input =
  match run g a fuel input with
  | RAccept t -> ("acc", Some t)
  | RReject (k, st) -> (Printf.sprintf "rej:%d:%d" (int_of_nat k) (int_of_n st), None)
  | RPanic -> ("panic", None)
  | ROutOfFuel -> ("fuel", None)

let () =
  iter_lines (fun line ->
    if String.length line < 2 || String.sub line 0 2 <> "G " then "SKIP" else
    try
    let secs = split_sections line in
    let d = parse_dump line in
    let g = grammar_of d in
    let dd = dump_of d in
    let a = of_dump dd in
    let pn = ref 3 in
    List.iter (function "KN" :: n :: _ -> pn := int_of_string n | _ -> ()) secs;
    let pN = nat_of_int !pn in
    let nprods = List.length g.prods in
    let b = Buffer.create 256 in
    Buffer.add_string b (Printf.sprintf "V wf=%s S=%s single=%s nse=%s" (b2s (wf_grammar g)) (b2s (validS g a)) (b2s (single_candidate g a))
      (b2s (dump_no_shift_eof g.eof dd)));
    List.iter (fun (c0 : icase) ->
     try
      (* model cap: the mirror replays at most [ecap] errors of one input (the implementation can report the
         same error hundreds of thousands of times when a repair does not move it on) *)
      let ecap = 300 in
      let rec take n = function [] -> [] | x :: r -> if n <= 0 then [] else x :: take (n - 1) r in
      let trunc = List.length c0.errs > ecap in
      let c = if trunc then { c0 with errs = take ecap c0.errs } else c0 in
      let input = List.map n_of_int c.toks in
      let len = List.length c.toks in
      let ifuel = nat_of_int (400 + 20 * (len + 2) * (nprods + 2)) in
      let pfuel = nat_of_int (400 + 40 * (len + 8) * (nprods + 2)) in
      let ofuel = nat_of_int (4 * len + 20 + 2 * List.length c.errs) in
      let oracle = List.map (fun e -> match e.seqs with [] -> None | s :: _ -> Some (List.map fst s)) c.errs in
      let (pl, _) = plain_str g a pfuel input in
      let r = run_recover g a input ifuel pN ofuel oracle [] O in
      let (mstat, mval, mes) = match r with
        | DDone (v, es) -> ("done", v, es)
        | DStuck (SPanic, es) -> ("panic", None, es)
        | DStuck (SInnerFuel, es) -> ("ifuel", None, es)
        | DStuck (SOuterFuel, es) -> ("ofuel", None, es) in
      (* when truncated the mirror's last error is the artefact of the exhausted oracle *)
      let mes_shown = if trunc then take ecap mes else mes in
      let merrs = String.concat "," (List.map (fun e ->
        Printf.sprintf "%d:%d:%s" (int_of_nat e.e_pos) (int_of_n e.e_state) (b2s e.e_repaired)) mes_shown) in
      (* a parse that did not return: does the search's lr_cactus loop from the first error configuration?
         (Insert of some token, or a Shift after deleting k lexemes, runs out of fuel) *)
      let probe = if c.value <> "hang" && c.value <> "crash" then "" else
        (match mes with
         | e :: _ ->
            (* bounded breadth-first walk over the search's moves (Insert t / Delete / Shift, see Repair/Search.v)
               from the first error configuration: which move runs out of fuel? *)
            let hit = ref "" in
            let seen = Hashtbl.create 64 in
            let frontier = ref [ (e.e_stk, int_of_nat e.e_pos, "") ] in
            let depth = ref 0 in
            while !hit = "" && !depth < 5 && !frontier <> [] do
              incr depth;
              let next = ref [] in
              List.iter (fun (stk, p, path) ->
                if !hit = "" then begin
                  let try_adv tag tok leaf k =
                    (match advance g a ifuel stk (n_of_int tok) leaf with
                     | AFuel -> if !hit = "" then hit := path ^ tag
                     | r -> k r) in
                  let push stk' p' path' =
                    let key = (List.map (fun (s, _) -> int_of_n s) stk', p') in
                    if not (Hashtbl.mem seen key) && List.length !next < 400 then
                      (Hashtbl.add seen key (); next := (stk', p', path') :: !next) in
                  for t = 0 to int_of_n g.ntoks - 1 do
                    if t <> int_of_n g.eof then
                      try_adv (Printf.sprintf "I%d" t) t (VLeaf (n_of_int t, nat_of_int p, true))
                        (function AShift s' -> push s' p (path ^ Printf.sprintf "I%d." t) | _ -> ())
                  done;
                  if p < len then push stk (p + 1) (path ^ "D.");
                  let tk = if p < len then List.nth c.toks p else int_of_n g.eof in
                  try_adv "S" tk (VLeaf (n_of_int tk, nat_of_int p, false))
                    (function AShift s' -> push s' (p + 1) (path ^ "S.")
                            | AError s' | AAccept s' -> push s' p (path ^ "s.")
                            | _ -> ())
                end) !frontier;
              frontier := List.rev !next
            done;
            !hit
         | [] -> "") in
      (* value comparison *)
      let mvs = match mval with Some t -> "acc " ^ str_of (pp_vtree g) t | None -> "none" in
      let vcmp = if mstat <> "done" then "na" else if mvs = c.value then "same" else "diff" in
      (* every reported sequence of every error the two sides agree on *)
      let bad = ref [] and nseq = ref 0 and nskip = ref 0 in
      let cap = 1500 in
      let rec walk i (ies : ierr list) (mes : err list) =
        match ies, mes with
        | ie :: ies', me :: mes' when ie.ipos = int_of_nat me.e_pos && ie.ist = int_of_n me.e_state ->
            let total = List.length ie.seqs in
            let stride = if total <= cap then 1 else (total + cap - 1) / cap in
            List.iteri (fun j seq ->
              (* model cap: of more than [cap] sequences of one error a strided sample (the first included) *)
              if j mod stride <> 0 then incr nskip else begin
              incr nseq;
              (* lexemes named by Delete/Shift are the ones at the running position *)
              let cur = ref ie.ipos and lexbad = ref (-1) in
              List.iteri (fun k (st, idx) ->
                match st with
                | Ins _ -> ()
                | Del | Shf -> (if idx <> !cur && !lexbad < 0 then lexbad := k); incr cur) seq;
              let rs = List.map fst seq in
              if !lexbad >= 0 then bad := Printf.sprintf "%d.%d.lexidx%d" i j !lexbad :: !bad
              else if seq = [] then bad := Printf.sprintf "%d.%d.empty" i j :: !bad
              else if not (valid_repair g a input ifuel pN me.e_stk me.e_pos rs) then begin
                let why = match apply_seq g a input ifuel rs O me.e_stk me.e_pos None with
                  | Done ((_, _), Some k) -> Printf.sprintf "step%d" (int_of_nat k)
                  | Done ((stk', la'), None) ->
                      (match parse_ahead g a input ifuel pN stk' la' with
                       | HError (p, s) -> Printf.sprintf "ahead-err%d" (int_of_nat p)
                       | HPast -> "ahead-past" | HPanic -> "ahead-panic" | HFuel -> "ahead-fuel"
                       | _ -> "ahead-?")
                  | Panic -> "panic"
                  | OutOfFuel -> "fuel" in
                bad := Printf.sprintf "%d.%d.%s" i j why :: !bad
              end end) ie.seqs;
            walk (i + 1) ies' mes'
        | _ -> () in
      walk 0 c.errs mes;
      (* plain parse of the repaired input: first sequences applied, from the last error backwards *)
      let rep_input = List.fold_right (fun (e : ierr) inp ->
        match e.seqs with [] -> inp | s :: _ -> repaired inp (nat_of_int e.ipos) (List.map fst s)) c.errs input in
      let rfuel = nat_of_int (400 + 40 * (List.length rep_input + 8) * (nprods + 2)) in
      let (rp, rt) = plain_str g a rfuel rep_input in
      let rshape = match rt, mval with
        | Some t, Some v -> if str_of shape_t t = str_of shape_v v then "same" else "diff"
        | Some _, None -> "noval"
        | None, _ -> "na" in
      Buffer.add_string b (Printf.sprintf " # J plain=%s mirror=%s merrs=%s vcmp=%s nseq=%d nskip=%d trunc=%s probe=%s bad=%s rep=%s rshape=%s replen=%d"
        pl mstat merrs vcmp !nseq !nskip (b2s trunc) probe (String.concat "," (List.rev !bad)) rp rshape (List.length rep_input));
      if vcmp = "diff" then Buffer.add_string b (" # MV " ^ mvs)
     with Stack_overflow -> Buffer.add_string b " # J mirror=overflow") (parse_inputs secs);
    Buffer.contents b
    with Stack_overflow -> "SKIP overflow")
