(* CLOSE driver (C01, table construction): one `lr` dump per line ->
     CL wf=<0|1> first=<0|1> states=<n> orders=<k>
     # KB st                      items_ok (the theorems' hypothesis) is false of the core / closed state st
     # MC st p dot la…            one section per item of close_mirror(core(st)), canonical (sorted, la sorted);
     #                            printed once when every key order gave the same set
     # MN st n                    number of items of that result (so that an empty result is visible)
     # MO st ord p dot la…        result under key order `ord` when it differs from order 0 (MON st ord n likewise)
     # MP st ord panic|fuel       the mirror did not return Done under key order `ord` (fuel = close_fuel exactly)
     # MG s sym t p dot la…       one section per item of goto_mirror(closed_impl(s), sym) for every edge s --sym--> t
     # MGN s sym t n              number of items of that result
     # MGO s sym t                the result differs (as a set) when closed_impl(s) is traversed in reverse order
     # MGP s sym t panic          goto_mirror did not return Done
   FIRST / nullable are the proved-exact references first_ref (C17 ties YaccFirsts to them). *)
let canon_items l =
  List.sort compare
    (List.map (fun ((p, d), la) -> (int_of_n p, int_of_nat d, List.sort_uniq compare (List.map int_of_n la))) l)

let perm k st l =
  match k with
  | 0 -> l
  | 1 -> List.rev l
  | _ ->
      let a = List.mapi (fun i x -> (((i * 7919 + st * 104729 + k * 31 + 13) mod 1009, i), x)) l in
      List.map snd (List.sort compare a)

let n_orders = 3

let add_items b tag pre items =
  List.iter (fun (p, d, la) ->
    Buffer.add_string b (Printf.sprintf " # %s %s %d %d" tag pre p d);
    List.iter (fun a -> Buffer.add_string b (Printf.sprintf " %d" a)) la) items

let () =
  iter_lines (fun line ->
    if String.length line < 2 || String.sub line 0 2 <> "G " then "SKIP" else
    let d = parse_dump line in
    let g = grammar_of d in
    let b = Buffer.create 4096 in
    let fr = first_ref g in
    Buffer.add_string b (Printf.sprintf "CL wf=%s first=%s states=%d orders=%d" (b2s (wf_grammar g))
      (b2s (match fr with Some _ -> true | None -> false)) d.nstates n_orders);
    (match fr with
     | None -> ()
     | Some (nl, fs) ->
       for st = 0 to d.nstates - 1 do
         let core = List.rev (Hashtbl.find_all d.core_t st) in
         let closed = List.rev (Hashtbl.find_all d.closed_t st) in
         if not (items_ok g core && items_ok g closed) then Buffer.add_string b (Printf.sprintf " # KB %d" st);
         (* close under several orders of the initial keys (and of the association list itself) *)
         let results = List.init n_orders (fun k ->
           let keys = List.map fst (perm k st core) in
           let kl = perm ((k + 1) mod n_orders) st core in
           match close_mirror g nl fs keys kl (close_fuel g keys) with
           | Done c -> Ok (canon_items c)
           | Panic -> Error "panic"
           | OutOfFuel -> Error "fuel") in
         let r0 = List.hd results in
         (match r0 with
          | Ok items -> add_items b "MC" (string_of_int st) items;
                        Buffer.add_string b (Printf.sprintf " # MN %d %d" st (List.length items))
          | Error e -> Buffer.add_string b (Printf.sprintf " # MP %d 0 %s" st e));
         List.iteri (fun k r ->
           if k > 0 && r <> r0 then
             match r with
             | Ok items -> add_items b "MO" (Printf.sprintf "%d %d" st k) items;
                           Buffer.add_string b (Printf.sprintf " # MON %d %d %d" st k (List.length items))
             | Error e -> Buffer.add_string b (Printf.sprintf " # MP %d %d %s" st k e)) results;
         (* goto on the implementation's closed state for every edge *)
         List.iter (fun (sy, tg) ->
           let code = (match sy with T t -> 2 * int_of_n t | R r -> 2 * int_of_n r + 1) in
           let pre = Printf.sprintf "%d %d %d" st code (int_of_n tg) in
           match goto_mirror g closed sy, goto_mirror g (List.rev closed) sy with
           | Done a, Done a' ->
               let ca = canon_items a in
               add_items b "MG" pre ca;
               Buffer.add_string b (Printf.sprintf " # MGN %s %d" pre (List.length ca));
               if canon_items a' <> ca then Buffer.add_string b (Printf.sprintf " # MGO %s" pre)
           | _, _ -> Buffer.add_string b (Printf.sprintf " # MGP %s panic" pre))
           (List.rev (Hashtbl.find_all d.edges_t st))
       done);
    Buffer.contents b)
