(* C10 round trip: runs the extracted pretty-printer [print], the AST [ast_of] the printed text
   denotes and [warnings_of] (C10/YpPrint.v) on a description of (fa, fp, ag, lay).

   case line (tokens separated by blanks):
     <fa:0|1>[<fp:0|1>[<fu:0|1>]] <ndecls> decl*  <nrules> rule*  <programs>  <nlay> entry*
       (first token: one to three binary digits; fa = repaired action span, fp = repaired
        production span, fu = %prec tokens of reachable productions count as used (/repo 4ff022d);
        a missing digit means 0)
     decl  := S <name> | T <n> <name>*n | L|R|N <n> <name>*n | E <name> <value> | A <n> <name>*n
            | X <hexnum> | Y <hexnum>                      (%expect / %expect-rr values, hex)
            | C <type>                                     (%actiontype)
            | M <name> <type>                              (%parse-param)
            | G <type>                                     (%parse-generics)
            | U <n> sym*n                                  (%expect-unused)
            | I <n> <name>*n                               (%implicit_tokens)
     rule  := r <name> <type> <nprods> prod*               type := - | ^ <text>   (Grmtools: -> type)
     programs := - | P <text>
     prod  := p <nsyms> sym* prec action
     sym   := r <name> | t <name>
     prec  := - | % <name>
     action:= - | { <text>
     entry := g <path> <text> | q <path> b|s|d | t <path> <text> | f <path> 0|1
     <name>/<value>/<text> := x<hex of the UTF-8 bytes>   (x alone = empty)
     <path> := decimal indices joined by '.', the empty path is '-'   (the path scheme of YpPrint.v)
   layout defaults for paths without an entry: gap "", style bare, txt "", flag false.

   result line:  x<hex of (print lay ag), UTF-8> # <transcript of (ast_of fa fp lay ag), no errors,
   warnings (warnings_of fa fp fu lay ag)> — the transcript format of harness/src/bin/c10yp.rs
   ([dump] below is a copy of the one in ocaml/c10yp/driver_body.ml). *)
let unhex (s : string) : int list =
  (* hex -> bytes -> code points (input is valid UTF-8) *)
  let n = String.length s / 2 in
  let b = Array.init n (fun i -> int_of_string ("0x" ^ String.sub s (2 * i) 2)) in
  let rec go i acc =
    if i >= n then List.rev acc
    else
      let c = b.(i) in
      if c < 0x80 then go (i + 1) (c :: acc)
      else if c < 0xE0 then go (i + 2) ((((c land 0x1F) lsl 6) lor (b.(i + 1) land 0x3F)) :: acc)
      else if c < 0xF0 then
        go (i + 3) ((((c land 0x0F) lsl 12) lor ((b.(i + 1) land 0x3F) lsl 6) lor (b.(i + 2) land 0x3F)) :: acc)
      else
        go (i + 4)
          ((((c land 0x07) lsl 18) lor ((b.(i + 1) land 0x3F) lsl 12) lor ((b.(i + 2) land 0x3F) lsl 6)
            lor (b.(i + 3) land 0x3F)) :: acc)
  in
  go 0 []

let xh (s : n list) : string =
  let b = Buffer.create 16 in
  Buffer.add_char b 'x';
  let byte x = Buffer.add_string b (Printf.sprintf "%02x" x) in
  List.iter (fun c ->
    let c = int_of_n c in
    if c < 0x80 then byte c
    else if c < 0x800 then (byte (0xC0 lor (c lsr 6)); byte (0x80 lor (c land 0x3F)))
    else if c < 0x10000 then
      (byte (0xE0 lor (c lsr 12)); byte (0x80 lor ((c lsr 6) land 0x3F)); byte (0x80 lor (c land 0x3F)))
    else
      (byte (0xF0 lor (c lsr 18)); byte (0x80 lor ((c lsr 12) land 0x3F));
       byte (0x80 lor ((c lsr 6) land 0x3F)); byte (0x80 lor (c land 0x3F)))) s;
  Buffer.contents b

(* N -> lower-case hex without leading zeros (values may exceed OCaml's int) *)
let hex_of_n (x : n) : string =
  let rec bits = function XH -> [1] | XO p -> 0 :: bits p | XI p -> 1 :: bits p in
  match x with
  | N0 -> "0"
  | Npos p ->
    let bs = bits p in
    let rec grp = function
      | [] -> []
      | a :: b :: c :: d :: r -> (a + 2 * b + 4 * c + 8 * d) :: grp r
      | l -> let rec v = function [] -> 0 | x :: r -> x + 2 * v r in [v l] in
    String.concat "" (List.rev_map (Printf.sprintf "%x") (grp bs))

let sp (s, e) = Printf.sprintf "%d %d" (int_of_nat s) (int_of_nat e)
let sym = function
  | SRule (n, l) -> Printf.sprintf " R %s %s" (xh n) (sp l)
  | SToken (n, l) -> Printf.sprintf " T %s %s" (xh n) (sp l)

let kind_name (k : ekind) : string =
  let a n s = n ^ ":" ^ xh s in
  match k with
  | IllegalInteger -> "IllegalInteger" | IllegalName -> "IllegalName" | IllegalString -> "IllegalString"
  | IncompleteRule -> "IncompleteRule" | IncompleteComment -> "IncompleteComment"
  | IncompleteAction -> "IncompleteAction" | MissingColon -> "MissingColon"
  | MissingRightArrow -> "MissingRightArrow" | MismatchedBrace -> "MismatchedBrace"
  | NonEmptyProduction -> "NonEmptyProduction" | PrematureEnd -> "PrematureEnd"
  | ProductionNotTerminated -> "ProductionNotTerminated" | ProgramsNotSupported -> "ProgramsNotSupported"
  | UnknownDeclaration -> "UnknownDeclaration" | PrecNotFollowedByToken -> "PrecNotFollowedByToken"
  | DuplicatePrecedence -> "DuplicatePrecedence"
  | DuplicateAvoidInsertDeclaration -> "DuplicateAvoidInsertDeclaration"
  | DuplicateImplicitTokensDeclaration -> "DuplicateImplicitTokensDeclaration"
  | DuplicateExpectDeclaration -> "DuplicateExpectDeclaration"
  | DuplicateExpectRRDeclaration -> "DuplicateExpectRRDeclaration"
  | DuplicateStartDeclaration -> "DuplicateStartDeclaration"
  | DuplicateActiontypeDeclaration -> "DuplicateActiontypeDeclaration"
  | DuplicateEPP -> "DuplicateEPP" | ReachedEOL -> "ReachedEOL" | InvalidString -> "InvalidString"
  | NoStartRule -> "NoStartRule" | UnknownSymbol -> "UnknownSymbol"
  | InvalidStartRule s -> a "InvalidStartRule" s | UnknownRuleRef s -> a "UnknownRuleRef" s
  | UnknownToken s -> a "UnknownToken" s | NoPrecForToken s -> a "NoPrecForToken" s
  | UnknownEPP s -> a "UnknownEPP" s

let dump (a : gast) (errs : yerr list) (warns : (wkind * span) list outcome) : string =
  let b = Buffer.create 1024 in
  let add = Buffer.add_string b in
  (match errs with [] -> add "OK" | _ -> add (Printf.sprintf "ERRS %d" (List.length errs)));
  List.iter (fun e ->
    add (" # E " ^ kind_name e.e_kind);
    List.iter (fun l -> add (" " ^ sp l)) e.e_spans) errs;
  (match a.a_start with
   | Some (n, l) -> add (Printf.sprintf " # START %s %s" (xh n) (sp l))
   | None -> add " # START -");
  List.iter (fun r ->
    add (Printf.sprintf " # RULE %s %s " (xh r.r_name) (sp r.r_span));
    (match r.r_actiont with Some t -> add (xh t) | None -> add "-");
    (match r.r_pidxs with
     | [] -> add " -"
     | l -> add (" " ^ String.concat "," (List.map (fun p -> string_of_int (int_of_nat p)) l)))) a.a_rules;
  List.iter (fun p ->
    add " # PROD ";
    (match p.p_prec with Some t -> add (xh t) | None -> add "-");
    (match p.p_action with
     | Some (t, l) -> add (Printf.sprintf " %s %s" (xh t) (sp l))
     | None -> add " -");
    add (" " ^ sp p.p_span);
    List.iter (fun s -> add (sym s)) p.p_syms) a.a_prods;
  let dirs = List.map int_of_nat a.a_token_directives in
  let spans = Array.of_list a.a_spans in
  List.iteri (fun i t ->
    if i < Array.length spans then add (Printf.sprintf " # TOK %s %s" (xh t) (sp spans.(i)))
    else add (Printf.sprintf " # TOK %s ? ?" (xh t));
    add (if List.mem i dirs then " D" else " -")) a.a_tokens;
  if Array.length spans <> List.length a.a_tokens then
    add (Printf.sprintf " # SPANSLEN %d %d" (Array.length spans) (List.length a.a_tokens));
  List.iter (fun i -> if i >= List.length a.a_tokens then add (Printf.sprintf " # BADTOKDIR %d" i))
    (List.sort compare dirs);
  List.iter (fun (n, ((lvl, k), l)) ->
    add (Printf.sprintf " # PREC %s %d %s %s" (xh n) (int_of_nat lvl)
           (match k with ALeft -> "L" | ARight -> "R" | ANonassoc -> "N") (sp l))) a.a_precs;
  let optmap tag item = function
    | None -> add (Printf.sprintf " # %s -" tag)
    | Some m ->
      add (Printf.sprintf " # %s +" tag);
      List.iter (fun (n, l) -> add (Printf.sprintf " # %s %s %s" item (xh n) (sp l))) m in
  optmap "AVOID" "AI" a.a_avoid_insert;
  optmap "IMPL" "IT" a.a_implicit_tokens;
  List.iter (fun (n, (kl, (v, vl))) ->
    add (Printf.sprintf " # EPP %s %s %s %s" (xh n) (sp kl) (xh v) (sp vl))) a.a_epp;
  (match a.a_expect with Some (n, l) -> add (Printf.sprintf " # EXPECT %s %s" (hex_of_n n) (sp l)) | None -> ());
  (match a.a_expectrr with Some (n, l) -> add (Printf.sprintf " # EXPECTRR %s %s" (hex_of_n n) (sp l)) | None -> ());
  (match a.a_parse_param with Some (n, t) -> add (Printf.sprintf " # PP %s %s" (xh n) (xh t)) | None -> ());
  (match a.a_parse_generics with Some t -> add (Printf.sprintf " # PG %s" (xh t)) | None -> ());
  (match a.a_programs with Some t -> add (Printf.sprintf " # PROGS %s" (xh t)) | None -> ());
  List.iter (fun s -> add (" # EU" ^ sym s)) a.a_expect_unused;
  (match warns with
   | Done ws ->
     List.iter (fun (k, l) ->
       add (Printf.sprintf " # W %s %s" (match k with UnusedRule -> "UnusedRule" | UnusedToken -> "UnusedToken") (sp l))) ws
   | _ -> add " # W PANIC");
  Buffer.contents b


(* ---- decoding of the case line ------------------------------------------------ *)
exception Bad of string

let text_of (s : string) : n list =
  if String.length s = 0 || s.[0] <> 'x' then raise (Bad ("text " ^ s));
  List.map n_of_int (unhex (String.sub s 1 (String.length s - 1)))

(* hex numeral -> N (values up to u64::MAX exceed OCaml's int) *)
let n_of_hex (s : string) : n =
  let bits = ref [] in                                   (* most significant first *)
  String.iter (fun c ->
    let d = int_of_string ("0x" ^ String.make 1 c) in
    bits := !bits @ [d land 8 <> 0; d land 4 <> 0; d land 2 <> 0; d land 1 <> 0]) s;
  let rec strip = function false :: r -> strip r | l -> l in
  match strip !bits with
  | [] -> N0
  | _ :: rest -> Npos (List.fold_left (fun p b -> if b then XI p else XO p) XH rest)

let path_of (s : string) : int list =
  if s = "-" then [] else List.map int_of_string (String.split_on_char '.' s)

let decode (toks : string list) : bool * bool * bool * agram * layout =
  let cur = ref toks in
  let next () = match !cur with [] -> raise (Bad "short") | t :: r -> cur := r; t in
  let num () = int_of_string (next ()) in
  let rec many k f = if k <= 0 then [] else let x = f () in x :: many (k - 1) f in
  let name () = text_of (next ()) in
  let names () = let k = num () in many k name in
  let flags01 = next () in
  let fa = (String.length flags01 >= 1 && flags01.[0] = '1') in
  let fp = (String.length flags01 >= 2 && flags01.[1] = '1') in
  let fu = (String.length flags01 >= 3 && flags01.[2] = '1') in
  let sym () =
    match next () with
    | "r" -> ARule (name ())
    | "t" -> ATok (name ())
    | s -> raise (Bad ("sym " ^ s)) in
  let decl () =
    match next () with
    | "S" -> DStart (name ())
    | "T" -> DToken (names ())
    | "L" -> DPrec (ALeft, names ())
    | "R" -> DPrec (ARight, names ())
    | "N" -> DPrec (ANonassoc, names ())
    | "E" -> let t = name () in let v = name () in DEpp (t, v)
    | "A" -> DAvoid (names ())
    | "X" -> DExpect (n_of_hex (next ()))
    | "Y" -> DExpectRR (n_of_hex (next ()))
    | "C" -> DActiontype (name ())
    | "M" -> let n = name () in let t = name () in DParseParam (n, t)
    | "G" -> DParseGenerics (name ())
    | "U" -> let k = num () in DExpectUnused (many k sym)
    | "I" -> DImplicit (names ())
    | s -> raise (Bad ("decl " ^ s)) in
  let prod () =
    if next () <> "p" then raise (Bad "prod");
    let k = num () in
    let syms = many k sym in
    let prec = (match next () with "-" -> None | "%" -> Some (name ()) | s -> raise (Bad ("prec " ^ s))) in
    let action = (match next () with "-" -> None | "{" -> Some (name ()) | s -> raise (Bad ("action " ^ s))) in
    { ap_syms = syms; ap_prec = prec; ap_action = action } in
  let rule () =
    if next () <> "r" then raise (Bad "rule");
    let n = name () in
    let ty = (match next () with "-" -> None | "^" -> Some (name ()) | s -> raise (Bad ("type " ^ s))) in
    let k = num () in
    { ar_name = n; ar_type = ty; ar_prods = many k prod } in
  let nd = num () in
  let decls = many nd decl in
  let nr = num () in
  let rules = many nr rule in
  let progs = (match next () with "-" -> None | "P" -> Some (name ()) | s -> raise (Bad ("programs " ^ s))) in
  let gaps : (int list, n list) Hashtbl.t = Hashtbl.create 64 in
  let styles : (int list, qstyle) Hashtbl.t = Hashtbl.create 64 in
  let txts : (int list, n list) Hashtbl.t = Hashtbl.create 16 in
  let flags : (int list, bool) Hashtbl.t = Hashtbl.create 16 in
  let entry () =
    let k = next () in
    let p = path_of (next ()) in
    let v = next () in
    match k with
    | "g" -> Hashtbl.replace gaps p (text_of v)
    | "q" -> Hashtbl.replace styles p (match v with "b" -> QBare | "s" -> QSq | "d" -> QDq | _ -> raise (Bad ("style " ^ v)))
    | "t" -> Hashtbl.replace txts p (text_of v)
    | "f" -> Hashtbl.replace flags p (v = "1")
    | s -> raise (Bad ("entry " ^ s)) in
  let nl = num () in
  let _ = many nl entry in
  if !cur <> [] then raise (Bad "trailing");
  let look tbl dflt (p : nat list) =
    match Hashtbl.find_opt tbl (List.map int_of_nat p) with Some v -> v | None -> dflt in
  let lay = { l_gap = look gaps []; l_q = look styles QBare; l_txt = look txts []; l_flag = look flags false } in
  (fa, fp, fu, { ag_decls = decls; ag_rules = rules; ag_programs = progs }, lay)

let () =
  iter_lines (fun line ->
    match (try Ok (decode (split_ws line)) with Bad m -> Error m | Failure m -> Error m | Invalid_argument m -> Error m) with
    | Error m -> "BADCASE " ^ m
    | Ok (fa, fp, fu, ag, lay) ->
      let text = print lay ag in
      let ast = ast_of fa fp lay ag in
      let errs : yerr list = [] in
      xh text ^ " # " ^ dump ast errs (warnings_of fa fp fu lay ag))
