"""C12 generators: texts for the three specification parsers.

Valid %grmtools sections, .l files and .y files (of every kind), and the
near-valid neighbourhood of them: every truncation, character mutations,
bracket/quote/brace unbalancing, huge integers, multi-byte characters injected
at every offset, random UTF-8.  Everything is a pure function of the `rng`.
"""
from gen import grammars

PWS = [" ", " ", " ", "\n", "\t", "\r", "\x0b", "\x0c", "\x85", "\u200e", "\u200f", "\u2028", "\u2029"]
MULTI = ["é", "♠", "😀", "\x85", "\u2028", "ſ", "\u212a", "ß", "❤"]
PUNCT = list("[]{}()\"'\\*:,;%|<>/!_-+.^$?#~@=&") + ["::", "%%", "/*", "*/", "//", "%grmtools", "%grmtools{"]
NAMES = ["a", "b", "yacckind", "recoverer", "test_files", "Grmtools", "Original", "NoAction", "Eco",
         "YaccKind", "RecoveryKind", "CPCTPlus", "x_y", "A_B_", "Z", "size_limit", "octal",
         "case_insensitive", "dot_matches_new_line", "nest_limit", "aſ", "\u212a", "ſ"]
NUMS = ["0", "1", "7", "42", "007", "1048576", "18446744073709551615", "18446744073709551616",
        "99999999999999999999999", "184467440737095516150", "4294967296", "9" * 40]
HUGE = ["18446744073709551616", "99999999999999999999999", "9" * 40, "18446744073709551615",
        "340282366920938463463374607431768211456", "1" + "0" * 30]


def ws(rng, p=0.5):
    if rng.random() > p:
        return ""
    return "".join(rng.choice(PWS) for _ in range(rng.randint(1, 2)))


def name(rng):
    if rng.random() < 0.8:
        return rng.choice(NAMES)
    first = rng.choice("abcXYZqk")
    return first + "".join(rng.choice("abAB_zZ") for _ in range(rng.randint(0, 5)))


def string_lit(rng):
    parts = []
    for _ in range(rng.randint(0, 4)):
        r = rng.random()
        if r < 0.5:
            parts.append(rng.choice(["a", "*.test", "input*.txt", " ", "x y", "é", "♠", "😀", "\n", "[", "]", "{", "}", ","]))
        elif r < 0.8:
            parts.append("\\" + rng.choice(["\"", "\\", "n", "é", "t", "😀", " "]))
        else:
            parts.append(rng.choice(["'", "::", "%", "0"]))
    return "\"" + "".join(parts) + "\""


def namespaced(rng):
    if rng.random() < 0.5:
        return name(rng)
    return name(rng) + ws(rng, 0.2) + "::" + ws(rng, 0.2) + name(rng)


def setting(rng, depth=0):
    r = rng.random()
    if r < 0.18:
        return rng.choice(NUMS[:6]) if rng.random() < 0.85 else rng.choice(NUMS)
    if r < 0.36:
        return string_lit(rng)
    if r < 0.56 and depth < 3:
        n = rng.randint(0, 3)
        items = []
        for _ in range(n):
            items.append(ws(rng, 0.3) + setting(rng, depth + 1) + ws(rng, 0.3))
        sep = "," if rng.random() < 0.85 else rng.choice([" ", ",,", ", "])
        body = sep.join(items)
        if items and rng.random() < 0.3:
            body += ","
        return "[" + ws(rng, 0.3) + body + ws(rng, 0.3) + "]"
    if r < 0.78:
        return namespaced(rng)
    return namespaced(rng) + ws(rng, 0.2) + "(" + ws(rng, 0.2) + namespaced(rng) + ws(rng, 0.2) + ")"


def entry(rng):
    r = rng.random()
    if r < 0.2:
        return name(rng)
    if r < 0.35:
        return "!" + name(rng)
    return name(rng) + ws(rng, 0.3) + ":" + ws(rng, 0.5) + setting(rng)


REAL_HEADERS = [
    "%grmtools{yacckind: Grmtools}",
    "%grmtools{yacckind: Original(YaccOriginalActionKind::NoAction)}",
    "%grmtools {yacckind: Original(NoAction)}",
    "%grmtools{yacckind: Eco}",
    "%grmtools {\n    yacckind: Grmtools,\n    test_files: [\"input*.txt\"],\n}",
    "%grmtools{\n  yacckind: Grmtools,\n  recoverer: RecoveryKind::CPCTPlus,\n  test_files: [\"*.input_grmtools_section\"]\n}",
    "%grmtools{!dot_matches_new_line, octal, size_limit: 1048576}",
    "%grmtools{case_insensitive, posix_escapes, allow_wholeline_comments}",
    "%grmtools{}",
    "%grmtools{dupe, !dupe, dupe: test}",
    "%grmtools {test_files: *.test,}",
    "%grmtools{a: [[1, 2], [\"x\", Y::Z], []]}",
]


def header_section(rng):
    """a (mostly) valid %grmtools section"""
    if rng.random() < 0.25:
        return rng.choice(REAL_HEADERS)
    n = rng.randint(0, 4)
    es = [ws(rng, 0.3) + entry(rng) + ws(rng, 0.3) for _ in range(n)]
    body = ",".join(es)
    if es and rng.random() < 0.3:
        body += "," + ws(rng, 0.3)
    return ws(rng, 0.2) + "%grmtools" + ws(rng, 0.4) + "{" + body + "}"


# ---- lex ------------------------------------------------------------------
REGEXES = ["[a-z]+", "[0-9]+", "\\+", "\\*", "\\(", "\\)", ".", "[\\n]", "[ \\t]+", "a|b", "(ab)*c", "\\141",
           "\"[^\"]*\"", "[a-zA-Z_][a-zA-Z_0-9]*", "é+", "♠", "/\\*", "\\*/", "x{2,3}", "\\\\", "[[:alpha:]]",
           "a b", "\\ ", "'", "\"", "😀"]
LEX_FLAGS = ["dot_matches_new_line", "multi_line", "octal", "posix_escapes", "allow_wholeline_comments",
             "case_insensitive", "swap_greed", "ignore_whitespace", "unicode"]


def lex_header(rng):
    es = []
    for _ in range(rng.randint(0, 3)):
        r = rng.random()
        if r < 0.6:
            es.append(("!" if rng.random() < 0.4 else "") + rng.choice(LEX_FLAGS))
        elif r < 0.85:
            es.append(rng.choice(["size_limit", "dfa_size_limit", "nest_limit"]) + ": " + rng.choice(["1048576", "100", "0", "18446744073709551615", "50"]))
        else:
            es.append(entry(rng))
    return "%grmtools" + ws(rng, 0.3) + "{" + ", ".join(es) + "}" + rng.choice(["\n", "\n", " ", ""])


def lex_spec(rng):
    o = []
    if rng.random() < 0.35:
        o.append(lex_header(rng))
    states = []
    for _ in range(rng.randint(0, 2)):
        st = rng.choice(["COMMENT", "STR", "S1", "x"])
        states.append(st)
        o.append("%" + rng.choice("xsXS") + rng.choice(["", "tate"]) + " " + st + rng.choice(["", " " + rng.choice(["S2", "T"])]) + "\n")
    o.append("%%" + rng.choice(["\n", "\n", " \n"]))
    tok = 0
    for _ in range(rng.randint(0, 6)):
        line = ""
        if states and rng.random() < 0.4:
            line += "<" + ",".join(rng.sample(states + ["INITIAL"], rng.randint(1, min(2, len(states) + 1)))) + ">"
        line += rng.choice(REGEXES)
        line += rng.choice([" ", " ", "\t", "   "])
        r = rng.random()
        if r < 0.55:
            q = rng.choice("\"'")
            tok += 1
            line += q + rng.choice(["ID", "INT", "+", "T%d" % tok, "T%d" % tok, "é", "a b"]) + q
        elif r < 0.75:
            line += ";"
        elif states:
            line += "<" + rng.choice(["+", "-", ""]) + rng.choice(states) + ">" + rng.choice([";", "'T%d'" % tok, "'éé'", "\"T♠\"", "'ID'"])
        else:
            line += ";"
        o.append(line + "\n")
    if rng.random() < 0.1:
        o.append("%%\n" + rng.choice(["", "fn f() {}\n"]))
    return "".join(o)


LEX_CORPUS = [
    "%x S\n%%\na <S>'éé'\nb <S>'éé'\n",
    "%%\n[a-z] \"ID\"\n",
    "%x COMMENT\n%%\n.                       \"TEXT\"\n<COMMENT,INITIAL>/\\*    <+COMMENT>;\n<COMMENT>.              ;\n<INITIAL,COMMENT>\\n             ;\n<COMMENT>\\*/            <-COMMENT>;\n",
    "%grmtools{!dot_matches_new_line, octal, size_limit: 1048576}\n%%\n\\141 'a'\n. 'ANY'\n[\\n] 'NL'\n",
    "%%\n[0-9]+ \"INT\"\n\\+ \"+\"\n\\* \"*\"\n\\( \"(\"\n\\) \")\"\n[\\t ]+ ;\n",
    "%grmtools{case_insensitive}\n%%\né+ 'É'\n♠ '♠'\n",
]

# `//` whole-line comments (lex flag allow_wholeline_comments, off by default) in the declarations and in the rules
# section.  EVERY truncation of these is run: a comment that is the last line of the text, without a line break after
# it, at every length and at every distance from the start — in the declarations section (where `%%` is then missing)
# and in the rules section.  The comments are longer than everything before them and the earlier lines contain
# multi-byte characters, so that a cursor computed from the wrong base lands on every earlier offset (line starts,
# middles of declarations, inside characters).
WLC_HDR = "%grmtools{allow_wholeline_comments}\n"
LEX_WLC_BODIES = [
    "%s A\n// xx\n%%\n// c\na 'A'\n",
    "%x Str Cmt\n// yyyyyyy\n%%\n<Str>a 'A'\n// end",
    "// \u00e9\n// x\n%%\n",
    "%s A\n%x B\n// a comment which is longer than all that was written before it, \u00e9 and \u2660 included: 0123456789 0123456789\n"
    "%%\n// a comment between the rules\n<A>[a-z]+ 'ID'\n// another one, \u00e9\n<B>. ;\n// the last line is a comment as well",
    "// \u00e9\u00e9\u00e9\u00e9\u00e9\u00e9\u00e9\u00e9\n%s A\n  // indented comment after \u00e9\u00e9\u00e9\u00e9 ................................\n%x B\n//\n//x\n%%\n//\n[0-9]+ 'INT' // not a comment\n",
    "//\n//\n//\n%%\n",
    "%s A\r\n// crlf comment ............\r\n%x B\r\n// another ..........................\r\n%%\r\n// c\r\na 'A'\r\n",
    "%x \u212a\n//\u2028// after a line separator\n%%\n",
    "%s A // trailing text after a declaration\n// c\n%%\n/ 'SLASH'\n// c\n// 'COMMENTLIKE'\n",
]
# from_str: the flag comes from the %grmtools section (one sample has the flag switched off: `//` lines are then rules
# resp. unknown declarations)
LEX_WLC = [WLC_HDR + b for b in LEX_WLC_BODIES] + [
    "%grmtools{!allow_wholeline_comments}\n" + LEX_WLC_BODIES[0],
    "%grmtools {allow_wholeline_comments, case_insensitive}" + LEX_WLC_BODIES[3],
    "%grmtools{allow_wholeline_comments}// a comment right after the section ...............................\n%s A\n// zzzzzzzzzzzzzzzzzzzzzzzzzzzzzzzzzzzzzzzzzzzzzzzzzzzzzzzzzzzzzzz",
]
# new_with_options(text, allow_wholeline_comments = on): no section needed; a section, when there is one, is skipped
LEX_WLC_OPT = LEX_WLC_BODIES + [WLC_HDR + LEX_WLC_BODIES[1], "%grmtools{!allow_wholeline_comments}\n" + LEX_WLC_BODIES[3]]
LEX_CORPUS = LEX_WLC + LEX_CORPUS


# ---- yacc -----------------------------------------------------------------
def gram_to_grmtools(rng, g):
    """Grmtools-kind syntax (rule types and actions) for a Gram"""
    o = ["%start " + g.start]
    if rng.random() < 0.3:
        o.append("%avoid_insert " + " ".join("'%s'" % t for t in g.tokens[:1]))
    if rng.random() < 0.3 and g.tokens:
        o.append("%epp " + g.tokens[0] + " \"tok " + rng.choice(["x", "é", "\\\"q\\\""]) + "\"")
    if rng.random() < 0.3:
        o.append("%parse-param p: " + rng.choice(["u64", "&'input str", "(u8, u8)"]))
    o.append("%%")
    for n, ps in g.rules:
        alts = []
        for syms, prec in ps:
            s = " ".join(("'%s'" % x) if k == 't' else x for k, x in syms)
            if not syms and rng.random() < 0.5:
                s = "%empty"
            if prec:
                s += " %%prec '%s'" % prec
            s += " " + rng.choice(["{ () }", "{ $1 }", "{ Ok(()) /* } */ }", "{ \"}\"; '}' ; () }", "{ {{}} }", "{ // c\n }"])
            alts.append(s)
        o.append("%s -> %s: %s;" % (n, rng.choice(["()", "u64", "Result<(), ()>", "Vec<'a>"]), " | ".join(alts) if alts else "{ () }"))
    if rng.random() < 0.3:
        o.append("%%\n" + rng.choice(["use std::x;\n", "// 🦀\nfn f() { }\n", "/* */"]))
    return "\n".join(o) + "\n"


YACC_EXTRAS = [
    "%token a b 'c' \"d\"\n", "%expect 1\n", "%expect-rr 2\n", "%expect-unused X 'y'\n", "%left '+' '-'\n%right '*'\n%nonassoc '<'\n",
    "%epp a \"A\"\n", "%actiontype u64\n", "%parse-param x: u8\n", "%parse-generics 'a, T: Clone\n", "%implicit_tokens ws\n",
    "// line comment\n", "/* block\n comment */\n", "%avoid_insert 'a'\n",
]


def yacc_spec(rng, pool):
    """(kind, text)"""
    g = rng.choice(pool)
    r = rng.random()
    if r < 0.55:
        txt = g.render()
        kind = rng.choice(["N", "N", "E", "O"])
    else:
        txt = gram_to_grmtools(rng, g)
        kind = "G"
    if rng.random() < 0.4:
        txt = rng.choice(YACC_EXTRAS) + txt
    if rng.random() < 0.25:
        txt = header_section(rng) + rng.choice(["\n", " ", ""]) + txt
    elif rng.random() < 0.15:
        txt = rng.choice(REAL_HEADERS[:6]) + "\n" + txt
    return kind, txt


def yacc_pool(rng, n):
    pool = list(grammars.classic_corpus())
    for _ in range(n):
        r = rng.random()
        if r < 0.5:
            pool.append(grammars.random_grammar(rng))
        elif r < 0.8:
            pool.append(grammars.expr_grammar(rng))
        else:
            pool.append(grammars.nullable_heavy(rng))
    return pool


YACC_CORPUS = [
    ("G", "%start T\n%%\nT -> &'input str:\n    \"ID\" { $lexer.span_str($1.unwrap().span()) }\n    ;\n"),
    ("N", "%grmtools{yacckind: Original(NoAction)}\n%start Start\n%%\nStart: 'ANY' | 'a' | 'NL';\n"),
    ("N", "%start S\n%%\nS: /* c1\n// c2\n*/ 'a';\n"),
    ("E", "%implicit_tokens ws1 ws2\n%start S\n%%\nS: 'a' S | ;\n"),
    ("G", "%token '❤'\n%%\nA -> (): '❤' { () } | ❤ { () };"),
    ("N", "%expect 999999999999999999999999\n%%\nA: 'a';"),
    ("N", "%expect-rr 18446744073709551616\n%%\nA: 'a';"),
]

# %prec in every position, naming tokens with / without a declared precedence, undeclared tokens, rules, nothing; on
# empty productions (`%empty %prec T`, `| %prec T`) in particular: the production has no symbol the checks could hang on.
# Every text is run as every yacc kind through every route (AST + grammar, YaccGrammar::new, from_str with a section).
YACC_PREC = [
    "%%\nA: 'a' | %empty %prec 'b';",
    "%%\nA: 'a' | %prec 'b';",
    "%start A\n%%\nA: 'a' | A B 'b' | %prec 'b';\nB: %empty %prec 'c';\n",
    "%token b\n%%\nA: 'a' | %empty %prec b;",
    "%token b\n%%\nA: 'a' b | %prec b;",
    "%left 'b'\n%%\nA: 'a' | %empty %prec 'b';",
    "%left 'b'\n%%\nA: 'a' 'b' | %prec 'b';",
    "%right 'c'\n%%\nA: | %prec 'c' | %empty %prec 'd' | 'c' %prec 'c';",
    "%%\nA: 'a' %prec 'zz' | ;",
    "%%\nA: %prec 'b' 'a';",
    "%%\nA: 'a' %prec ;",
    "%%\nA: %prec;",
    "%%\nA: %prec",
    "%%\nA: 'a' %prec %prec 'a';",
    "%%\nA: %empty %prec 'b' %prec 'c' | 'b';",
    "%%\nA: %empty %empty %prec 'b';",
    "%%\nA: %prec 'b' %empty;",
    "%%\nA: 'a' %prec A;",
    "%%\nA: %empty %prec A | 'a';",
    "%prec 'a'\n%%\nA: 'a';",
    "%%\nA: B %prec 'b';\nB: %empty %prec 'a' | 'a';",
    "%%\nA: 'a' { x } %prec 'b';",
    "%%\nA: %empty { x } %prec 'b' | %prec 'b' { x };",
    "%nonassoc 'x'\n%%\nS: A %prec 'x' 'y';\nA: %empty %prec 'y';",
    "%left \"\u00e9\"\n%%\nA: %empty %prec \"\u00e9\" | %prec '\u00e9' | \"\u00e9\" %prec \u00e9;",
    "%expect-unused b\n%token b\n%%\nA: %prec b;",
    "%%\nA: %empty %prec 'b' ;\n%%\nfn f() {}",
    # Grmtools / UserAction syntax
    "%%\nA -> (): 'a' { () } | %empty %prec 'b' { () };",
    "%%\nA -> (): 'a' { () } | %prec 'b' { () };",
    "%left 'b'\n%%\nA -> u8: 'a' 'b' { 1 } | %empty %prec 'b' { 0 } | %prec 'c' { 2 };",
    "%actiontype u8\n%%\nA: 'a' { 1 } | %empty %prec 'b' { 0 };",
    "%%\nA -> (): %empty %prec { () };",
]
YACC_PREC_SECTIONS = ["%grmtools{yacckind: Original(NoAction)}\n", "%grmtools{yacckind: Original(GenericParseTree)}\n",
                      "%grmtools{yacckind: Original(UserAction)}\n", "%grmtools{yacckind: Grmtools}\n", "%grmtools{yacckind: Eco}\n"]


# ---- mutations ------------------------------------------------------------
SPACES = ["\x0b", "\x0c", "\r", "\x85", "\u200e", "\u200f", "\u2028", "\u2029", "\t"]


def truncations(s):
    return [s[:i] for i in range(len(s) + 1)]


def inject_everywhere(s, ch):
    return [s[:i] + ch + s[i:] for i in range(len(s) + 1)]


def mutate_chars(rng, s, k=1):
    cs = list(s)
    for _ in range(k):
        r = rng.random()
        pos = rng.randint(0, len(cs))
        alphabet = PUNCT + MULTI + list("aZ09 \n") + NUMS[-4:]
        if r < 0.35 and cs:
            cs[min(pos, len(cs) - 1)] = rng.choice(alphabet)
        elif r < 0.6 and cs:
            del cs[min(pos, len(cs) - 1)]
        elif r < 0.9:
            cs.insert(pos, rng.choice(alphabet))
        elif cs:
            p = min(pos, len(cs) - 1)
            cs.insert(p, cs[p])
    return "".join(cs)


BRACKETS = "[]{}()\"'<>"


def unbalance(rng, s):
    """delete or insert one bracket / quote / brace"""
    idx = [i for i, c in enumerate(s) if c in BRACKETS]
    if idx and rng.random() < 0.6:
        i = rng.choice(idx)
        return s[:i] + s[i + 1:]
    i = rng.randint(0, len(s))
    return s[:i] + rng.choice(BRACKETS) + s[i:]


def huge_ints(rng, s):
    """replace one run of digits (or insert at a random place) by a huge integer"""
    import re
    ms = list(re.finditer(r"[0-9]+", s))
    h = rng.choice(HUGE)
    if ms:
        m = rng.choice(ms)
        return s[:m.start()] + h + s[m.end():]
    i = rng.randint(0, len(s))
    return s[:i] + h + s[i:]


def random_utf8(rng, n):
    alphabet = PUNCT + MULTI + list("abAZ019 \n\t") + ["%grmtools", "%%", "\x00", "\x7f", "\ud7ff", "\ue000", "\U0010ffff"]
    return "".join(rng.choice(alphabet) for _ in range(n))


def neighbourhood(rng, s, n_trunc, n_inject, n_mut):
    """near-valid variants of a valid text"""
    out = []
    ts = truncations(s)
    out += ts if len(ts) <= n_trunc else rng.sample(ts, n_trunc)
    for ch in rng.sample(MULTI, 2):
        inj = inject_everywhere(s, ch)
        out += inj if len(inj) <= n_inject else rng.sample(inj, n_inject)
    # the parsers treat the Unicode Pattern_White_Space characters (and their line-separator
    # subset) specially: inject each kind at every offset too
    for ch in rng.sample(SPACES, 2):
        inj = inject_everywhere(s, ch)
        out += inj if len(inj) <= n_inject else rng.sample(inj, n_inject)
    for _ in range(n_mut):
        r = rng.random()
        if r < 0.4:
            out.append(mutate_chars(rng, s, rng.randint(1, 3)))
        elif r < 0.7:
            out.append(unbalance(rng, s))
        else:
            out.append(huge_ints(rng, s))
    return out


# ---- odd characters ---------------------------------------------------------
# Characters on which "is this a digit / a letter / a blank / a line end" predicates of different
# strictness disagree (char::is_numeric vs is_ascii_digit, Unicode case folding of [A-Z],
# to_lowercase changing the byte length, White_Space vs Pattern_White_Space, ...), all multi-byte:
# a cursor advanced by 1 or by the wrong length lands inside the character.
ODD_CHARS = [
    "\u00b2",        # SUPERSCRIPT TWO            (numeric, No)
    "\u00bd",        # VULGAR FRACTION ONE HALF   (numeric, No)
    "\u0663",        # ARABIC-INDIC DIGIT THREE   (Nd, 2 bytes)
    "\u0967",        # DEVANAGARI DIGIT ONE       (Nd, 3 bytes)
    "\uff11",        # FULLWIDTH DIGIT ONE        (Nd, 3 bytes)
    "\U0001d7d8",    # MATHEMATICAL DOUBLE-STRUCK DIGIT ZERO (Nd, 4 bytes)
    "\u2167",        # ROMAN NUMERAL EIGHT        (Nl)
    "\u3007",        # IDEOGRAPHIC NUMBER ZERO    (Nl)
    "\u2460",        # CIRCLED DIGIT ONE          (No)
    "\u212a",        # KELVIN SIGN                (case-folds to k)
    "\u017f",        # LATIN SMALL LETTER LONG S  (case-folds to s)
    "\u0130",        # LATIN CAPITAL LETTER I WITH DOT ABOVE (to_lowercase is 2 chars / 3 bytes)
    "\u0131",        # LATIN SMALL LETTER DOTLESS I
    "\u1e9e",        # LATIN CAPITAL LETTER SHARP S (lowercase is 2 bytes shorter)
    "\uff21",        # FULLWIDTH LATIN CAPITAL LETTER A (alphabetic, uppercase)
    "\u0301",        # COMBINING ACUTE ACCENT
    "\u20e3",        # COMBINING ENCLOSING KEYCAP
    "\u2028",        # LINE SEPARATOR
    "\u2029",        # PARAGRAPH SEPARATOR
    "\u0085",        # NEXT LINE
    "\u00a0",        # NO-BREAK SPACE (White_Space, not Pattern_White_Space)
    "\u3000",        # IDEOGRAPHIC SPACE
    "\u200b",        # ZERO WIDTH SPACE (not white space at all)
    "\ufeff",        # BOM / ZERO WIDTH NO-BREAK SPACE
    "\U0001f600",    # 4-byte emoji
]

# short texts exercising every numeric / name / quoted / state / action scanner of the three parsers
ODD_YACC = [
    ("N", "%token a 'b'\n%expect 1\n%expect-rr 2\n%left '+'\n%start A\n%%\nA: A '+' a %prec '+' { x } | 'b' ;\n%%\np"),
    ("G", "%expect 1\n%expect-rr 2\n%epp a \"e\"\n%parse-param p: u8\n%%\nA -> u8: 'a' %prec 'a' { $1 } | %empty { 0 };"),
    ("E", "%implicit_tokens w\n%avoid_insert 'a'\n%expect-unused B\n%expect 10\n%%\nA: 'a' | ;\nB: ;"),
    ("F", "%grmtools{yacckind: Original(NoAction)}\n%expect 1\n%token a\n%%\nA: a %prec a {x};"),
    ("F", "%grmtools {yacckind: Grmtools, n: 7}\n%expect-rr 2\n%%\nA -> T: 'a' { 1 } ;"),
    # %epp strings with backslash escapes (an odd character put where the escaped quote is gives `\<multi-byte>`)
    ("N", "%epp a \"x\\\"y\"\n%epp b 'p\\'q'\n%epp c \"\\\"\"\n%%\nA: 'a' 'b' 'c';"),
    ("G", "%epp a 'it\\'s'\n%epp b \"say \\\"hi\\\"\"\n%%\nA -> u8: 'a' 'b' { 1 };"),
]
ODD_LEX = [
    "%x S1\n%s T\n%%\n[0-9]+ \"INT\"\n<S1,T>a{2,3} <+S1>'A'\n<S1>\\141 <-S1>;\n. 'T1'\n",
    "%grmtools{!octal, size_limit: 1048576, case_insensitive}\n%%\n[a-z] \"ID\"\nx ;\n",
]
ODD_HEADERS = [
    "%grmtools{yacckind: Original(YaccOriginalActionKind::NoAction), n: 12}",
    "%grmtools {a: [1, \"s\\\"\", [B::c]], !f, g, test_files: \"*.t\",}",
    " %grmtools{size_limit: 1048576, x: 007}\n",
]


def odd_everywhere(s, chars=None):
    """every odd character inserted at every offset of `s` and replacing every character of `s`"""
    out = []
    for ch in (chars or ODD_CHARS):
        for i in range(len(s) + 1):
            out.append(s[:i] + ch + s[i:])
        for i in range(len(s)):
            out.append(s[:i] + ch + s[i + 1:])
    return out


# ---- header VALUES of the enum keys ---------------------------------------------
# The conversion of a parsed value into an enum (YaccKind::try_from in ASTWithValidityInfo::from_str /
# YaccGrammar::from_str, RecoveryKind / SerialisationFormat / LexerKind in the builders and nimbleparse) reports
# EVERY faulty component of the value in ONE error: wrong namespace, wrong member, wrong argument namespace, wrong
# argument — 1 to 4 spans under SpansKind::Error.  Near-valid values: each component right / absent / a typo of the
# right name / a name that is right elsewhere, several wrong at once, other shapes (flag, number, string, array),
# written on one line and spread over several lines (so that the spans lie on different lines of the rendering).
YK_NS = [None, "YaccKind", "yacckind", "YACCKIND", "YaccKnd", "Foo", "YaccOriginalActionKind", "Kind"]
YK_UNIT = ["Grmtools", "Eco", "grmtools", "ECO", "Grmtols", "Original", "Bar", "NoAction"]
YK_CTOR = ["Original", "original", "Orignal", "Grmtools", "X"]
AK_NS = [None, "YaccOriginalActionKind", "yaccoriginalactionkind", "YaccOriginalActionKnd", "YaccKind", "X"]
AK = ["NoAction", "UserAction", "GenericParseTree", "genericparsetree", "NoActon", "Y", "Grmtools"]
RK_NS = [None, "RecoveryKind", "recoverykind", "RecoverKind", "YaccKind"]
RK = ["CPCTPlus", "None", "cpctplus", "CPCT", "Bar"]
SF_NS = [None, "SerialisationFormat", "SerializationFormat", "Foo"]
SF = ["FixedSizeInteger", "VariableSizedInteger", "fixedsizeinteger", "FixedSizedInteger", "Bar"]
LK_NS = [None, "LexerKind", "LexrKind", "YaccKind"]
LK = ["LRNonStreamingLexer", "lrnonstreaminglexer", "LRStreamingLexer", "Bar"]
OTHER_SHAPES = ["7", "\"Grmtools\"", "[Grmtools]", "[]", "[YaccKind::Grmtools, Eco]", "18446744073709551615"]

YACC_BODY = "\n%start S\n%%\nS: 'a' S | ;\n"
LEX_BODY = "\n%%\n[a-z] 'A'\n"


def _nsd(ns, m, wide):
    if ns is None:
        return m
    return (ns + "\n ::  " + m) if wide else (ns + "::" + m)


def enum_value(cns, c, ans=None, a=None, wide=False, has_arg=True):
    """`[cns::]c` or `[cns::]c([ans::]a)`"""
    v = _nsd(cns, c, wide)
    if has_arg and a is not None:
        v += ("\n  (\n   " if wide else "(") + _nsd(ans, a, wide) + ("\n  )" if wide else ")")
    return v


def enum_header(entries, wide=False):
    """%grmtools section with the given (key, value-text | None for a flag) entries"""
    if wide:
        body = ",\n".join(("  " + k + ":\n    " + v) if v is not None else ("  " + k) for k, v in entries)
        return "\n\n%grmtools {\n" + body + "\n}\n"
    return "%grmtools{" + ", ".join((k + ": " + v) if v is not None else k for k, v in entries) + "}"



# ---- white space around the argument of a constructor value -------------------------------------------------
# /repo fdd053a: `Original( NoAction)` (white space directly after the opening parenthesis) was an IllegalName
# error although white space is skipped between every other pair of lexemes of the section.  The family below is
# part of EVERY run (it does not depend on the seed): every run of CTOR_WS after '(' x every run before ')' x a few
# constructor values and surroundings, and the audit's texts literally.
CTOR_WS = ["", " ", "\n", "\t", "   ", "\n        ", "\r\n\t", "\x0b\x0c", "\x85", "\u2028 ", "\u200e\u200f", " \u2029\n "]
CTOR_VALUES = [(None, "Original", None, "NoAction"), ("YaccKind", "Original", "YaccOriginalActionKind", "NoAction"),
               (None, "Original", "YaccOriginalActionKind", "GenericParseTree"), (None, "Original", None, "UserAction"),
               (None, "X", "Y", "Z"), ("YaccKnd", "Orignal", None, "NoActon")]
CTOR_AUDIT = [
    "%grmtools{yacckind: Original( NoAction)}",
    "%grmtools{yacckind: Original( NoAction )}",
    "%grmtools{\n    yacckind: Original(\n        YaccOriginalActionKind::NoAction\n    ),\n}",
    "%grmtools { yacckind : Original (NoAction ) , }",
    "%grmtools{yacckind: Original(YaccOriginalActionKind :: NoAction)}",
    "%grmtools{yacckind: YaccKind :: Original(NoAction)}",
]


def ctor_value_text(v, after="", before=""):
    cns, c, ans, a = v
    return _nsd(cns, c, False) + "(" + after + _nsd(ans, a, False) + before + ")"


def ctor_ws_headers():
    """[(section text, reference section text)]: the reference is the same section without the white space after
    '(' and before ')' — the parsed VALUE (spans apart) must not depend on it"""
    out = [(t, "%grmtools{yacckind: Original(" + ("YaccOriginalActionKind::" if "Kind::No" in t else "") + "NoAction)}")
           for t in CTOR_AUDIT[:3]]
    for v in CTOR_VALUES:
        ref = "%grmtools{yacckind: " + ctor_value_text(v) + "}"
        for after in CTOR_WS:
            for before in CTOR_WS[:6]:
                if after or before:
                    out.append(("%grmtools{yacckind: " + ctor_value_text(v, after, before) + "}", ref))
    # not the first entry, inside an array, two constructor values in one section, white space that is no lexeme
    # separator elsewhere
    for after in CTOR_WS[1:]:
        out.append(("%grmtools{a: 1, k: [A(" + after + "B), C::D(" + after + "E::F" + after + ")], yacckind: Original(" + after + "NoAction)}",
                    "%grmtools{a: 1, k: [A(B), C::D(E::F)], yacckind: Original(NoAction)}"))
    return out


def enum_value_headers(rng, n_random):
    """list of (text of the section, origin tag): the exhaustive right/absent/wrong product for yacckind, the
    products for the other enum keys, other shapes, several wrong keys at once, and `n_random` random picks out of
    the larger name lists"""
    out = []
    tri = lambda right, wrong: [None, right, wrong]
    # yacckind, constructor form: {absent, right, wrong}^2 x {right, wrong}^2 = 36, both layouts
    for cns in tri("YaccKind", "YaccKnd"):
        for c in ("Original", "Orignal"):
            for ans in tri("YaccOriginalActionKind", "YaccOriginalActionKnd"):
                for a in ("NoAction", "NoActon"):
                    for wide in (False, True):
                        out.append(enum_header([("yacckind", enum_value(cns, c, ans, a, wide))], wide))
    # yacckind, unitary form
    for cns in YK_NS:
        for c in YK_UNIT:
            out.append(enum_header([("yacckind", enum_value(cns, c))]))
    for cns in tri("YaccKind", "Foo"):
        for c in ("Eco", "Bar"):
            out.append(enum_header([("a", "1"), ("yacckind", enum_value(cns, c, wide=True))], True))
    # the other enum keys
    for key, nss, ms in (("recoverer", RK_NS, RK), ("serialisation_format", SF_NS, SF), ("lexerkind", LK_NS, LK)):
        for ns in nss:
            for m in ms:
                out.append(enum_header([("yacckind", "Grmtools"), (key, enum_value(ns, m))]))
        out.append(enum_header([("yacckind", "Grmtools"), (key, enum_value(nss[1], ms[0], "X", "Y"))]))
        out.append(enum_header([(key, enum_value("Foo", "Bar", wide=True)), ("yacckind", "Grmtools")], True))
    # other shapes for every enum key; the key as a flag
    for key in ("yacckind", "recoverer", "serialisation_format", "lexerkind"):
        for v in OTHER_SHAPES:
            out.append(enum_header([(key, v)]))
        out.append(enum_header([(key, None)]))
        out.append(enum_header([("!" + key, None)]))
    # several keys wrong at once
    out.append(enum_header([("yacckind", "Foo::Bar"), ("recoverer", "Foo::Bar"), ("serialisation_format", "Foo::Bar"),
                            ("lexerkind", "Foo::Bar")]))
    out.append(enum_header([("yacckind", "YaccKnd::Orignal(YaccOriginalActionKnd::NoActon)"), ("recoverer", "RecoverKind::CPCT"),
                            ("serialisation_format", "Foo::Bar")], True))
    out.append(enum_header([("yacckind", "Original(NoAction)"), ("recoverer", "Foo::Bar"), ("serialisation_format", "Foo::Bar")]))
    for _ in range(n_random):
        wide = rng.random() < 0.4
        es = [("yacckind", enum_value(rng.choice(YK_NS), rng.choice(YK_CTOR), rng.choice(AK_NS), rng.choice(AK), wide)
               if rng.random() < 0.7 else enum_value(rng.choice(YK_NS), rng.choice(YK_UNIT), wide=wide))]
        if rng.random() < 0.4:
            es.append(("recoverer", enum_value(rng.choice(RK_NS), rng.choice(RK), wide=wide)))
        if rng.random() < 0.4:
            es.append(("serialisation_format", enum_value(rng.choice(SF_NS), rng.choice(SF), wide=wide)))
        if rng.random() < 0.3:
            es.append((name(rng), setting(rng)))
        rng.shuffle(es)
        out.append(enum_header(es, wide))
    return out
