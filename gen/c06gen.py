"""Generators for C06 (complete minimum-cost repair set): grammars x erroneous inputs with
1-2 edits x token-cost functions x %avoid_insert sets.  Inputs are kept short so that the
exhaustive reference (exponential in the repair cost) decides most errors.  Token names never
contain ';' '=' or whitespace."""
from gen import grammars as G
from gen.grammars import Gram
from gen import repairgen

t = lambda x: ('t', x)
r = lambda x: ('r', x)


def witness():
    """DESIGN §9: S: S 'a' B | B; B: 'b' C | ; C: 'c' | 'c' C;"""
    return Gram(["a", "b", "c"], [("S", [[r("S"), t("a"), r("B")], [r("B")]]),
                                  ("B", [[t("b"), r("C")], []]),
                                  ("C", [[t("c")], [t("c"), r("C")]])])


def witness_variant(rng):
    """separator-joined lists of optional elements: a shift of the separator can reduce an empty
    element and the list, returning the parse stack to an equal value"""
    sep, x, y = rng.sample(["a", "b", "c", "d", ";", ","], 3) if rng.random() < 0.5 else ("a", "b", "c")
    sep = {";": "semi", ",": "comma"}.get(sep, sep)
    x = {";": "semi", ",": "comma"}.get(x, x)
    y = {";": "semi", ",": "comma"}.get(y, y)
    toks = [sep, x, y]
    c = rng.random()
    if c < 0.35:
        tail = ("C", [[t(y)], [t(y), r("C")]])
    elif c < 0.7:
        tail = ("C", [[t(y)], [r("C"), t(y)]])
    else:
        tail = ("C", [[t(y)], [t(y), t(y)]])
    if rng.random() < 0.5:
        lst = ("S", [[r("S"), t(sep), r("B")], [r("B")]])
    else:
        lst = ("S", [[r("B")], [r("S"), t(sep), r("B")]])
    rules = [lst, ("B", [[t(x), r("C")], []]), tail]
    if rng.random() < 0.3:
        toks += ["(", ")"]
        rules[1] = ("B", [[t(x), r("C")], [t("("), r("S"), t(")")], []])
    return Gram(toks, rules)


def stmt_list(rng):
    """statement lists with optional parts (nullable-heavy, conflict-free)"""
    toks = ["id", "eq", "n", "semi", "{", "}"]
    rules = [("P", [[r("L")]]),
             ("L", [[], [r("L"), r("St")]]),
             ("St", [[t("id"), t("eq"), r("Ex"), t("semi")], [t("{"), r("L"), t("}")], [t("semi")]]),
             ("Ex", [[t("n")], [t("id")], [r("Ex"), t("eq"), t("n")]] if rng.random() < 0.3 else [[t("n")], [t("id")]])]
    return Gram(toks, rules)


def families(rng):
    cc = G.classic_corpus()
    return [
        ("witness", 5, witness),
        ("witnessvar", 6, lambda: witness_variant(rng)),
        ("calc", 3, lambda: cc[0]),
        ("corchuelo", 2, lambda: cc[1]),
        ("calcvar", 6, lambda: repairgen.calc_variant(rng)),
        ("nullable", 5, lambda: G.nullable_heavy(rng)),
        ("stmtlist", 2, lambda: stmt_list(rng)),
        ("emptyprods", 1, lambda: cc[5]),
        ("reduced", 6, lambda: G.reduced_random_grammar(rng)),
        ("javaish", 1, repairgen.javaish),
        ("pager", 1, lambda: cc[2]),
        ("notlalr", 1, lambda: G.not_lalr_template(rng)),
        ("exprprec", 1, lambda: G.expr_grammar(rng)),
    ]


def cost_function(rng, g):
    toks = g.used_tokens() or g.tokens
    c = rng.random()
    if c < 0.45:
        return "unit", {}
    if c < 0.8:
        return "rand1-5", {x: rng.randint(1, 5) for x in toks}
    return "extreme", {x: rng.choice([1, 1, 255]) for x in toks}


def edit(rng, s, alphabet, k):
    out = list(s)
    for _ in range(k):
        op = rng.choice(["ins", "del", "rep"])
        if op == "ins" or not out:
            out.insert(rng.randint(0, len(out)), rng.choice(alphabet))
        elif op == "del":
            del out[rng.randrange(len(out))]
        else:
            out[rng.randrange(len(out))] = rng.choice(alphabet)
    return out


def erroneous_inputs(rng, g, n, maxlen=12):
    alphabet = g.used_tokens() or g.tokens
    res = []
    guard = 0
    while len(res) < n and guard < 20 * n:
        guard += 1
        s = g.sentence(rng, budget=rng.randint(1, 6))
        c = rng.random()
        if s is None:
            res.append([rng.choice(alphabet) for _ in range(rng.randint(1, 6))])
            continue
        s = s[:maxlen]
        if c < 0.8:
            res.append(edit(rng, s, alphabet, rng.randint(1, 2))[:maxlen + 2])
        elif c < 0.9 and s:
            res.append(s[:rng.randint(0, len(s) - 1)])                 # truncated: error at end of input
        else:
            res.append([rng.choice(alphabet) for _ in range(rng.randint(1, 7))])
    return res


def witness_inputs(rng, g, n):
    """for the list grammars: element, separators that follow an element whose tail is missing"""
    toks = g.tokens
    sep, x, y = toks[0], toks[1], toks[2]
    res = [[x, sep, sep], [x, sep], [x, sep, sep, sep], [x, y, sep, x, sep, sep], [sep, x, sep, sep]]
    while len(res) < n:
        k = rng.randint(1, 4)
        s = []
        for i in range(k):
            if i:
                s.append(sep)
            c = rng.random()
            if c < 0.5:
                s += [x] + [y] * rng.randint(0, 2)
            elif c < 0.6:
                s += [y]
        if rng.random() < 0.3:
            s = edit(rng, s, toks, 1)
        res.append(s[:12])
    return res[:n]


def small_grammars():
    """calculator-like conflict-free grammars for the exhaustive small-input corpus"""
    cc = G.classic_corpus()
    g3 = Gram(["+", "n", "(", ")"], [("E", [[r("E"), t("+"), r("T")], [r("T")]]),
                                     ("T", [[t("n")], [t("("), r("E"), t(")")]])])
    g4 = Gram(["semi", "n", "(", ")"], [("S", [[r("S"), t("semi"), r("E")], [r("E")]]),
                                        ("E", [[t("n")], [t("("), r("S"), t(")")], [t("("), t(")")]])])
    return [("calc", cc[0]), ("corchuelo", cc[1]), ("sum", g3), ("seq", g4)]


def corpus_cases(rng, sample_long, chunk=40):
    """Corpus first: every small grammar x {no %avoid_insert, %avoid_insert on each single token} (the declaration
    also renumbers the tokens, hence reorders the search) x ALL inputs up to length 3 over the alphabet plus a seeded
    sample of length 4-5; unit costs.  Search-order dependent losses (a neighbour discarded instead of merged in the
    same-cost sweep) show on inputs as short as `) (`."""
    import itertools
    out = []
    for name, g in small_grammars():
        toks = g.used_tokens() or g.tokens
        inputs = [list(x) for n in range(1, 4) for x in itertools.product(toks, repeat=n)]
        inputs += [[rng.choice(toks) for _ in range(rng.randint(4, 5))] for _ in range(sample_long)]
        for av in [None] + list(toks):
            g2 = Gram(g.tokens, [(n, [(list(sy), p) for sy, p in ps]) for n, ps in g.rules], precs=g.precs, start=g.start,
                      avoid_insert=[av] if av else [])
            for i in range(0, len(inputs), chunk):
                out.append(("small_" + name, g2, "unit", {}, inputs[i:i + chunk]))
    return out


def long_tail_cases():
    """Errors followed by MORE than TRY_PARSE_AT_MOST (250) error-free lexemes: only there does the cap of the ranking
    parse (in_laidx + TRY_PARSE_AT_MOST) bind, so only there can candidates that consume different amounts of input be
    told apart wrongly (a cap taken relative to the position AFTER the repair favours deleting sequences)."""
    out = []
    sm = dict(small_grammars())
    g = sm["sum"]
    tail = ["+", "n"] * 140
    ins = [["n", "+", "+", "n"] + tail, ["n", "n"] + tail, ["+", "n"] + tail, ["(", "n", "+", "+", "n", ")"] + tail,
           ["n", "+", ")", "n"] + tail]
    for av in (None, "n", "+"):
        g2 = Gram(g.tokens, [(n, [(list(sy), p) for sy, p in ps]) for n, ps in g.rules], precs=g.precs, start=g.start,
                  avoid_insert=[av] if av else [])
        out.append(("longtail_sum", g2, "unit", {}, ins))
    g = sm["seq"]
    tail = ["semi", "n"] * 140
    out.append(("longtail_seq", g, "unit", {}, [["n", "semi", "semi", "n"] + tail, ["n", "n"] + tail, ["(", "semi", "n"] + tail]))
    return out


def gen_cases(ctx, n_cases, n_inputs):
    """-> list of (family, Gram, costname, costs dict, inputs)"""
    rng = ctx.rng
    fams = families(rng)
    out = []
    guard = 0
    while len(out) < n_cases and guard < 50 * n_cases:
        guard += 1
        if not out:
            name, f = "witness", witness            # the DESIGN §9 witness is always the first case
        else:
            name, _, f = rng.choices(fams, [w for _, w, _ in fams])[0]
        g = f()
        if g is None:
            continue
        if g.derives_cycle():
            ctx.count("skipped_cyclic")
            continue
        if not out:
            out.append((name, g, "unit", {}, [["b", "a", "a"], ["b", "a", "a", "a"], ["b", "a"], ["b", "c", "a", "a", "c"]]))
            continue
        g = repairgen.with_avoid(rng, g)
        cname, costs = cost_function(rng, g)
        if name in ("witness", "witnessvar"):
            inputs = witness_inputs(rng, g, n_inputs)
        else:
            inputs = erroneous_inputs(rng, g, n_inputs)
        out.append((name, g, cname, costs, inputs))
    return out
