"""Generators for C06 (complete minimum-cost repair set): grammars x erroneous inputs with
1-2 edits x token-cost functions x %avoid_insert sets.  Inputs are kept short so that the
exhaustive reference (exponential in the repair cost) decides most errors.  Token names never
contain ';' '=' or whitespace."""
from gen import grammars as G
from gen.grammars import Gram
from gen import repairgen

t = lambda x: ('t', x)
r = lambda x: ('r', x)


def witness():
    """DESIGN §9: S: S 'a' B | B; B: 'b' C | ; C: 'c' | 'c' C;"""
    return Gram(["a", "b", "c"], [("S", [[r("S"), t("a"), r("B")], [r("B")]]),
                                  ("B", [[t("b"), r("C")], []]),
                                  ("C", [[t("c")], [t("c"), r("C")]])])


def witness_variant(rng):
    """separator-joined lists of optional elements: a shift of the separator can reduce an empty
    element and the list, returning the parse stack to an equal value"""
    sep, x, y = rng.sample(["a", "b", "c", "d", ";", ","], 3) if rng.random() < 0.5 else ("a", "b", "c")
    sep = {";": "semi", ",": "comma"}.get(sep, sep)
    x = {";": "semi", ",": "comma"}.get(x, x)
    y = {";": "semi", ",": "comma"}.get(y, y)
    toks = [sep, x, y]
    c = rng.random()
    if c < 0.35:
        tail = ("C", [[t(y)], [t(y), r("C")]])
    elif c < 0.7:
        tail = ("C", [[t(y)], [r("C"), t(y)]])
    else:
        tail = ("C", [[t(y)], [t(y), t(y)]])
    if rng.random() < 0.5:
        lst = ("S", [[r("S"), t(sep), r("B")], [r("B")]])
    else:
        lst = ("S", [[r("B")], [r("S"), t(sep), r("B")]])
    rules = [lst, ("B", [[t(x), r("C")], []]), tail]
    if rng.random() < 0.3:
        toks += ["(", ")"]
        rules[1] = ("B", [[t(x), r("C")], [t("("), r("S"), t(")")], []])
    return Gram(toks, rules)


def stmt_list(rng):
    """statement lists with optional parts (nullable-heavy, conflict-free)"""
    toks = ["id", "eq", "n", "semi", "{", "}"]
    rules = [("P", [[r("L")]]),
             ("L", [[], [r("L"), r("St")]]),
             ("St", [[t("id"), t("eq"), r("Ex"), t("semi")], [t("{"), r("L"), t("}")], [t("semi")]]),
             ("Ex", [[t("n")], [t("id")], [r("Ex"), t("eq"), t("n")]] if rng.random() < 0.3 else [[t("n")], [t("id")]])]
    return Gram(toks, rules)


def families(rng):
    cc = G.classic_corpus()
    return [
        ("witness", 5, witness),
        ("witnessvar", 6, lambda: witness_variant(rng)),
        ("calc", 3, lambda: cc[0]),
        ("corchuelo", 2, lambda: cc[1]),
        ("calcvar", 6, lambda: repairgen.calc_variant(rng)),
        ("nullable", 5, lambda: G.nullable_heavy(rng)),
        ("stmtlist", 2, lambda: stmt_list(rng)),
        ("emptyprods", 1, lambda: cc[5]),
        ("reduced", 6, lambda: G.reduced_random_grammar(rng)),
        ("javaish", 1, repairgen.javaish),
        ("pager", 1, lambda: cc[2]),
        ("notlalr", 1, lambda: G.not_lalr_template(rng)),
        ("exprprec", 1, lambda: G.expr_grammar(rng)),
    ]


def cost_function(rng, g):
    toks = g.used_tokens() or g.tokens
    c = rng.random()
    if c < 0.45:
        return "unit", {}
    if c < 0.8:
        return "rand1-5", {x: rng.randint(1, 5) for x in toks}
    return "extreme", {x: rng.choice([1, 1, 255]) for x in toks}


def edit(rng, s, alphabet, k):
    out = list(s)
    for _ in range(k):
        op = rng.choice(["ins", "del", "rep"])
        if op == "ins" or not out:
            out.insert(rng.randint(0, len(out)), rng.choice(alphabet))
        elif op == "del":
            del out[rng.randrange(len(out))]
        else:
            out[rng.randrange(len(out))] = rng.choice(alphabet)
    return out


def erroneous_inputs(rng, g, n, maxlen=12):
    alphabet = g.used_tokens() or g.tokens
    res = []
    guard = 0
    while len(res) < n and guard < 20 * n:
        guard += 1
        s = g.sentence(rng, budget=rng.randint(1, 6))
        c = rng.random()
        if s is None:
            res.append([rng.choice(alphabet) for _ in range(rng.randint(1, 6))])
            continue
        s = s[:maxlen]
        if c < 0.8:
            res.append(edit(rng, s, alphabet, rng.randint(1, 2))[:maxlen + 2])
        elif c < 0.9 and s:
            res.append(s[:rng.randint(0, len(s) - 1)])                 # truncated: error at end of input
        else:
            res.append([rng.choice(alphabet) for _ in range(rng.randint(1, 7))])
    return res


def witness_inputs(rng, g, n):
    """for the list grammars: element, separators that follow an element whose tail is missing"""
    toks = g.tokens
    sep, x, y = toks[0], toks[1], toks[2]
    res = [[x, sep, sep], [x, sep], [x, sep, sep, sep], [x, y, sep, x, sep, sep], [sep, x, sep, sep]]
    while len(res) < n:
        k = rng.randint(1, 4)
        s = []
        for i in range(k):
            if i:
                s.append(sep)
            c = rng.random()
            if c < 0.5:
                s += [x] + [y] * rng.randint(0, 2)
            elif c < 0.6:
                s += [y]
        if rng.random() < 0.3:
            s = edit(rng, s, toks, 1)
        res.append(s[:12])
    return res[:n]


def small_grammars():
    """calculator-like conflict-free grammars for the exhaustive small-input corpus"""
    cc = G.classic_corpus()
    g3 = Gram(["+", "n", "(", ")"], [("E", [[r("E"), t("+"), r("T")], [r("T")]]),
                                     ("T", [[t("n")], [t("("), r("E"), t(")")]])])
    g4 = Gram(["semi", "n", "(", ")"], [("S", [[r("S"), t("semi"), r("E")], [r("E")]]),
                                        ("E", [[t("n")], [t("("), r("S"), t(")")], [t("("), t(")")]])])
    return [("calc", cc[0]), ("corchuelo", cc[1]), ("sum", g3), ("seq", g4)]


def corpus_cases(rng, sample_long, chunk=40):
    """Corpus first: every small grammar x {no %avoid_insert, %avoid_insert on each single token} (the declaration
    also renumbers the tokens, hence reorders the search) x ALL inputs up to length 3 over the alphabet plus a seeded
    sample of length 4-5; unit costs.  Search-order dependent losses (a neighbour discarded instead of merged in the
    same-cost sweep) show on inputs as short as `) (`."""
    import itertools
    out = []
    for name, g in small_grammars():
        toks = g.used_tokens() or g.tokens
        inputs = [list(x) for n in range(1, 4) for x in itertools.product(toks, repeat=n)]
        inputs += [[rng.choice(toks) for _ in range(rng.randint(4, 5))] for _ in range(sample_long)]
        for av in [None] + list(toks):
            g2 = Gram(g.tokens, [(n, [(list(sy), p) for sy, p in ps]) for n, ps in g.rules], precs=g.precs, start=g.start,
                      avoid_insert=[av] if av else [])
            for i in range(0, len(inputs), chunk):
                out.append(("small_" + name, g2, "unit", {}, inputs[i:i + chunk]))
    return out


def long_tail_cases():
    """Errors followed by MORE than TRY_PARSE_AT_MOST (250) error-free lexemes: only there does the cap of the ranking
    parse (in_laidx + TRY_PARSE_AT_MOST) bind, so only there can candidates that consume different amounts of input be
    told apart wrongly (a cap taken relative to the position AFTER the repair favours deleting sequences)."""
    out = []
    sm = dict(small_grammars())
    g = sm["sum"]
    tail = ["+", "n"] * 140
    ins = [["n", "+", "+", "n"] + tail, ["n", "n"] + tail, ["+", "n"] + tail, ["(", "n", "+", "+", "n", ")"] + tail,
           ["n", "+", ")", "n"] + tail]
    for av in (None, "n", "+"):
        g2 = Gram(g.tokens, [(n, [(list(sy), p) for sy, p in ps]) for n, ps in g.rules], precs=g.precs, start=g.start,
                  avoid_insert=[av] if av else [])
        out.append(("longtail_sum", g2, "unit", {}, ins))
    g = sm["seq"]
    tail = ["semi", "n"] * 140
    out.append(("longtail_seq", g, "unit", {}, [["n", "semi", "semi", "n"] + tail, ["n", "n"] + tail, ["(", "semi", "n"] + tail]))
    return out


# ---- past the look-ahead cap of the ranking (rank_cnds; /repo 00915cc) ---------------------------------------------
def rankcap_grammar(ki, kd):
    """S: 'a' R;  R: 'e' Bs 'c' <tail after the insertion> | 'c' <tail after the deletions>;  Bs: | Bs 'b';
    a tail is `'d'^k 'x'` (parsing stops k lexemes after the 'c') or, for k = None, `Ds` with Ds: | Ds 'd' | Ds 'y'
    (everything is accepted).  On `a b^n c d.. ` the error is at the first 'b'; with cost(b) = 1 and every other token
    costing n, [Insert e] and [Delete b x n] cost the same.  The auditor's grammar is (None, 3)."""
    def tail(k):
        return [r("Ds")] if k is None else [t("d")] * k + [t("x")]
    rules = [("S", [[t("a"), r("R")]]),
             ("R", [[t("e"), r("Bs"), t("c")] + tail(ki), [t("c")] + tail(kd)]),
             ("Bs", [[], [r("Bs"), t("b")]])]
    if ki is None or kd is None:
        rules.append(("Ds", [[], [r("Ds"), t("d")], [r("Ds"), t("y")]]))
    return Gram(["a", "b", "c", "d", "e", "x", "y"], rules)


def rankcap_case(n, ki, kd, m, last=None):
    g = rankcap_grammar(ki, kd)
    if last is None:
        last = "y" if (ki is None or kd is None) else "d"      # 'y' is a token of the grammar only with Ds
    costs = {x: n for x in g.tokens}
    costs["b"] = 1
    return ("rankcap_del%d" % n, g, "b1_others%d" % n, costs, [["a"] + ["b"] * n + ["c"] + ["d"] * m + [last]])


def rankcap_unit(groups):
    """the auditor's unit-cost demonstration: deleting the `groups` x's ends at in_laidx + 3*groups - 1, inserting as many k's
    costs the same and accepts the input just the same"""
    g = Gram(["p", "q", "x", "z", "k"],
             [("S", [[t("p"), t("q"), r("Rest")]]),
              ("Rest", [[r("Ps"), t("z")], [t("k")] * groups + [t("x"), r("Ts"), t("z")]]),
              ("Ps", [[], [r("Ps"), t("p"), t("q")]]),
              ("Ts", [[], [r("Ts"), t("p"), t("q"), t("x")]])])
    return ("rankcap_unit%d" % groups, g, "unit", {}, [["p", "q", "x"] * groups + ["z"]])


def rankcap_cases(rng, n_generated, thorough=False):
    """One candidate deletes >= TRY_PARSE_AT_MOST - 3 lexemes (its three trailing shifts then end AT or BEYOND in_laidx + 250),
    another inserts one token; both directions: the inserting candidate truly parses further (auditor: tails (None, 3)), the
    deleting one truly parses further ((k, None)), both to the end, and the controls on either side of the threshold (the
    deleting candidate ends below the cap: n <= 246; the inserting one fails before the cap: ki = 0 with n = 248)."""
    out = [rankcap_case(255, None, 3, 3), rankcap_case(240, None, 3, 3),        # the auditor's two runs
           rankcap_case(248, 6, None, 9, "d"), rankcap_case(248, 0, None, 5), rankcap_case(247, None, 3, 5),
           rankcap_case(250, None, None, 4)]
    grid = [(n, ki, kd, m) for n in range(243, 256) for ki in (None, 0, 1, 3, 7) for kd in (None, 2, 3, 6) for m in (4, 8)]
    if thorough:
        out += [rankcap_case(*x) for x in grid]
    else:
        out += [rankcap_case(*x) for x in rng.sample(grid, n_generated)]
    return out


def gen_cases(ctx, n_cases, n_inputs):
    """-> list of (family, Gram, costname, costs dict, inputs)"""
    rng = ctx.rng
    fams = families(rng)
    out = []
    guard = 0
    while len(out) < n_cases and guard < 50 * n_cases:
        guard += 1
        if not out:
            name, f = "witness", witness            # the DESIGN §9 witness is always the first case
        else:
            name, _, f = rng.choices(fams, [w for _, w, _ in fams])[0]
        g = f()
        if g is None:
            continue
        if g.derives_cycle():
            ctx.count("skipped_cyclic")
            continue
        if not out:
            out.append((name, g, "unit", {}, [["b", "a", "a"], ["b", "a", "a", "a"], ["b", "a"], ["b", "c", "a", "a", "c"]]))
            continue
        g = repairgen.with_avoid(rng, g)
        cname, costs = cost_function(rng, g)
        if name in ("witness", "witnessvar"):
            inputs = witness_inputs(rng, g, n_inputs)
        else:
            inputs = erroneous_inputs(rng, g, n_inputs)
        out.append((name, g, cname, costs, inputs))
    return out
