"""Generator of .l specifications, inputs, id maps and raw rule tables for C09.

A spec is built from regex fragments with known sample strings, so that inputs
(concatenations of samples plus junk) exercise overlapping matches: keyword vs
identifier in both orders, equal-length ties, prefixes (`=` / `==` / `=+`),
leftmost-first alternations (`a|ab`), possibly-empty matches (`x*`), lazy
quantifiers, multi-byte text (2-, 3- and 4-byte characters), skip rules,
inclusive/exclusive start states, rules restricted to several states, and
push / pop / replace targets (repeated pushes of one state and pops past the
bottom arise from inputs repeating the samples of such rules).
"""

# (regex as written in the .l file, samples it matches)
FRAGS = [
    ("if", ["if"]), ("in", ["in"]), ("int", ["int"]), ("else", ["else"]),
    ("[a-z]+", ["if", "i", "int", "inx", "else", "abc", "z"]),
    ("[a-z][a-z0-9_]*", ["a1", "if0", "x_y", "in"]),
    ("[a-zA-Z]+", ["If", "AB", "int"]),
    ("[0-9]+", ["0", "42"]),
    ("[0-9]+\\.[0-9]+", ["1.5", "42.0"]),
    ("[0-9]*", ["7", "07"]),
    ("=", ["="]), ("==", ["=="]), ("=+", ["===", "="]), ("=>", ["=>"]),
    ("\\<=", ["<="]), ("\\<", ["<"]), ("\\<\\<", ["<<"]),
    ("\\+", ["+"]), ("\\+\\+", ["++"]), ("\\+=", ["+="]),
    ("\\(", ["("]), ("\\)", [")"]), ("\\{", ["{"]), ("\\}", ["}"]),
    ("[ \\t]+", [" ", "  ", "\t"]), ("\\n", ["\n"]), ("[ \\t\\n]+", [" \n", " "]),
    ("\u00e9+", ["\u00e9", "\u00e9\u00e9"]), ("\u2660", ["\u2660"]), ("[\u00e9\u2660]+", ["\u00e9\u2660", "\u2660"]),
    ("\\p{L}+", ["\u00e9a", "\u0436", "if"]), ("\U0001F600", ["\U0001F600"]),
    ("[^a-z \\n]", ["\u2660", "\U0001F600", "?", "7"]), ("[^\\x00-\\x7f]+", ["\u00e9\u2660\U0001F600"]),
    (".", ["?", "\u00e9", "\n", "a"]), ("..", ["a\u00e9", "=="]),
    ("a|ab", ["a", "ab"]), ("ab|a", ["ab", "a"]), ("(ab)*", ["abab", "ab"]), ("x*", ["xx", "x"]),
    ("a*b", ["aab", "b"]), ("a{2,3}", ["aa", "aaa", "aaaa"]), ("[a-z]+?", ["ab"]), ("a+?b?", ["aab", "ab"]),
    ("\"[^\"]*\"", ['"s t"', '""']), ("/\\*", ["/*"]), ("\\*/", ["*/"]), ("//[^\\n]*", ["// c", "//"]),
    ("\\bif\\b", ["if"]), ("^a", ["a"]), ("a$", ["a"]), ("b\\b", ["b"]),
    ("IF", ["IF"]), ("[A-Z]+", ["IF", "X"]),
]
JUNK = ["?", "#", "~", "\u00e9", "\u2660", "\U0001F600", "\u00df", "0", "a", " ", "\n", "Z", "\u0301"]
STATE_NAMES = ["A", "B", "C"]
BOOL_FLAGS = ["case_insensitive", "dot_matches_new_line", "multi_line", "swap_greed", "unicode",
              "octal", "ignore_whitespace", "posix_escapes", "allow_wholeline_comments"]


class Spec:
    def __init__(self):
        self.states = []       # (name, exclusive)
        self.rules = []        # dict(re, samples, name or None, starts [names], target (op, name) or None)
        self.flags = {}        # name -> bool

    def text(self):
        out = []
        if self.flags:
            out.append("%grmtools {" + ", ".join(("" if v else "!") + k for k, v in self.flags.items()) + "}")
        for name, ex in self.states:
            out.append("%s %s" % ("%x" if ex else "%s", name))
        out.append("%%")
        for r in self.rules:
            pre = "<%s>" % ",".join(r["starts"]) if r["starts"] else ""
            tgt = ""
            if r["target"]:
                op, st = r["target"]
                tgt = "<%s%s>" % ({"push": "+", "pop": "-", "replace": ""}[op], st)
            name = ";" if r["name"] is None else "'%s'" % r["name"]
            out.append("%s%s %s%s" % (pre, r["re"], tgt, name))
        return "\n".join(out) + "\n"

    def flags_field(self):
        if not self.flags:
            return "-"
        return ",".join("%s=%d" % (k, 1 if v else 0) for k, v in self.flags.items())

    def names(self):
        return [r["name"] for r in self.rules if r["name"] is not None]


def random_spec(rng, with_flags=False):
    sp = Spec()
    nst = rng.choice([0, 0, 1, 2, 2, 3])
    for nm in STATE_NAMES[:nst]:
        sp.states.append((nm, rng.random() < 0.5))
    allstates = ["INITIAL"] + [s for s, _ in sp.states]
    nrules = rng.randint(2, 8)
    # families that overlap: pick a theme and fill up with random fragments
    themes = [["if", "[a-z]+", "[ \\t]+"], ["=", "==", "=+"], ["a|ab", "ab|a", "a*b", "[a-z]+"],
              ["\u00e9+", "[\u00e9\u2660]+", "\\p{L}+", "."], ["\\(", "\\)", "[a-z]+", "[ \\t\\n]+"],
              ["[0-9]+", "[0-9]+\\.[0-9]+", "[0-9]*", "."], ["int", "in", "[a-z][a-z0-9_]*", "[a-zA-Z]+"],
              ["x*", "(ab)*", "[a-z]+?", "a{2,3}"], ["/\\*", "\\*/", ".", "//[^\\n]*"], []]
    chosen = list(rng.choice(themes))
    rng.shuffle(chosen)
    chosen = chosen[:nrules]
    while len(chosen) < nrules:
        chosen.append(rng.choice(FRAGS)[0])
    rng.shuffle(chosen)
    fr = dict(FRAGS)
    for i, re in enumerate(chosen):
        r = {"re": re, "samples": fr[re], "name": None if rng.random() < 0.22 else "T%d" % i,
             "starts": [], "target": None}
        if nst and rng.random() < 0.4:
            k = rng.randint(1, min(3, len(allstates)))
            r["starts"] = rng.sample(allstates, k)
        if nst and rng.random() < 0.4:
            op = rng.choice(["push", "push", "pop", "pop", "replace"])
            r["target"] = (op, rng.choice(allstates))
        sp.rules.append(r)
    # make every exclusive state usable: some rule lists it
    for nm, ex in sp.states:
        if ex and not any(nm in r["starts"] for r in sp.rules) and rng.random() < 0.8:
            r = rng.choice(sp.rules)
            r["starts"] = sorted(set(r["starts"] + [nm] + (["INITIAL"] if not r["starts"] else [])))
    if with_flags:
        for f in rng.sample(BOOL_FLAGS, rng.randint(1, 3)):
            sp.flags[f] = rng.random() < 0.6
    return sp


def stack_spec(rng):
    """start-state heavy family: every state can be pushed, popped and replaced
    from everywhere, and an observer rule `x` reveals the current state, so that
    the whole stack discipline (repeated pushes of one state, pops down to and
    past the bottom, replace followed by pops) is visible in the lexemes"""
    sp = Spec()
    nst = rng.randint(1, 3)
    for nm in STATE_NAMES[:nst]:
        sp.states.append((nm, rng.random() < 0.5))
    allstates = ["INITIAL"] + [s for s, _ in sp.states]
    everywhere = list(allstates)
    k = 0

    def add(re, name, starts, target):
        sp.rules.append({"re": re, "samples": [re], "name": name, "starts": starts, "target": target})
    letters = "abcdefgh"
    for st in allstates:
        for op in ("push", "replace"):
            if rng.random() < 0.75:
                add(letters[k % 8] * (1 + k // 8), None if rng.random() < 0.3 else "M%d" % k,
                    everywhere if rng.random() < 0.8 else rng.sample(allstates, rng.randint(1, len(allstates))),
                    (op, st))
                k += 1
    add("p", None if rng.random() < 0.3 else "POP", everywhere, ("pop", rng.choice(allstates)))
    for st in allstates:
        add("x", "X_%s" % st, [st], None)
    if rng.random() < 0.5:
        add("y", "Y", [], None)           # active exactly in the inclusive states
    rng.shuffle(sp.rules)
    return sp


def stack_input(rng, sp):
    movers = [r["re"] for r in sp.rules if r["target"] and r["target"][0] != "pop"]
    out = []
    for _ in range(rng.randint(2, 16)):
        x = rng.random()
        if x < 0.35 and movers:
            out.append(rng.choice(movers) * rng.choice([1, 1, 2, 3]))     # repeated push of one state
        elif x < 0.65:
            out.append("p" * rng.choice([1, 1, 1, 2]))
        elif x < 0.93:
            out.append("x")
        else:
            out.append("y")
    return "".join(out)


def random_input(rng, sp):
    mode = rng.random()
    if mode < 0.03:
        return ""
    parts = []
    k = rng.randint(1, 10)
    pool = [s for r in sp.rules for s in r["samples"]]
    # rules with targets: favour their samples so that the stack moves (repeated pushes, pops past the bottom)
    movers = [s for r in sp.rules if r["target"] for s in r["samples"]]
    for _ in range(k):
        x = rng.random()
        if movers and x < 0.35:
            parts.append(rng.choice(movers))
        elif x < 0.85:
            parts.append(rng.choice(pool))
        elif x < 0.93:
            parts.append(rng.choice(rng.choice(FRAGS)[1]))
        else:
            parts.append(rng.choice(JUNK))
    s = "".join(parts)
    if sp.flags.get("case_insensitive") and rng.random() < 0.5:
        s = s.upper() if rng.random() < 0.5 else s.swapcase()
    return s


CORPUS = [
    # keyword before / after identifier (equal-length tie both ways), skip rule
    ("%%\nif 'IF'\n[a-z]+ 'ID'\n[ \\t\\n]+ ;\n", ["if ifx i if", "if", "iff if\n"]),
    ("%%\n[a-z]+ 'ID'\nif 'IF'\n[ \\t\\n]+ ;\n", ["if ifx i if", "if"]),
    # longest wins over earlier
    ("%%\n= 'EQ'\n== 'EQEQ'\n=+ 'EQS'\n", ["=", "==", "===", "===="]),
    # a rule that can match the empty string never produces an empty lexeme
    ("%%\nx* 'XS'\n[0-9]* 'NUM'\ny 'Y'\n", ["xxy7", "y", "z", "yz", ""]),
    # leftmost-first inside one regex is the regex crate's business; across rules longest wins
    ("%%\na|ab 'A1'\nab|a 'A2'\nb 'B'\n", ["ab", "abab", "aab"]),
    # multi-byte
    ("%%\n\u00e9+ 'E'\n\u2660 'S'\n\U0001F600 'G'\n. 'DOT'\n", ["\u00e9\u00e9\u2660\U0001F600a", "\U0001F600\u00e9", "a\u0301"]),
    # inclusive vs exclusive, push / repeated push / pops down to and past the bottom
    ("%x X\n%s I\n%%\nab 'KW'\n[a-z]+ 'ID'\n\\( <+X>;\n<X>\\( <+X>'OPEN'\n<X,INITIAL>\\) <-X>'CLOSE'\n<X>[a-z] 'CH'\n"
     "\\[ <+I>'LB'\n<I>\\] <-I>'RB'\n<I>ab 'IKW'\n",
     ["ab((a)))a?", "((((x))))))ab", "[ab[ab]ab]ab]", "[(a)ab]", "(ab", ")ab)"]),
    # replace clears the whole stack; pop afterwards resets to INITIAL
    ("%x S T\n%%\na <+S>'A'\n<S>a <+S>'SA'\n<S>b <+T>'SB'\n<T>c <INITIAL>'TC'\n<T>d <S>'TD'\n<S,T>p <-S>'P'\nb 'B'\n",
     ["aaabcb", "aabdppppb", "abppb", "aabpppb", "abdpb", "aaapapppb"]),
    # same state pushed from different states, interleaved
    ("%s A B\n%%\n<INITIAL,A,B>a <+A>'PA'\n<INITIAL,A,B>b <+B>'PB'\n<A>x <-A>'XA'\n<B>x <-B>'XB'\n<INITIAL>x 'XI'\n",
     ["aabbaxxxxxxx", "abababxxxxxxx", "aaaxxxx", "x", "bxx"]),
    # %grmtools header
    ("%grmtools {case_insensitive}\n%%\nif 'IF'\n[a-z]+ 'ID'\n[ ]+ ;\n", ["IF iF x"]),
]
CORPUS_FLAGS = {9: "case_insensitive=1"}


def random_map(rng, names):
    """an id map for set_rule_ids: a random subset of the names, some foreign names"""
    keys = [n for n in names if rng.random() < rng.choice([0.0, 0.5, 0.9, 1.0])]
    for i in range(rng.choice([0, 0, 1, 2])):
        keys.append("U%d" % i)
    rng.shuffle(keys)
    return [(k, rng.randint(0, 40)) for k in keys]


def random_table(rng):
    """a raw rule/start-state table for from_rules: things the .l parser never
    produces — missing INITIAL, dangling targets, duplicate state ids, duplicate
    names, named rules without id"""
    lits = ["a", "b", "ab", "aa", "c", "[ab]+", "a*"]
    nst = rng.randint(0, 3)
    ids = [0] if rng.random() < 0.85 else []
    for _ in range(nst):
        ids.append(rng.choice([1, 2, 3, rng.choice(ids) if ids else 1]))
    rng.shuffle(ids)
    states = [(i, rng.random() < 0.4) for i in ids]
    rules = []
    for k in range(rng.randint(1, 5)):
        name = None if rng.random() < 0.25 else rng.choice(["T0", "T1", "T2", "T3"])
        tok = None if rng.random() < 0.15 else rng.randint(0, 9)
        starts = rng.sample([0, 1, 2, 3], rng.choice([0, 0, 1, 2]))
        tgt = None
        if rng.random() < 0.5:
            tgt = (rng.choice(["P", "O", "R"]), rng.choice([0, 1, 2, 3, 4]))
        rules.append((name, tok, starts, tgt, rng.choice(lits)))
    inp = "".join(rng.choice(["a", "b", "ab", "c", "aa", "?"]) for _ in range(rng.randint(0, 8)))
    return rules, states, inp


# ---- look-behind family (known finding C09-lookbehind-slice) ---------------------------------
# rules whose regex looks at the text BEFORE the position (`^` under multi_line, `\A`, `\b`, `\B`,
# `\b{start}`, ...) next to plain rules that consume the same text, so that such a rule is tried at
# positions that are not the start of the input / of a line / of a word.
LOOK_FRAGS = [
    ("^a", ["a"]), ("^[a-z]+", ["ab", "if"]), ("^#[a-z]+", ["#inc"]), ("\\Aa", ["a"]), ("\\A[a-z]", ["x", "a"]),
    ("\\bfoo", ["foo"]), ("\\b[0-9]+", ["1", "42"]), ("\\bif\\b", ["if"]), ("\\Bb", ["b"]), ("\\Ba+", ["a", "aa"]),
    ("(?m:^)x", ["x"]), ("(?-m)^a", ["a"]), ("\\b{start}if", ["if"]), ("\\b{start-half}[a-z]+", ["ab", "x"]),
    ("(^|x)a", ["a", "xa"]), ("(?:\\b|_)z", ["z", "_z"]), ("\\B_", ["_"]),
    # assertions inside / at the end of the match: flagged by the HIR, the rows of the two tables agree
    ("a\\b", ["a"]), ("[a-z]+\\b", ["ab", "foo"]), ("a$", ["a"]), ("[0-9]\\B", ["1"]), ("x\\b{end}", ["x"]),
]
LOOK_PLAIN = [
    ("a", ["a"]), ("b", ["b"]), ("x", ["x"]), ("z", ["z"]), ("[a-z]", ["c", "q"]), ("[a-z]+", ["ab", "foo", "if"]),
    ("[0-9]", ["1"]), ("[0-9]+", ["42"]), ("\\n", ["\n"]), ("[ ]+", [" "]), ("_", ["_"]), ("#", ["#"]),
    ("foo", ["foo"]), ("if", ["if"]), ("\\r", ["\r"]), ("\u00e9", ["\u00e9"]), ("-", ["-"]),
]
LOOK_FLAGS = ["multi_line", "unicode", "case_insensitive", "dot_matches_new_line"]

# the auditors' inputs (C09 audit 1 (a), (b); C11 audit 5 (1), (2), (3)), then hand-written ones
LOOK_CORPUS = [
    ("%%\n^a 'LINE_START_A'\nb 'B'\na 'A'\n", ["ba", "ab\na", "aa"]),
    ("%%\nx 'X'\n\\bfoo 'FOO'\n", ["xfoo", "foo", "x foo"]),
    ("%%\n^a 'BOL_A'\na 'A'\n\\n 'NL'\n", ["aa\na", "a\naa\n"]),
    ("%%\n\\Aa 'FIRST'\na 'A'\n", ["aa", "a"]),
    ("%%\n[a-z] 'L'\n\\b[0-9] 'NUM'\n", ["a1", "1a1", "11"]),
    ("%%\n\\Bb 'INNER_B'\nb 'B'\na 'A'\n[ ] ;\n", ["ab b", "bb"]),
    ("%%\n\\b{start}if 'IF'\n[a-z] 'CH'\n", ["ifif", "xif if"]),
    # start states: the assertion is evaluated after a push, in the middle of the text
    ("%x S\n%%\n\\( <+S>'OPEN'\n<S>^a 'BOL_A'\n<S>a 'A'\n<S>\\) <-S>'CLOSE'\n<S>\\n 'NL'\n", ["(a)", "(aa\na)", "(\naa)"]),
    # `^` without multi_line is `\A`
    ("%grmtools {!multi_line}\n%%\n^a 'FIRST'\na 'A'\n\\n 'NL'\n", ["a\na", "aa"]),
]
LOOK_CORPUS_FLAGS = {8: "multi_line=0"}


def look_spec(rng):
    sp = Spec()
    fr = dict(LOOK_FRAGS + LOOK_PLAIN)
    res = [f for f, _ in rng.sample(LOOK_FRAGS, rng.randint(1, 3))] + \
          [f for f, _ in rng.sample(LOOK_PLAIN, rng.randint(1, 4))]
    rng.shuffle(res)
    with_state = rng.random() < 0.25
    if with_state:
        sp.states.append(("S", rng.random() < 0.6))
    for i, re in enumerate(res):
        r = {"re": re, "samples": fr[re], "name": None if rng.random() < 0.15 else "T%d" % i, "starts": [], "target": None}
        if with_state and rng.random() < 0.5:
            r["starts"] = rng.choice([["S"], ["INITIAL", "S"], ["INITIAL"]])
        sp.rules.append(r)
    if with_state:
        sp.rules.insert(rng.randint(0, len(sp.rules)),
                        {"re": "\\(", "samples": ["("], "name": "OPEN", "starts": [], "target": ("push", "S")})
        sp.rules.insert(rng.randint(0, len(sp.rules)),
                        {"re": "\\)", "samples": [")"], "name": "CLOSE", "starts": ["S"], "target": ("pop", "S")})
    if rng.random() < 0.25:
        for f in rng.sample(LOOK_FLAGS, rng.randint(1, 2)):
            sp.flags[f] = rng.random() < 0.5
    return sp


def look_input(rng, sp):
    pool = [s for r in sp.rules for s in r["samples"]]
    parts = []
    for _ in range(rng.randint(2, 9)):
        x = rng.random()
        if x < 0.7:
            parts.append(rng.choice(pool))
        elif x < 0.9:
            parts.append(rng.choice(["\n", " ", "_", "\r\n", "-"]))
        else:
            parts.append(rng.choice(rng.choice(LOOK_PLAIN)[1]))
    s = "".join(parts)
    if sp.flags.get("case_insensitive") and rng.random() < 0.4:
        s = s.upper()
    return s
