"""Conflict-rich grammar generators for C03 / C16: every family is built so that
conflict resolution CHANGES cells (precedence-resolved shifts and reductions,
%nonassoc error cells, default shift/reduce, multi-way reduce/reduce)."""
from gen.grammars import Gram, random_grammar, expr_grammar, nullable_heavy

KINDS = ["left", "right", "nonassoc"]
OPS = ["+", "*", "<", "^", "=", "?", "-", "/"]
PSEUDO = ["U", "V", "W"]          # tokens that only appear in a precedence line and after %prec


def t(x):
    return ('t', x)


def r(x):
    return ('r', x)


def random_lines(rng, pool, max_per_line=3, kinds=KINDS):
    """random partition of (a shuffled copy of) pool into declaration lines"""
    pool = list(pool)
    rng.shuffle(pool)
    lines = []
    while pool:
        k = rng.randint(1, min(max_per_line, len(pool)))
        line, pool = pool[:k], pool[k:]
        lines.append((rng.choice(kinds), line))
    return lines


def declared(precs):
    return [x for _, l in precs for x in l]


def prec_expr(rng):
    """E: E op E | unary E | '(' E ')' | 'n' — 1..6 binary operators, random partition into
    %left/%right/%nonassoc lines, some operators undeclared, pseudo tokens, %prec overrides to
    higher / lower lines and to tokens of another associativity"""
    nops = rng.randint(1, 6)
    ops = rng.sample(OPS, nops)
    decl_ops = [o for o in ops if rng.random() < 0.75]
    pseudo = rng.sample(PSEUDO, rng.randint(0, 2))
    precs = random_lines(rng, decl_ops + pseudo)
    dec = declared(precs)
    alts = []
    for o in ops:
        a = [r('E'), t(o), r('E')]
        if dec and rng.random() < 0.3:
            alts.append((a, rng.choice(dec)))
        else:
            alts.append(a)
    if rng.random() < 0.6:
        u = rng.choice(ops)
        a = [t(u), r('E')]
        alts.append((a, rng.choice(dec)) if dec and rng.random() < 0.7 else a)
    if rng.random() < 0.3:
        # postfix operator
        u = rng.choice(ops)
        a = [r('E'), t(u)]
        if a not in [x[0] if isinstance(x, tuple) else x for x in alts]:
            alts.append((a, rng.choice(dec)) if dec and rng.random() < 0.4 else a)
    if rng.random() < 0.5:
        alts.append([t('('), r('E'), t(')')])
    if rng.random() < 0.2:
        # juxtaposition: E E  (conflicts on every token that starts an expression)
        a = [r('E'), r('E')]
        alts.append((a, rng.choice(dec)) if dec and rng.random() < 0.6 else a)
    alts.append([t('n')])
    rng.shuffle(alts)
    return Gram(ops + ["n", "(", ")"] + pseudo, [("E", alts)], precs=precs)


def dangling_else(rng):
    """S: 'i' S | 'i' S 'e' S | 'x' (+ variants), with and without the classic precedence fix"""
    alts = [[t('i'), r('S')], [t('i'), r('S'), t('e'), r('S')], [t('x')]]
    if rng.random() < 0.4:
        alts.append([t('w'), r('S')])
    if rng.random() < 0.3:
        alts.append([r('S'), t(';'), r('S')])
    rng.shuffle(alts)
    precs = []
    c = rng.random()
    if c < 0.3:
        precs = []
    elif c < 0.55:
        precs = [(rng.choice(KINDS), ['i']), (rng.choice(KINDS), ['e'])]
        rng.shuffle(precs)
    elif c < 0.75:
        precs = [(rng.choice(KINDS), ['i', 'e'])]
    elif c < 0.9:
        precs = [(rng.choice(KINDS), ['e'])]
    else:
        precs = [(rng.choice(KINDS), ['U']), (rng.choice(KINDS), ['e'])]
        rng.shuffle(precs)
        alts = [(a, 'U') if a == [t('i'), r('S')] else a for a in alts]
    if any(a == [r('S'), t(';'), r('S')] for a in alts if isinstance(a, list)) and rng.random() < 0.5:
        precs.append((rng.choice(KINDS), [';']))
    return Gram(['i', 'e', 'x', 'w', ';'], [("S", alts)], precs=precs)


def multi_rr(rng):
    """k rules deriving the same string, reduced in one context: A: x; B: x; C: x"""
    k = rng.randint(2, 4)
    names = ["A", "B", "C", "D"][:k]
    body = rng.choice([[t('x')], [t('x'), t('x')], []])
    follow = ['y', 'z']
    salts = []
    for n in names:
        f = rng.choice(follow + [None])
        salts.append([r(n)] + ([t(f)] if f else []))
    if rng.random() < 0.5:
        salts.append([t('p')] + [r(rng.choice(names)), t('y')])
    rules = [(n, [list(body)] + ([[t('x'), t('q')]] if rng.random() < 0.3 else [])) for n in names]
    rng.shuffle(rules)
    uniq = []
    for a in salts:
        if a not in uniq:
            uniq.append(a)
    allrules = [("S", uniq)] + rules
    if rng.random() < 0.3:
        # the start rule after the others: production indices of the candidates change
        allrules = rules + [("S", uniq)]
    precs = random_lines(rng, rng.sample(['x', 'y', 'z', 'q'], rng.randint(0, 3))) if rng.random() < 0.4 else []
    return Gram(['x', 'y', 'z', 'p', 'q'], allrules, precs=precs, start="S")


def nonassoc_chain(rng):
    """comparison chains: several %nonassoc levels, mixed with %left/%right lines"""
    ops = rng.sample(['<', '>', '=', '+', '*'], rng.randint(2, 5))
    precs = random_lines(rng, ops, max_per_line=2, kinds=["nonassoc", "nonassoc", "left", "right"])
    alts = [[r('E'), t(o), r('E')] for o in ops] + [[t('n')]]
    if rng.random() < 0.4:
        alts.append(([t('!'), r('E')], rng.choice(ops)))
    rng.shuffle(alts)
    return Gram(ops + ['n', '!'], [("E", alts)], precs=precs)


def random_with_prec(rng):
    """a random (usually wildly ambiguous) grammar with random precedence lines over its tokens
    and random %prec annotations: every combination of level order / kind / override"""
    g = random_grammar(rng, nrules=rng.randint(1, 4), ntoks=rng.randint(1, 4), max_alts=3, max_len=3)
    toks = list(g.tokens)
    pseudo = rng.sample(PSEUDO, rng.randint(0, 1))
    precs = random_lines(rng, [x for x in toks if rng.random() < 0.7] + pseudo)
    dec = declared(precs)
    rules = []
    for n, ps in g.rules:
        alts = []
        for syms, _ in ps:
            if dec and rng.random() < 0.25:
                alts.append((syms, rng.choice(dec)))
            else:
                alts.append(syms)
        rules.append((n, alts))
    return Gram(toks + pseudo, rules, precs=precs)


def mixed(rng):
    """statements with dangling else + expressions with operators + a reduce/reduce pair"""
    ops = rng.sample(['+', '*', '<'], rng.randint(1, 3))
    precs = random_lines(rng, [o for o in ops if rng.random() < 0.8] + (['e'] if rng.random() < 0.5 else []))
    ealts = [[r('E'), t(o), r('E')] for o in ops] + [[t('n')]]
    if rng.random() < 0.5:
        ealts.append([r('T')])
    salts = [[t('i'), r('E'), r('S')], [t('i'), r('E'), r('S'), t('e'), r('S')], [r('E'), t(';')]]
    rules = [("S", salts), ("E", ealts)]
    if any(a == [r('T')] for a in ealts):
        rules.append(("T", [[t('n')], [t('('), r('E'), t(')')]]))
    return Gram(ops + ['n', 'i', 'e', ';', '(', ')'], rules, precs=precs, start="S")


def accept_reduce(rng):
    """shapes in which a reduction competes with accept on end of input (construction error)"""
    c = rng.random()
    if c < 0.4:
        return Gram(['a'], [("S", [[r('S')], [t('a')]])])
    if c < 0.7:
        return Gram(['a', 'b'], [("S", [[r('A')], [t('b')]]), ("A", [[r('S')], [t('a')]])])
    return Gram(['a'], [("S", [[r('S'), r('B')], [t('a')]]), ("B", [[]])])


FAMILIES = [
    ("prec_expr", prec_expr, 7),
    ("dangling_else", dangling_else, 3),
    ("multi_rr", multi_rr, 3),
    ("nonassoc_chain", nonassoc_chain, 3),
    ("random_with_prec", random_with_prec, 5),
    ("mixed", mixed, 2),
    ("expr_shared", lambda rng: expr_grammar(rng), 2),
    ("nullable_heavy", nullable_heavy, 1),
    ("accept_reduce", accept_reduce, 1),
]


def corpus():
    """fixed witnesses first"""
    gs = []
    # the %nonassoc witness of the C16 finding
    gs.append(Gram(['<', 'n'], [("E", [[r('E'), t('<'), r('E')], [t('n')]])], precs=[("nonassoc", ['<'])]))
    # classic dangling else, unresolved
    gs.append(Gram(['i', 'e', 'x'], [("S", [[t('i'), r('S')], [t('i'), r('S'), t('e'), r('S')], [t('x')]])]))
    # three-way reduce/reduce
    gs.append(Gram(['x', 'y'], [("S", [[r('A'), t('y')], [r('B'), t('y')], [r('C'), t('y')]]),
                                ("C", [[t('x')]]), ("A", [[t('x')]]), ("B", [[t('x')]])], start="S"))
    # %right meets a higher-level %prec production; %left below
    gs.append(Gram(['+', '^', 'n', 'U'], [("E", [[r('E'), t('+'), r('E')], ([r('E'), t('^'), r('E')], 'U'), [t('n')]])],
                   precs=[("left", ['+']), ("right", ['^']), ("nonassoc", ['U'])]))
    # unary minus with %prec to a higher line
    gs.append(Gram(['-', '*', 'n', 'U'], [("E", [[r('E'), t('-'), r('E')], [r('E'), t('*'), r('E')],
                                                 ([t('-'), r('E')], 'U'), [t('n')]])],
                   precs=[("left", ['-']), ("left", ['*']), ("right", ['U'])]))
    # undeclared operator next to declared ones
    gs.append(Gram(['+', '*', 'n'], [("E", [[r('E'), t('+'), r('E')], [r('E'), t('*'), r('E')], [t('n')]])],
                   precs=[("left", ['+'])]))
    # accept/reduce
    gs.append(Gram(['a'], [("S", [[r('S')], [t('a')]])]))
    return gs


def generate(rng, n, count=None):
    out = list(corpus())
    names = [f[0] for f in FAMILIES]
    weights = [f[2] for f in FAMILIES]
    seen = set(g.render() for g in out)
    fam = ["corpus"] * len(out)
    guard = 0
    while len(out) < n and guard < 50 * n:
        guard += 1
        i = rng.choices(range(len(FAMILIES)), weights)[0]
        g = FAMILIES[i][1](rng)
        if g is None:
            continue
        k = g.render()
        if k in seen:
            continue
        seen.add(k)
        out.append(g)
        fam.append(names[i])
    return out, fam


# ---- three-way cells: a shift and two or more reductions on one token ------------------------------------
# (used by C03 only, through generate_three_way: the families above and their random stream stay as they are)

def three_way_expr(rng):
    """S: E | L f 'n' (| M f' 'n');  L: E o E %prec ?;  (M: E o E %prec ?;)  E: E o E | … | 'n';
    the state after E o E offers, on an operator f: the shift, the reduction of L (and M) and the
    reduction of E: E o E — with random levels / kinds / missing precedences and random rule order
    (which production is 'declared earlier' changes)"""
    ops = rng.sample(OPS, rng.randint(1, 3))
    pseudo = rng.sample(PSEUDO, rng.randint(1, 2))
    precs = random_lines(rng, [o for o in ops if rng.random() < 0.8] + [p for p in pseudo if rng.random() < 0.9],
                         max_per_line=2)
    dec = declared(precs)
    o1 = rng.choice(ops)

    def pr(a, prob):
        return (a, rng.choice(dec)) if dec and rng.random() < prob else a
    salts = [[r('E')]]
    lrules = []
    for nme in ["L", "M"][:rng.choice([1, 1, 2])]:
        salts.append([r(nme), t(rng.choice(ops)), t('n')])
        lrules.append((nme, [pr([r('E'), t(o1), r('E')], 0.75)]))
    ealts = [pr([r('E'), t(o), r('E')], 0.25) for o in ops] + [[t('n')]]
    rng.shuffle(ealts)
    rest = lrules + [("E", ealts)]
    rng.shuffle(rest)
    return Gram(ops + ['n'] + pseudo, [("S", salts)] + rest, precs=precs, start="S")


def three_way_flat(rng):
    """S: A 'y' | B 'y' (| C 'y') | 'x' 'y' 'z';  A: 'x' %prec ?;  B: 'x' %prec ?; …  — after 'x' the
    token 'y' can be shifted and every one of A, B(, C) can be reduced"""
    names = ["A", "B", "C"][:rng.randint(2, 3)]
    pseudo = rng.sample(PSEUDO, rng.randint(0, 2))
    precs = random_lines(rng, [x for x in ['x', 'y'] if rng.random() < 0.8] + pseudo, max_per_line=2)
    dec = declared(precs)
    salts = [[r(n), t('y')] for n in names] + [[t('x'), t('y'), t('z')]]
    rng.shuffle(salts)
    rules = [(n, [([t('x')], rng.choice(dec)) if dec and rng.random() < 0.6 else [t('x')]]) for n in names]
    rng.shuffle(rules)
    return Gram(['x', 'y', 'z'] + pseudo, [("S", salts)] + rules, precs=precs, start="S")


def corpus_three_way():
    """the three grammars of the finding (see known_findings.json, C03-three-way-cell)"""
    gs = []
    # (a) %left lost: Yacc reduces E: E '+' E, nothing reported
    gs.append(Gram(['+', 'n', 'LOW'], [("S", [[r('E')], [r('L'), t('+'), t('n')]]),
                                       ("L", [([r('E'), t('+'), r('E')], 'LOW')]),
                                       ("E", [[r('E'), t('+'), r('E')], [t('n')]])],
                   precs=[("nonassoc", ['LOW']), ("left", ['+'])], start="S"))
    # (b) %nonassoc lost: Yacc's entry is the error entry
    gs.append(Gram(['<', 'n', 'LOW'], [("S", [[r('E')], [r('L'), t('<'), t('n')]]),
                                       ("L", [([r('E'), t('<'), r('E')], 'LOW')]),
                                       ("E", [[r('E'), t('<'), r('E')], [t('n')]])],
                   precs=[("nonassoc", ['LOW']), ("nonassoc", ['<'])], start="S"))
    # (c) the default-rule pair is reported as the wrong kind
    gs.append(Gram(['+', 'n', 'x', 'LOW'], [("S", [[r('E')], [r('L'), t('+'), t('n')]]),
                                            ("L", [([r('E'), t('x'), r('E')], 'LOW')]),
                                            ("E", [[r('E'), t('x'), r('E')], [r('E'), t('+'), r('E')], [t('n')]])],
                   precs=[("nonassoc", ['LOW']), ("left", ['+'])], start="S"))
    return gs


def generate_three_way(rng, n, seen=()):
    """fixed corpus first, then n random grammars of the two three-way families"""
    out = list(corpus_three_way())
    fam = ["corpus_three_way"] * len(out)
    seen = set(seen) | set(g.render() for g in out)
    guard = 0
    while len(out) < n + 3 and guard < 50 * n:
        guard += 1
        name, f = rng.choice([("three_way_expr", three_way_expr), ("three_way_expr", three_way_expr),
                              ("three_way_flat", three_way_flat)])
        g = f(rng)
        k = g.render()
        if k in seen:
            continue
        seen.add(k)
        out.append(g)
        fam.append(name)
    return out, fam
