"""Seeded generators of abstract grammars, their yacc renderings, sentences,
near-sentences and random token strings.  Shared by the LR-family checks."""
import itertools


class Gram:
    """Abstract grammar.  tokens: list of names; rules: list of (name, prods);
    a production is a list of ('t', name) / ('r', name) symbols, optionally with
    a %prec token: prods are (symbols, prec_token_or_None).
    precs: list of (kind, [token names]) in declaration order."""

    def __init__(self, tokens, rules, precs=None, start=None, avoid_insert=None, expect=None, expectrr=None,
                 implicit=None):
        self.tokens = list(tokens)
        self.rules = [(n, [(list(p[0]), p[1]) if isinstance(p, tuple) else (list(p), None) for p in ps])
                      for n, ps in rules]
        self.precs = precs or []
        self.start = start or self.rules[0][0]
        self.avoid_insert = avoid_insert or []
        self.expect = expect
        self.expectrr = expectrr
        self.implicit = implicit or []

    def rule_names(self):
        return [n for n, _ in self.rules]

    def prods_of(self, name):
        for n, ps in self.rules:
            if n == name:
                return ps
        return []

    def render(self, layout=0):
        """yacc source (Original syntax, tokens quoted)."""
        o = []
        o.append("%%start %s" % self.start)
        for kind, toks in self.precs:
            o.append("%%%s %s" % (kind, " ".join("'%s'" % t for t in toks)))
        if self.avoid_insert:
            o.append("%%avoid_insert %s" % " ".join("'%s'" % t for t in self.avoid_insert))
        if self.implicit:
            o.append("%%implicit_tokens %s" % " ".join("'%s'" % t for t in self.implicit))
        if self.expect is not None:
            o.append("%%expect %d" % self.expect)
        if self.expectrr is not None:
            o.append("%%expect-rr %d" % self.expectrr)
        o.append("%%")
        for n, ps in self.rules:
            alts = []
            for syms, prec in ps:
                s = " ".join(("'%s'" % x) if k == 't' else x for k, x in syms)
                if prec:
                    s += " %%prec '%s'" % prec
                alts.append(s)
            o.append("%s: %s;" % (n, " | ".join(alts) if alts else ""))
        return "\n".join(o) + "\n"

    def key(self):
        return self.render()

    # ---- analyses on the abstract grammar (for generation only) ----
    def productive_rules(self):
        prod = set()
        changed = True
        while changed:
            changed = False
            for n, ps in self.rules:
                if n in prod:
                    continue
                for syms, _ in ps:
                    if all(k == 't' or x in prod for k, x in syms):
                        prod.add(n)
                        changed = True
                        break
        return prod

    def reachable_rules(self):
        seen = {self.start}
        todo = [self.start]
        while todo:
            r = todo.pop()
            for syms, _ in self.prods_of(r):
                for k, x in syms:
                    if k == 'r' and x not in seen:
                        seen.add(x)
                        todo.append(x)
        return seen

    def is_reduced(self):
        names = set(self.rule_names())
        for _, ps in self.rules:
            for syms, _ in ps:
                for k, x in syms:
                    if k == 'r' and x not in names:
                        return False
        return self.productive_rules() == names and self.reachable_rules() == names

    def reduced(self):
        """the grammar restricted to productive rules reachable from the start rule
        (None if the start rule is unproductive)"""
        g = self
        for _ in range(len(self.rules) + 2):
            prod = g.productive_rules()
            if g.start not in prod:
                return None
            rules = []
            for n, ps in g.rules:
                if n not in prod:
                    continue
                keep = [(syms, pr) for syms, pr in ps if all(k == 't' or x in prod for k, x in syms)]
                rules.append((n, keep))
            g2 = Gram(g.tokens, [(n, [(sy, pr) for sy, pr in ps]) for n, ps in rules], precs=g.precs, start=g.start,
                      avoid_insert=g.avoid_insert, expect=g.expect, expectrr=g.expectrr, implicit=g.implicit)
            reach = g2.reachable_rules()
            g2.rules = [(n, ps) for n, ps in g2.rules if n in reach]
            if g2.is_reduced():
                return g2
            g = g2
        return None

    def used_tokens(self):
        u = []
        for _, ps in self.rules:
            for syms, _ in ps:
                for k, x in syms:
                    if k == 't' and x not in u:
                        u.append(x)
        return u

    def min_heights(self):
        """min derivation height per rule (None if unproductive)"""
        h = {}
        changed = True
        while changed:
            changed = False
            for n, ps in self.rules:
                best = h.get(n)
                for syms, _ in ps:
                    if all(k == 't' or x in h for k, x in syms):
                        c = 1 + max([h[x] for k, x in syms if k == 'r'] + [0])
                        if best is None or c < best:
                            best = c
                if best is not None and h.get(n) != best:
                    h[n] = best
                    changed = True
        return h

    def derives_cycle(self):
        """does some rule derive just itself (A =>+ A)?"""
        nullable = set()
        changed = True
        while changed:
            changed = False
            for n, ps in self.rules:
                if n not in nullable and any(all(k == 'r' and x in nullable for k, x in syms) for syms, _ in ps):
                    nullable.add(n)
                    changed = True
        unit = {n: set() for n, _ in self.rules}
        for n, ps in self.rules:
            for syms, _ in ps:
                for i, (k, x) in enumerate(syms):
                    if k == 'r' and all(kk == 'r' and xx in nullable for j, (kk, xx) in enumerate(syms) if j != i):
                        unit[n].add(x)
        for n in unit:
            seen, todo = set(), list(unit[n])
            while todo:
                y = todo.pop()
                if y == n:
                    return True
                if y not in seen and y in unit:
                    seen.add(y)
                    todo.extend(unit[y])
        return False

    def sentence(self, rng, budget=12, rule=None):
        """random sentence (list of token names) by random derivation; None if impossible"""
        h = self.min_heights()
        rule = rule or self.start
        if rule not in h:
            return None
        out = []

        def go(r, depth):
            ps = self.prods_of(r)
            ok = [(syms, p) for syms, p in ps if all(k == 't' or x in h for k, x in syms)]
            if depth <= 0:
                best = min(1 + max([h[x] for k, x in syms if k == 'r'] + [0]) for syms, _ in ok)
                ok = [(syms, p) for syms, p in ok if 1 + max([h[x] for k, x in syms if k == 'r'] + [0]) == best]
            syms, _ = rng.choice(ok)
            for k, x in syms:
                if k == 't':
                    out.append(x)
                else:
                    go(x, depth - 1)
        go(rule, budget)
        return out


def mutate(rng, toks, alphabet, k=1):
    t = list(toks)
    for _ in range(k):
        op = rng.choice(["ins", "del", "rep", "swap", "trunc"])
        if op == "ins" or not t:
            t.insert(rng.randint(0, len(t)), rng.choice(alphabet))
        elif op == "del":
            del t[rng.randrange(len(t))]
        elif op == "rep":
            t[rng.randrange(len(t))] = rng.choice(alphabet)
        elif op == "swap" and len(t) >= 2:
            i = rng.randrange(len(t) - 1)
            t[i], t[i + 1] = t[i + 1], t[i]
        elif op == "trunc":
            t = t[:rng.randint(0, len(t))]
    return t


TOK = "abcdefgh"
RUL = ["S", "A", "B", "C", "D", "E", "F", "H"]


def random_grammar(rng, nrules=None, ntoks=None, max_alts=3, max_len=4, empty_p=0.15):
    nrules = nrules or rng.randint(1, 5)
    ntoks = ntoks or rng.randint(1, 4)
    toks = list(TOK[:ntoks])
    names = RUL[:nrules]
    rules = []
    for n in names:
        alts = []
        for _ in range(rng.randint(1, max_alts)):
            if rng.random() < empty_p:
                alts.append([])
                continue
            ln = rng.randint(1, max_len)
            alts.append([('t', rng.choice(toks)) if rng.random() < 0.55 else ('r', rng.choice(names)) for _ in range(ln)])
        # dedupe identical alternatives (yacc allows them but they only add rr conflicts)
        uniq = []
        for a in alts:
            if a not in uniq:
                uniq.append(a)
        rules.append((n, uniq))
    return Gram(toks, rules)


def reduced_random_grammar(rng, tries=200, **kw):
    for _ in range(tries):
        g = random_grammar(rng, **kw)
        if g.is_reduced():
            return g
    return None


def expr_grammar(rng, nops=None, with_prec=True, unary=True):
    """expression grammar E: E op E | '-' E | '(' E ')' | 'n' with random precedence lines"""
    nops = nops or rng.randint(1, 5)
    ops = ["+", "*", "<", "^", "=", "?"][:nops]
    toks = ops + ["n", "(", ")"]
    precs = []
    if with_prec:
        pool = [o for o in ops if rng.random() < 0.8]
        rng.shuffle(pool)
        while pool:
            k = rng.randint(1, min(2, len(pool)))
            line, pool = pool[:k], pool[k:]
            precs.append((rng.choice(["left", "right", "nonassoc"]), line))
    declared = [t for _, line in precs for t in line]
    alts = [[('r', 'E'), ('t', o), ('r', 'E')] for o in ops]
    if unary and rng.random() < 0.5:
        # a %prec token must have a precedence attached (else the grammar is rejected)
        prec = rng.choice(declared) if (declared and rng.random() < 0.6) else None
        alts.append(([('t', ops[0]), ('r', 'E')], prec))
    if rng.random() < 0.5:
        alts.append([('t', '('), ('r', 'E'), ('t', ')')])
    alts.append([('t', 'n')])
    # random %prec overrides on binary alternatives
    alts2 = []
    for a in alts:
        if isinstance(a, list) and len(a) == 3 and rng.random() < 0.2 and precs:
            alts2.append((a, rng.choice(rng.choice(precs)[1])))
        else:
            alts2.append(a)
    return Gram(toks, [("E", alts2)], precs=precs)


def nullable_heavy(rng):
    nr = rng.randint(2, 4)
    toks = list(TOK[:rng.randint(2, 4)])
    names = RUL[:nr]
    rules = []
    for i, n in enumerate(names):
        alts = [[]] if rng.random() < 0.7 else []
        for _ in range(rng.randint(1, 2)):
            ln = rng.randint(1, 4)
            a = []
            for _ in range(ln):
                if rng.random() < 0.5:
                    a.append(('t', rng.choice(toks)))
                else:
                    a.append(('r', rng.choice(names[i:] if rng.random() < 0.8 else names)))
            alts.append(a)
        uniq = []
        for a in alts:
            if a not in uniq:
                uniq.append(a)
        rules.append((n, uniq))
    return Gram(toks, rules)


def not_lalr_template(rng):
    """LR(1) but not LALR(1): S: a E a | b E b | a F b | b F a; E: e; F: e (generalised)"""
    k = rng.randint(2, 3)
    ctx = list("abc")[:k]
    inner = rng.choice([[('t', 'e')], [('t', 'e'), ('t', 'e')], [('t', 'e'), ('r', 'N')]])
    alts = []
    for i, x in enumerate(ctx):
        for j, y in enumerate(ctx):
            r = 'E' if (i == j) else 'F'
            if i != j and rng.random() < 0.3 and k > 2:
                continue
            alts.append([('t', x), ('r', r), ('t', y)])
    rules = [("S", alts), ("E", [list(inner)]), ("F", [list(inner)])]
    if any(s == ('r', 'N') for s in inner):
        rules.append(("N", [[], [('t', 'n')]]))
    toks = ctx + ['e', 'n']
    g = Gram(toks, rules)
    if rng.random() < 0.5:
        # embed: T: S | T 'z' S
        g = Gram(toks + ['z'], [("T", [[('r', 'S')], [('r', 'T'), ('t', 'z'), ('r', 'S')]])] + g.rules, start="T")
    return g


def layered_grammar(rng):
    """Top-down declared grammar: shared rules reached through several contexts (also through
    unit productions declared AFTER the rule they wrap), nullable tails, rules nullable only
    through token-free unit chains of later rules.  Targets late-arriving lookaheads in the
    closure and late-converging FIRST/nullable fixed points."""
    toks = list("abcdxyzo")
    k = rng.randint(2, 4)                      # number of shared "body" rules
    bodies = ["R%d" % i for i in range(k)]
    wraps = ["Q%d" % i for i in range(rng.randint(1, 3))]
    opts = ["O%d" % i for i in range(rng.randint(1, 3))]
    chains = ["N%d" % i for i in range(rng.randint(0, 3))]      # N0: N1; N1: N2; N2: ;
    leafs = ["X%d" % i for i in range(rng.randint(1, 2))]
    ends = ["x", "y", "z"]
    rules = []
    # start: several contexts, each a shared rule (or a wrapper) followed by a distinct token
    alts = []
    ctxs = bodies + wraps
    rng.shuffle(ctxs)
    for i, c in enumerate(ctxs[:rng.randint(2, min(4, len(ctxs)))]):
        alt = [('r', c)]
        if rng.random() < 0.85:
            alt.append(('t', ends[i % 3]))
        if rng.random() < 0.25:
            alt.insert(0, ('t', rng.choice("ab")))
        alts.append(alt)
    rules.append(("S", alts))

    def tail():
        t = []
        for _ in range(rng.randint(0, 2)):
            t.append(('r', rng.choice(opts + chains)) if (opts + chains) else ('t', 'o'))
        return t

    order = []
    for b in bodies:
        order.append(("body", b))
    for q in wraps:
        order.append(("wrap", q))
    # wrappers mostly AFTER the bodies they wrap, sometimes interleaved
    if rng.random() < 0.3:
        rng.shuffle(order)
    for kind, n in order:
        if kind == "body":
            alts = []
            for _ in range(rng.randint(1, 2)):
                head = ('r', rng.choice(leafs)) if rng.random() < 0.7 else ('t', rng.choice("abcd"))
                alt = [head] + tail()
                if rng.random() < 0.2:
                    alt = [('r', rng.choice(opts + chains))] + alt if (opts + chains) else alt
                alts.append(alt)
            if rng.random() < 0.2 and len(bodies) > 1:
                alts.append([('r', rng.choice([x for x in bodies if x != n]))])
            uniq = []
            for a_ in alts:
                if a_ not in uniq:
                    uniq.append(a_)
            rules.append((n, uniq))
        else:
            tgt = rng.choice(bodies)
            alt = [('r', tgt)] + (tail() if rng.random() < 0.3 else [])
            rules.append((n, [alt]))
    for x in leafs:
        rules.append((x, [[('t', rng.choice("abcd"))] for _ in range(rng.randint(1, 2))]))
    for i, o in enumerate(opts):
        first = [('t', 'o')] if rng.random() < 0.6 else [('t', rng.choice("cd")), ('r', o)]
        rules.append((o, [first, []] if rng.random() < 0.5 else [[], first]))
    for i, n in enumerate(chains):
        if i + 1 < len(chains):
            rules.append((n, [[('r', chains[i + 1])]] + ([[('t', 'd')]] if rng.random() < 0.3 else [])))
        else:
            rules.append((n, [[]]))
    # dedupe alternatives inside each rule, drop duplicate leaf alternatives
    out = []
    for n, ps in rules:
        u = []
        for p_ in ps:
            if p_ not in u:
                u.append(p_)
        out.append((n, u))
    return Gram(toks, out, start="S")


def chain_grammar(rng):
    """small top-down declared grammars whose nullability / FIRST information has to travel
    through a token-free unit chain of later rules (the analyses' fixed points converge late)"""
    depth = rng.randint(2, 5)
    chain = ["N%d" % i for i in range(depth)]
    rules = []
    shape = rng.randint(0, 3)
    item_alts = []
    for _ in range(rng.randint(1, 2)):
        alt = [('r', chain[0])] if rng.random() < 0.8 else []
        alt += [('t', rng.choice("fg"))] + [('t', 'i')] * rng.randint(0, 1)
        if rng.random() < 0.4:
            alt.append(('r', chain[rng.randrange(depth)]))
        if rng.random() < 0.5:
            alt.append(('t', 's'))
        item_alts.append(alt)
    if shape == 0:
        rules += [("S", [[('r', 'L')]]), ("L", [[], [('r', 'L'), ('r', 'I')]]), ("I", item_alts)]
    elif shape == 1:
        rules += [("S", [[('r', 'I'), ('t', 'x')], [('t', 'a'), ('r', 'I'), ('t', 'y')]]), ("I", item_alts)]
    elif shape == 2:
        rules += [("S", [[('r', 'W'), ('t', 'x')], [('r', 'I'), ('t', 'y')]]), ("W", [[('r', 'I')]]), ("I", item_alts)]
    else:
        rules += [("S", [[('r', 'I'), ('r', 'S')], [('t', 'e')]]), ("I", item_alts)]
    for i, n in enumerate(chain):
        if i + 1 < depth:
            alts = [[('r', chain[i + 1])]]
            if rng.random() < 0.25:
                alts.append([('t', 'd'), ('t', 'd')])
            rules.append((n, alts))
        else:
            rules.append((n, [[]]))
    uniq = []
    for n, ps in rules:
        u = []
        for p_ in ps:
            if p_ not in u:
                u.append(p_)
        uniq.append((n, u))
    return Gram(list("fgisxyaed"), uniq, start="S")


def not_lalr_multi(rng):
    """LR(1)-not-LALR(1) shapes whose clashing states have three or more kernel items: several
    rules deriving the same string, used in several left contexts with different trailers;
    the declaration order of the inner rules is shuffled (hash order of the kernel items)."""
    ctxs = list("ab") + (["c"] if rng.random() < 0.4 else [])
    inners = ["E", "F", "G"] + (["H"] if rng.random() < 0.4 else [])
    trailers = list("cdxy")[:rng.randint(2, 4)]
    alts = []
    for c in ctxs:
        ts = trailers[:]
        rng.shuffle(ts)
        used = set()
        for i, r in enumerate(inners):
            if rng.random() < 0.8:
                t = ts[i % len(ts)] if rng.random() < 0.85 else rng.choice(trailers)
                if (c, t) in used and rng.random() < 0.7:
                    continue
                used.add((c, t))
                alts.append([('t', c), ('r', r), ('t', t)])
    if not alts:
        alts = [[('t', 'a'), ('r', 'E'), ('t', 'c')]]
    inner = rng.choice([[('t', 'e')], [('t', 'e'), ('t', 'e')], [('t', 'e'), ('r', 'N')]])
    order = inners[:]
    rng.shuffle(order)
    rules = [("S", alts)] + [(r, [list(inner)]) for r in order]
    if any(x == ('r', 'N') for x in inner):
        rules.append(("N", [[], [('t', 'n')]]))
    return Gram(list("abcdxyen"), rules, start="S")


_GC_CORPUS = None


def gc_corpus():
    """grammar texts on which Pager's state garbage collection really removes a state that is
    not the last one (mined once with a deliberately broken gc as a path-coverage detector;
    see DESIGN A.2) — kept as a regression corpus that runs first"""
    global _GC_CORPUS
    if _GC_CORPUS is None:
        import json, os
        f = os.path.join(os.path.dirname(os.path.dirname(os.path.abspath(__file__))), "corpus", "gc_grammars.json")
        _GC_CORPUS = json.load(open(f)) if os.path.exists(f) else []
    return _GC_CORPUS


def gc_chain_corpus():
    """grammars on which gc has to remove a CHAIN of orphaned states (a state whose only
    predecessor is itself unreachable); mined like gc_corpus with a liveness-by-in-degree gc"""
    import json, os
    f = os.path.join(os.path.dirname(os.path.dirname(os.path.abspath(__file__))), "corpus", "gc_chain_grammars.json")
    return json.load(open(f)) if os.path.exists(f) else []


def rare_shape_corpus():
    """[(grammar text, targeted inputs, why)]: grammar shapes that random generation meets once in 10^3..10^6 draws and on
    which a construction slip shows (edge re-pointing, hash-order dependent merging, gc in the middle of the state list,
    self-merge, empty alternative first, …), each with the inputs that expose it; collected from seeded changes the random
    families missed or caught only as a broken correspondence (see DESIGN A.5)"""
    import json, os
    f = os.path.join(os.path.dirname(os.path.dirname(os.path.abspath(__file__))), "corpus", "rare_shapes.json")
    return [(d["src"], d["inputs"], d["why"]) for d in json.load(open(f))] if os.path.exists(f) else []


def from_text(src):
    """parse a rendered grammar (the subset render() produces) back into a Gram"""
    lines = [l for l in src.splitlines() if l.strip()]
    start = None
    rules = []
    body = False
    toks = []
    for l in lines:
        if l.startswith("%start"):
            start = l.split()[1]
        elif l.strip() == "%%":
            body = True
        elif body:
            name, rest = l.split(":", 1)
            rest = rest.strip().rstrip(";")
            alts = []
            for a in rest.split("|"):
                syms = []
                for w in a.split():
                    if w.startswith("'"):
                        syms.append(('t', w.strip("'")))
                        if w.strip("'") not in toks:
                            toks.append(w.strip("'"))
                    else:
                        syms.append(('r', w))
                alts.append(syms)
            rules.append((name.strip(), alts))
    return Gram(toks, rules, start=start)


def depth_merge_grammar(rng):
    """one mixed kernel {M: p . B, N: p . c, …} reached in several left contexts whose prefixes
    have different lengths, so that the Pager merges into that state (and the re-closing they
    force) arrive one after the other while the state is closed / pending"""
    nctx = rng.randint(3, 4)
    pres = []
    alphabet = list("uvwqrste")
    rng.shuffle(alphabet)
    used = 0
    depths = rng.sample([1, 2, 3, 4, 5], nctx)
    for dlen in depths:
        pre = []
        for j in range(dlen):
            pre.append(alphabet[(used + j) % len(alphabet)] + str(len(pres)))
        used += dlen
        pres.append(pre)
    trail = list("xyz")
    inner_kind = rng.randint(0, 2)
    alts = []
    for pre in pres:
        t1, t2 = rng.choice(trail), rng.choice(trail)
        alts.append([('t', x) for x in pre] + [('r', 'M'), ('t', t1)])
        if rng.random() < 0.85:
            alts.append([('t', x) for x in pre] + [('r', 'N'), ('t', t2)])
    rules = [("S", alts)]
    if inner_kind == 0:
        rules += [("M", [[('t', 'p'), ('r', 'B')]]), ("N", [[('t', 'p'), ('t', 'c')]]), ("B", [[('t', 'b')]])]
    elif inner_kind == 1:
        rules += [("M", [[('t', 'p'), ('r', 'B')]]), ("N", [[('t', 'p'), ('t', 'c'), ('r', 'O')]]),
                  ("B", [[('t', 'b')], [('t', 'b'), ('r', 'B')]]), ("O", [[], [('t', 'o')]])]
    else:
        rules += [("M", [[('t', 'p'), ('r', 'B'), ('r', 'O')]]), ("N", [[('t', 'p'), ('t', 'c')]]),
                  ("B", [[('t', 'b')]]), ("O", [[], [('t', 'o')]])]
    toks = sorted({x for _, ps in rules for a_ in ps for k, x in a_ if k == 't'})
    return Gram(toks, rules, start="S")


def classic_corpus():
    gs = []
    t, r = (lambda x: ('t', x)), (lambda x: ('r', x))
    # calc
    gs.append(Gram(["+", "*", "(", ")", "n"], [("E", [[r("E"), t("+"), r("T")], [r("T")]]),
                                                ("T", [[r("T"), t("*"), r("F")], [r("F")]]),
                                                ("F", [[t("("), r("E"), t(")")], [t("n")]])]))
    # Corchuelo et al.
    gs.append(Gram(["(", ")", "+", "n"], [("E", [[r("T")], [r("E"), t("+"), r("T")]]),
                                          ("T", [[r("P")], [r("T"), t("*"), r("P")]]),
                                          ("P", [[t("n")], [t("("), r("E"), t(")")]])] ,))
    # Pager's example
    gs.append(Gram(list("abcdetu"), [("X", [[t("a"), r("Y"), t("d")], [t("a"), r("Z"), t("c")], [t("a"), r("T")],
                                           [t("b"), r("Y"), t("e")], [t("b"), r("Z"), t("d")], [t("b"), r("T")]]),
                                     ("Y", [[t("t"), r("W")], [t("u"), r("X")]]),
                                     ("Z", [[t("t"), t("u")]]),
                                     ("T", [[t("u"), r("X"), t("a")]]),
                                     ("W", [[t("u"), r("V")]]),
                                     ("V", [[]])]))
    # dangling else
    gs.append(Gram(["i", "e", "x"], [("S", [[t("i"), r("S")], [t("i"), r("S"), t("e"), r("S")], [t("x")]])]))
    # the C06 finding grammar
    gs.append(Gram(["a", "b", "c"], [("S", [[r("S"), t("a"), r("B")], [r("B")]]),
                                     ("B", [[t("b"), r("C")], []]),
                                     ("C", [[t("c")], [t("c"), r("C")]])]))
    # empty productions first / middle / last
    gs.append(Gram(["a", "b"], [("S", [[r("E"), t("a")], [t("a"), r("E"), t("b")], [t("b"), r("E")]]), ("E", [[]])]))
    gs[1] = Gram(["(", ")", "+", "*", "n"], gs[1].rules)
    return gs


def inputs_for(rng, g, n, maxlen=10):
    """mix of sentences, near-sentences and random strings (lists of token names)"""
    alphabet = g.used_tokens() or g.tokens
    res = [[]]
    for _ in range(n):
        c = rng.random()
        s = g.sentence(rng, budget=rng.randint(1, 6))
        if s is not None and len(s) > 3 * maxlen:
            s = s[:3 * maxlen]
        if c < 0.45 and s is not None:
            res.append(s)
        elif c < 0.85 and s is not None:
            res.append(mutate(rng, s, alphabet, rng.randint(1, 3)))
        else:
            res.append([rng.choice(alphabet) for _ in range(rng.randint(0, maxlen))])
    return res


def parse_names(sections):
    """token/rule name maps from a harness dump (list of section token lists)"""
    tn, rn = {}, {}
    for s in sections:
        if s and s[0] == "TN":
            tn[bytes.fromhex(s[2]).decode()] = int(s[1])
        elif s and s[0] == "RN":
            rn[bytes.fromhex(s[2]).decode()] = int(s[1])
    return tn, rn
