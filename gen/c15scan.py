"""C15 — static table of the places where a randomly seeded std HashMap / HashSet is ITERATED.

`scan(repo)` reads the sources of the build path (the files of SCAN_FILES under <repo>), finds the names bound to
std hash containers (declarations with a `HashMap<`/`HashSet<` type, `HashMap::new()`-style initialisers,
`.collect::<HashMap<..>>()`, functions returning such a type, one-step aliases `if let Some(ref x) = name`, …) and
lists every site where such a name is the receiver of an order-revealing operation:
    .iter() .iter_mut() .keys() .values() .values_mut() .drain( .into_iter() .into_keys() .into_values()
    .extend(<name>…)  for … in [&[mut]] <name>  .retain(    (and `.next()` chains on the above)
A site is identified by (file, enclosing fn, normalised source line, occurrence number) — not by its line number —
so that unrelated edits do not invalidate the audit.  AUDIT gives the verdict of every site that has been read by a
person:
    order-free   the result is a function of the SET of elements (membership test, set/map rebuilt, count, all/any,
                 commutative accumulation, per-element writes to distinct places)
    sorted       the order is visible at first but the elements are sorted / the minimum under a total order is taken
                 before anything order-dependent happens
    fixed-seed   the container hashes with a fixed seed (BuildHasherDefault<..>): same order in every process
    leaks-order-only   the order reaches an output, but only as the ORDER of a printed list whose elements are the same in every
                 process (stderr diagnostics, pretty printer); the lists are compared as multisets by the dynamic families
(`cpctplus::simplify_repairs` iterated a HashSet of repair sequences up to /repo ca69cd1^ — verdict then: order reaches the parse
result; the container is an insertion-ordered IndexSet now and the site is gone from the table.)
A site found by the scan that has no entry in AUDIT is reported by the check as a violation (new, un-audited iteration).
The scan is textual (regular expressions, no type information): receivers are recognised by NAME.
"""
import os
import re

SCAN_FILES = [
    "cfgrammar/src/lib/yacc/ast.rs", "cfgrammar/src/lib/yacc/grammar.rs", "cfgrammar/src/lib/yacc/parser.rs",
    "cfgrammar/src/lib/yacc/firsts.rs", "cfgrammar/src/lib/yacc/follows.rs", "cfgrammar/src/lib/yacc/mod.rs",
    "lrtable/src/lib/itemset.rs", "lrtable/src/lib/pager.rs", "lrtable/src/lib/stategraph.rs",
    "lrtable/src/lib/statetable.rs", "lrtable/src/lib/mod.rs",
    "lrpar/src/lib/ctbuilder.rs", "lrpar/src/lib/diagnostics.rs", "lrpar/src/lib/cpctplus.rs",
    "lrlex/src/lib/parser.rs", "lrlex/src/lib/ctbuilder.rs", "lrlex/src/lib/lexer.rs",
]
SCAN_GLOBS = [("cfgrammar/src/lib/yacc", ".rs"), ("lrtable/src/lib", ".rs")]

ITER_METHODS = r"(?:iter|iter_mut|keys|values|values_mut|drain|into_iter|into_keys|into_values|retain)"


def files(repo):
    fs = list(SCAN_FILES)
    for d, ext in SCAN_GLOBS:
        p = os.path.join(repo, d)
        if os.path.isdir(p):
            for n in sorted(os.listdir(p)):
                rel = "%s/%s" % (d, n)
                if n.endswith(ext) and rel not in fs:
                    fs.append(rel)
    return [f for f in fs if os.path.isfile(os.path.join(repo, f))]


def strip_comments(line):
    # good enough for this code base: `//` outside a string literal ends the line
    out, instr, i = [], False, 0
    while i < len(line):
        c = line[i]
        if instr:
            out.append(c)
            if c == "\\" and i + 1 < len(line):
                out.append(line[i + 1])
                i += 1
            elif c == '"':
                instr = False
        else:
            if c == '"':
                instr = True
            elif c == "/" and line[i:i + 2] == "//":
                break
            out.append(c)
        i += 1
    return "".join(out)


def production_lines(text):
    """[(lineno, code)] without comments, cut at the unit tests (`#[cfg(test)]` followed by `mod …`)"""
    ls = text.split("\n")
    res = []
    in_block = False
    for i, l in enumerate(ls):
        if re.match(r"\s*#\[cfg\(test\)\]\s*$", l) and i + 1 < len(ls) and re.match(r"\s*(pub\s+)?mod\s+\w+", ls[i + 1]):
            break
        code = l
        if in_block:
            j = code.find("*/")
            if j < 0:
                continue
            code = code[j + 2:]
            in_block = False
        code = strip_comments(code)
        while "/*" in code:
            a = code.find("/*")
            b = code.find("*/", a + 2)
            if b < 0:
                code = code[:a]
                in_block = True
                break
            code = code[:a] + code[b + 2:]
        res.append((i + 1, code))
    return res


_TY = r"Hash(?:Map|Set)\s*(?:<|::)"
_ID = r"[A-Za-z_][A-Za-z_0-9]*"


def _kind_of_type(ty):
    """'fixed' | 'vec' | 'std' | None for a type expression"""
    if not re.search(_TY, ty):
        return None
    if "BuildHasherDefault" in ty:
        return "fixed"
    if re.match(r"\s*(?:&\s*(?:'\w+\s+)?(?:mut\s+)?)?(?:Vec\s*<|\[|Box\s*<\s*\[)", ty):
        return "vec"
    return "std"


def _split_top(s):
    out, depth, cur = [], 0, ""
    for ch in s:
        if ch in "<([":
            depth += 1
        elif ch in ">)]":
            depth -= 1
        if ch == "," and depth == 0:
            out.append(cur)
            cur = ""
        else:
            cur += ch
    if cur.strip():
        out.append(cur)
    return out


def hash_names(all_lines):
    """names bound to std hash containers anywhere in the scanned files ->
    {name: 'std' | 'fixed' | 'vec'}; `name()` = a function returning one; 'vec' = Vec/slice OF hash containers
    (iterating it is not a hash iteration, iterating `name[i]` or an element bound by a `for` over it is)"""
    names = {}
    fn_tuple = {}
    text_by_file = {f: "\n".join(c for _, c in ls if not re.match(r"\s*(pub\s+)?use\s", c)) for f, ls in all_lines.items()}
    for f, text in text_by_file.items():
        # fields, parameters, lets with a type annotation:  name: …HashMap<…
        for m in re.finditer(r"\b(?:mut\s+)?(" + _ID + r")\s*:(?!:)\s*([^;=\n{()|]*?" + _TY + r"[^;=\n]*)", text):
            k = _kind_of_type(m.group(2))
            if k:
                names.setdefault(m.group(1), k)
        # let [mut] name = HashMap::new() / with_capacity / with_hasher / from_iter
        for m in re.finditer(r"\blet\s+(?:mut\s+)?(" + _ID + r")\s*(?::[^=]*)?=\s*(Hash(?:Map|Set)::\w+[^;]*);", text):
            names.setdefault(m.group(1), "fixed" if "with_hasher" in m.group(2) else "std")
        # let [mut] name = …collect::<HashMap / HashSet …>()   (statement may span lines)
        for m in re.finditer(r"\blet\s+(?:mut\s+)?(" + _ID + r")\s*(?::[^=]*)?=([^;]*?)\.collect::<\s*" + _TY + r"[^;]*?>\(\)\s*;", text):
            names.setdefault(m.group(1), "std")
        # functions returning a hash container (or a tuple with one): their call is a receiver too
        for m in re.finditer(r"\bfn\s+(" + _ID + r")\s*(?:<[^(]*>)?\s*\(", text):
            i, depth = m.end(), 1
            while i < len(text) and depth:
                depth += {"(": 1, ")": -1}.get(text[i], 0)
                i += 1
            mm = re.match(r"\s*->\s*([^{;]*?)(?:\bwhere\b|\{|;)", text[i:])
            if not mm:
                continue
            ret = mm.group(1).strip()
            if not re.search(_TY, ret):
                continue
            if ret.startswith("("):
                inner = ret[1:ret.rfind(")")]
                fn_tuple[m.group(1)] = [_kind_of_type(p_) for p_ in _split_top(inner)]
            else:
                k = _kind_of_type(re.sub(r"^(?:Option|Result)\s*<\s*", "", ret))
                names.setdefault(m.group(1) + "()", k or "std")
    changed = True
    while changed:
        changed = False
        for f, text in text_by_file.items():
            # let (a, b) = f(…)  where f returns a tuple
            for m in re.finditer(r"\blet\s*\(([^()=]*)\)\s*=\s*(?:self\s*\.\s*)?(" + _ID + r")\s*\(", text):
                kinds = fn_tuple.get(m.group(2))
                parts = [re.sub(r"^(?:mut|ref)\s+", "", x.strip()) for x in m.group(1).split(",")]
                if kinds and len(kinds) == len(parts):
                    for x, k in zip(parts, kinds):
                        if k and re.fullmatch(_ID, x) and x not in names:
                            names[x] = k
                            changed = True
            # one-step aliases:  [if] let [Some(][ref|&|mut] x[)] = [&][a.b.]name[(…)][.as_ref()|.clone()|…]
            for m in re.finditer(r"\blet\s+(?:Some\s*\(\s*)?(?:ref\s+|mut\s+|&)*(" + _ID + r")\s*\)?\s*=\s*&?\s*(?:mut\s+)?((?:" + _ID + r"\s*\.\s*)*)(" + _ID + r")"
                                 r"(\s*\([^()]*\))?((?:\s*\.\s*(?:as_ref|as_mut|clone|unwrap|to_owned|borrow)\s*\(\s*\))*)\s*(?:;|\{|$|\n|&&)", text):
                x, base, call = m.group(1), m.group(3), m.group(4)
                key = base + "()" if call else base
                if key in names and x not in names and x != base:
                    names[x] = names[key]
                    changed = True
            # elements of a Vec of hash containers:  for x in v / for (i, x) in v.drain(..).enumerate()
            for m in re.finditer(r"\bfor\s+(\(?[^{;]*?\)?)\s+in\s+&?\s*(?:mut\s+)?(?:self\s*\.\s*)?(" + _ID + r")((?:\s*\.\s*(?:drain\s*\(\s*\.\.\s*\)|iter\s*\(\s*\)|iter_mut\s*\(\s*\)|into_iter\s*\(\s*\)|enumerate\s*\(\s*\)))*)\s*\{", text):
                pat, v, chain = m.group(1).strip(), m.group(2), m.group(3)
                if names.get(v) != "vec":
                    continue
                if "enumerate" in chain:
                    mm = re.fullmatch(r"\(\s*" + _ID + r"\s*,\s*(?:mut\s+|ref\s+|&)*(" + _ID + r")\s*\)", pat)
                    x = mm.group(1) if mm else None
                else:
                    mm = re.fullmatch(r"(?:mut\s+|ref\s+|&)*(" + _ID + r")", pat)
                    x = mm.group(1) if mm else None
                if x and x not in names:
                    names[x] = "std"
                    changed = True
    return names


def enclosing_fns(lines):
    """line number -> name of the innermost `fn` whose body (by brace depth) contains it"""
    res = {}
    stack = []          # (name, depth at which its body opened)
    depth = 0
    pending = None
    for no, code in lines:
        m = re.search(r"\bfn\s+([A-Za-z_][A-Za-z_0-9]*)", code)
        if m:
            pending = m.group(1)
        res[no] = stack[-1][0] if stack else (pending or "-")
        for ch in code:
            if ch == "{":
                depth += 1
                if pending is not None:
                    stack.append((pending, depth))
                    pending = None
            elif ch == "}":
                if stack and stack[-1][1] == depth:
                    stack.pop()
                depth -= 1
            elif ch == ";" and pending is not None and not stack:
                pending = None
        if m and stack and stack[-1][0] == m.group(1):
            res[no] = m.group(1)
    return res


def norm(code):
    return re.sub(r"\s+", " ", code).strip()


def scan(repo):
    """-> (sites, names).  site = {file, line, fn, code, key, receiver, how, hasher}"""
    all_lines = {}
    for f in files(repo):
        all_lines[f] = production_lines(open(os.path.join(repo, f), errors="replace").read())
    names = hash_names(all_lines)
    plain = sorted(n for n in names if not n.endswith("()") and names[n] != "vec")
    vecs = sorted(n for n in names if not n.endswith("()") and names[n] == "vec")
    calls = sorted(n[:-2] for n in names if n.endswith("()"))
    alt = lambda xs: "|".join(map(re.escape, xs)) or "\\b\\B"
    # name | vec[index] | call(...) — possibly behind a path `a.b.`
    recv = (r"(?<![A-Za-z_0-9])(?:(?:%s)\b(?!\s*[\(\[])|(?:%s)\s*\[[^\[\]]*(?:\([^()]*\))?[^\[\]]*\]|(?:%s)\s*\([^()]*\))"
            % (alt(plain), alt(vecs), alt(calls)))
    # receiver [.as_ref()/.unwrap()/…]* .iter()   — also when the method starts the next line
    glue = r"(?:\s*\.\s*(?:as_ref|as_mut|unwrap|borrow|borrow_mut|clone|lock|to_owned)\s*\(\s*\)|\s*\?)*"
    pat_m = re.compile(r"(%s)%s\s*\.\s*(%s)\s*\(" % (recv, glue, ITER_METHODS))
    pat_for = re.compile(r"\bfor\s+[^;{]*?\bin\s+&?\s*(?:mut\s+)?(?:%s\s*\.\s*)*(%s)%s\s*\{" % (_ID, recv, glue))
    pat_ext = re.compile(r"\.\s*extend\s*\(\s*&?\s*(?:%s\s*\.\s*)*(%s)%s\s*[\).]" % (_ID, recv, glue))
    pat_anon = re.compile(r"collect::<\s*Hash(?:Set|Map)\b[^;]*?>\s*\(\s*\)\s*\.\s*(difference|union|intersection|symmetric_difference|iter|into_iter|drain|keys|values|into_keys|into_values)\s*\(")
    sites = []
    for f, lines in all_lines.items():
        fns = enclosing_fns(lines)
        seen = {}
        # an unnamed container: `….collect::<HashSet<_>>() .difference(…)` / `.into_iter()` (may span lines)
        text = "\n".join(c for _, c in lines)
        for m in pat_anon.finditer(text):
            idx = text.count("\n", 0, m.start())
            no, code = lines[idx]
            how = "anonymous ." + m.group(1) + "()"
            base = (f, fns.get(no, "-"), norm(code), how)
            seen[base] = seen.get(base, 0) + 1
            sites.append({"file": f, "line": no, "fn": fns.get(no, "-"), "code": norm(code), "receiver": "<collect::<Hash…>>", "how": how,
                          "hasher": "std", "key": "%s | %s | %s | %s | #%d" % (f, fns.get(no, "-"), norm(code), how, seen[base])})
        # join a line with the following one(s) when it ends in a receiver and the next starts with `.`
        for idx, (no, code) in enumerate(lines):
            if not code.strip():
                continue
            joined = code
            k = idx + 1
            while k < len(lines) and lines[k][1].lstrip().startswith(".") and k - idx <= 3:
                joined += " " + lines[k][1].strip()
                k += 1
            found = []
            for m in pat_m.finditer(joined):
                # attribute the site to the line on which the receiver stands
                if m.start(1) < len(code):
                    found.append((m.group(1), "." + m.group(2) + "()"))
            for m in pat_for.finditer(code):
                found.append((m.group(1), "for-in"))
            for m in pat_ext.finditer(code):
                found.append((m.group(1), "extend-from"))
            for r_, how in found:
                rname = re.sub(r"\s*\(.*$", "()", r_) if not re.match(_ID + r"\s*\[", r_) else re.sub(r"\s*\[.*$", "", r_)
                base = (f, fns.get(no, "-"), norm(code), how)
                seen[base] = seen.get(base, 0) + 1
                sites.append({"file": f, "line": no, "fn": fns.get(no, "-"), "code": norm(code), "receiver": rname, "how": how,
                              "hasher": {"vec": "std"}.get(names.get(rname, "std"), names.get(rname, "std")),
                              "key": "%s | %s | %s | %s | #%d" % (f, fns.get(no, "-"), norm(code), how, seen[base])})
    return sites, names


# ----------------------------------------------------------------------------- the audit
# key -> (verdict, reason, needs)    needs: None | ("fn", regex) the enclosing function must still contain this |
#                                           ("file", regex) the file must | ("raw", regex) the file incl. comments must
AUDIT = {
    'cfgrammar/src/lib/yacc/ast.rs | complete_and_validate | .epp | .iter() | #1':
        ("sorted", "of the unknown %epp keys the one with the least (span start, span end) is reported; spans of distinct declarations differ "
                   "(C15_validate_epp_order_insensitive; /repo 3e32e4e)",
         ("fn", r"\.min_by_key\(\|\(_, \(sp, _\)\)\| \(sp\.start\(\), sp\.end\(\)\)\)")),
    'cfgrammar/src/lib/yacc/ast.rs | unused_symbols | expected_unused_tokens.extend(implicit_tokens.keys()) | .keys() | #1':
        ("order-free", "the keys go into another HashSet that is only asked `contains`", None),
    'cfgrammar/src/lib/yacc/ast.rs | unused_symbols | expected_unused_tokens.extend(implicit_tokens.keys()) | extend-from | #1':
        ("order-free", "the keys go into another HashSet that is only asked `contains`", None),
    'cfgrammar/src/lib/yacc/grammar.rs | new_from_ast_with_validity_info | for n in ai.keys() { | .keys() | #1':
        ("order-free", "one bit of a Vob is set per key (C15_avoid_insert_order_insensitive)", None),
    'cfgrammar/src/lib/yacc/grammar.rs | new_from_ast_with_validity_info | .map(|x| x.iter().copied().collect()) | .iter() | #1':
        ("not-a-hash-container", "`x` is a Vec<PIdx> here (the name is a hash map in pager.rs)", None),
    'lrtable/src/lib/pager.rs | pager_stategraph | for (k, v) in x { | for-in | #1':
        ("order-free", "the pairs are inserted into a new HashMap", None),
    'lrtable/src/lib/pager.rs | gc | let state_i = *todo.iter().next().unwrap(); | .iter() | #1':
        ("order-free", "which pending state is popped does not change the set of states reached nor their new numbers "
                       "(C15_gc_walk_reachable, C15_gc_order_insensitive, C15_gc_renumbering_monotone)", None),
    'lrtable/src/lib/pager.rs | gc | edges[usize::from(state_i)] | .values() | #1':
        ("order-free", "the targets go into the HashSet `todo`", None),
    'lrtable/src/lib/pager.rs | gc | st_edges | .iter() | #1':
        ("order-free", "the renumbered pairs are collected into a new HashMap", None),
    'lrtable/src/lib/stategraph.rs | pp | let mut edges = self.edges(stidx).iter().collect::<Vec<_>>(); | .iter() | #1':
        ("leaks-order-only", "pretty-printer text (debugging aid): sorted by target state only, two edges into the same state keep the hash "
                             "order; compared as the informational IPP section of the digest, never part of the verdict",
         ("fn", r"edges\.sort_by_key\(\|\(_, x\)\| \*x\)")),
    'lrtable/src/lib/statetable.rs | new | for (&sym, ref_stidx) in sg.edges(stidx) { | for-in | #1':
        ("sorted", "every edge writes its own cell / goto entry (C15_table_row_order_insensitive); the conflict list, pushed in edge order, is "
                   "sorted by (state, token, production) afterwards (C15_table_row_fixed_order_insensitive; /repo e0ff4cd)",
         ("fn", r"shift_reduce\.sort_by_key\(\|&\(tidx, pidx, stidx\)\| \(stidx, tidx, pidx\)\)")),
    'lrtable/src/lib/statetable.rs | new | for &pidx in nt_depth.values() { | .values() | #1':
        ("order-free", "one bit of core_reduces is set per value and the distinct values are counted", None),
    'lrpar/src/lib/ctbuilder.rs | build_inner | .tokens_map() | .iter() | #1':
        ("order-free", "collected into the HashMap `rule_ids`", None),
    'lrlex/src/lib/ctbuilder.rs | build_inner | let owned_map = rule_ids_map | .iter() | #1':
        ("order-free", "collected into a HashMap<&str, _>", None),
    'lrlex/src/lib/ctbuilder.rs | build_inner | let owned_map = rim | .iter() | #1':
        ("order-free", "collected into a HashMap<&str, _>", None),
    'lrlex/src/lib/ctbuilder.rs | build_inner | let token_spans = mfl | .iter() | #1':
        ("leaks-order-only", "the `Missing from lexer` blocks on stderr (before the build panics) are printed in HashSet order; the same blocks in "
                             "every process (compared as a multiset by the family `failing sources`)", None),
    'lrlex/src/lib/ctbuilder.rs | build_inner | for n in mfl { | for-in | #1':
        ("leaks-order-only", "the names `used in the grammar but not defined in the lexer` (lexer built alone) are printed on stderr in HashSet "
                             "order; the same names in every process (compared as a multiset)", None),
    'lrlex/src/lib/ctbuilder.rs | build_inner | for (_, span) in mfp { | for-in | #1':
        ("leaks-order-only", "the `Missing from parser` blocks (stderr or cargo:warning lines) are printed in HashSet order; the same blocks in "
                             "every process (compared as a multiset)", None),
    # the same three sites once notes/C15-missing-lists-order.diff is applied
    'lrlex/src/lib/ctbuilder.rs | build_inner | let mut token_spans = mfl | .iter() | #1':
        ("sorted", "the spans are sorted by (start, end) before the `Missing from lexer` blocks are printed (distinct tokens have distinct spans)",
         ("fn", r"token_spans\.sort_by_key\(\|span\| \(span\.start\(\), span\.end\(\)\)\)")),
    'lrlex/src/lib/ctbuilder.rs | build_inner | let mut names = mfl.iter().collect::<Vec<_>>(); | .iter() | #1':
        ("sorted", "the (unique) names are sorted before they are printed", ("fn", r"names\.sort\(\)")),
    'lrlex/src/lib/ctbuilder.rs | build_inner | let mut mfp_spans = mfp.iter().map(|(_, span)| *span).collect::<Vec<_>>(); | .iter() | #1':
        ("sorted", "the spans are sorted by (start, end) before the `Missing from parser` blocks are printed (distinct rules have distinct name spans)",
         ("fn", r"mfp_spans\.sort_by_key\(\|span\| \(span\.start\(\), span\.end\(\)\)\)")),
    'lrlex/src/lib/ctbuilder.rs | build_inner | let mut rim_sorted = Vec::from_iter(rim.iter()); | .iter() | #1':
        ("sorted", "sorted by the (unique) name before the token constants are generated",
         ("fn", r"rim_sorted\.sort_by_key\(\|\(k, _\)\| \*k\)")),
    'lrlex/src/lib/ctbuilder.rs | process_file | .map(|x| x.iter().map(|(n, _)| n.to_owned()).collect::<HashSet<_>>()), | .iter() | #1':
        ("order-free", "the names are collected into a new HashSet", None),
    'lrlex/src/lib/ctbuilder.rs | new | token_map: token_map | .iter() | #1':
        ("sorted", "copied into a Vec that `build` sorts by the (unique) name before anything is generated",
         ("file", r"token_map_sorted\.sort_by\(\|\(l, _\), \(r, _\)\| l\.cmp\(r\)\)")),
    'lrlex/src/lib/ctbuilder.rs | rename_map | rename_map | .into_iter() | #1':
        ("order-free", "the caller's pairs are collected into a HashMap that is only asked `get`", None),
    'lrlex/src/lib/lexer.rs | set_rule_ids_spanned | .collect::<HashSet<&str>>() | anonymous .difference() | #1':
        ("order-free", "the difference of two sets is collected into a HashSet", None),
    'lrlex/src/lib/lexer.rs | set_rule_ids_spanned | rule_ids_map | .keys() | #1':
        ("order-free", "the keys are collected into a HashSet", None),
}


def audit(repo):
    """-> (rows, problems).  rows: one dict per iteration site with its verdict; problems: sites without a (still valid) audit"""
    sites, names = scan(repo)
    rows, problems = [], []
    cache = {}

    def texts(f):
        if f not in cache:
            raw = open(os.path.join(repo, f), errors="replace").read()
            lines = production_lines(raw)
            fns = enclosing_fns(lines)
            by_fn = {}
            for no, code in lines:
                by_fn.setdefault(fns.get(no, "-"), []).append(code)
            cache[f] = (raw, "\n".join(c for _, c in lines), {k: "\n".join(v) for k, v in by_fn.items()})
        return cache[f]

    for s_ in sites:
        row = {"site": "%s:%d" % (s_["file"], s_["line"]), "fn": s_["fn"], "code": s_["code"], "how": s_["how"], "receiver": s_["receiver"]}
        if s_["hasher"] == "fixed":
            row.update(verdict="fixed-seed", reason="the container is declared with BuildHasherDefault<..> (fixed seed): the same order in every process")
        elif s_["key"] in AUDIT:
            verdict, reason, needs = AUDIT[s_["key"]]
            row.update(verdict=verdict, reason=reason)
            if needs:
                raw, code, by_fn = texts(s_["file"])
                where = {"fn": by_fn.get(s_["fn"], ""), "file": code, "raw": raw}[needs[0]]
                if not re.search(needs[1], where):
                    row["verdict"] = "AUDIT-NO-LONGER-APPLIES"
                    problems.append(dict(row, what="the audited verdict (%s) relied on `%s` in the %s, which is gone" % (verdict, needs[1], needs[0]), key=s_["key"]))
        else:
            row.update(verdict="UN-AUDITED", reason="")
            problems.append(dict(row, what="iteration over a randomly seeded std HashMap/HashSet that nobody has audited", key=s_["key"]))
        rows.append(row)
    gone = sorted(k for k in AUDIT if k not in set(s_["key"] for s_ in sites))
    return rows, problems, gone, names
