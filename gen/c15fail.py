"""C15 — the family "failing sources": grammar / lexer sources with SEVERAL independent faults of one kind (and valid
sources with several warnings), and builder runs whose outcome is an error STRING.  Every case is one line for
`c15 fail` (see harness/src/bin/c15.rs).  Own RNGs: independent of the other families."""
import random
import re


def hx(s):
    return s.encode().hex()


BODY = [("S", ["A 'x'", "S B"]), ("A", ["'a'", ""]), ("B", ["'b' A", "'c'"])]


def body_text(kind, rules, precs=None):
    """rules: [(name, [alternative text])]; precs {(rule, alt index): token}"""
    o = []
    for n, alts in rules:
        out = []
        for i, a in enumerate(alts):
            t = a
            if precs and (n, i) in precs:
                t = (t + " %%prec %s" % precs[(n, i)]).strip()
            if kind in "UG":
                t = (t + " { 0 }").strip()
            out.append(t)
        head = "%s -> u32" % n if kind == "G" else n
        o.append("%s: %s;" % (head, " | ".join(out)))
    return "\n".join(o) + "\n"


def source(kind, decls, rules=BODY, start="S", precs=None):
    head = ["%%start %s" % start] if start else []
    if kind == "U":
        head.append("%actiontype u32")
    return "\n".join(head + decls) + "\n%%\n" + body_text(kind, rules, precs)


def epp_entries(src, known_names):
    """[(name, start, end, known)] for every `%epp NAME …` line of src, in source order; spans are those of the name
    (without quotes)"""
    res = []
    for m in re.finditer(r"^%epp\s+(?:'([^']*)'|\"([^\"]*)\"|(\S+))", src, re.M):
        g = 1 if m.group(1) is not None else 2 if m.group(2) is not None else 3
        res.append((m.group(g), m.start(g), m.end(g), m.group(g) in known_names))
    return res


def yacc_cases(n_each):
    cases = []

    def add(fam, kind, src, faults, **kw):
        cases.append(dict(kw, mode="Y", fam=fam, kind=kind, src=src, faults=faults, line="Y %s %s" % (kind, hx(src))))

    for i in range(n_each):
        r = random.Random(7368787 * i + 3)
        kind = "ONGE"[i % 4]
        k = 2 + i % 5                                        # 2..6 faults
        # ---- unknown %epp x k, known ones in between, in several textual orders
        unknown = ["U%d" % j for j in range(1, k + 1)]
        if i % 3 == 1:
            unknown = ["zz_%s" % "abcdefgh"[j] for j in range(k)]
        r.shuffle(unknown)
        decls = ['%%epp %s "u %d"' % (u, j) for j, u in enumerate(unknown)]
        for t in r.sample(["x", "a", "b", "c"], r.randint(0, 3)):
            decls.insert(r.randrange(len(decls) + 1), "%%epp '%s' \"known %s\"" % (t, t))
        known = {"x", "a", "b", "c"}
        if kind == "E":
            decls.insert(0, "%implicit_tokens W1 W2")
            decls.insert(r.randrange(1, len(decls) + 1), '%epp W1 "white"')
            known |= {"W1", "W2"}
        src = source(kind, decls)
        add("unknown_epp", kind, src, k, epp=epp_entries(src, known))
        # ---- references to rules that do not exist
        und = ["Q%d" % j for j in range(1, k + 1)]
        rules = [("S", ["A 'x' %s" % und[0], "S B", "%s S" % und[1]]), ("A", ["'a'", ""] + und[2:4]), ("B", ["'b' A"] + ["'c' %s" % u for u in und[4:]])]
        add("unknown_rule_refs", kind, source(kind, [], rules), k)
        # ---- %expect-unused naming symbols that do not exist
        names = ["Z%d" % j if j % 2 else "'z%d'" % j for j in range(1, k + 1)]
        r.shuffle(names)
        add("unknown_expect_unused", kind, source(kind, ["%%expect-unused %s" % " ".join(names)]), k)
        add("unknown_expect_unused_lines", kind, source(kind, ["%%expect-unused %s" % nm for nm in names]), k)
        # ---- duplicate declarations
        d = []
        pool = [["%epp 'x' \"one\"", "%epp 'x' \"two\""], ["%epp 'a' \"one\"", "%epp 'a' \"two\"", "%epp 'a' \"three\""],
                ["%left 'a'", "%right 'a'"], ["%nonassoc 'b' 'c'", "%left 'c' 'b'"], ["%avoid_insert 'a' 'a' 'b' 'b'"],
                ["%avoid_insert 'x'", "%avoid_insert 'x' 'c'"], ["%expect 1", "%expect 2"], ["%expect-rr 1", "%expect-rr 3"],
                ["%start A"], ["%token 'a' 'a' 'x' 'x'"]]
        if kind == "E":
            pool += [["%implicit_tokens W W V V"], ["%implicit_tokens W", "%implicit_tokens V W"]]
        for grp in r.sample(pool, min(k, len(pool))):
            d += grp
        if i % 2:
            r.shuffle(d)
        add("duplicate_declarations", kind, source(kind, d), k)
        # ---- %prec naming tokens that do not exist / that have no precedence
        precs = {}
        slots = [("S", 0), ("S", 1), ("A", 0), ("B", 0), ("B", 1)]
        for j, sl in enumerate(r.sample(slots, min(k, len(slots)))):
            precs[sl] = "'p%d'" % j if (i + j) % 3 else "'x'"
        add("unknown_prec_tokens", kind, source(kind, ["%left 'q'"], precs=precs), len(precs))
        # ---- start rule that does not exist (+ other faults behind it)
        add("undefined_start", kind, source(kind, ['%%epp %s "u"' % u for u in unknown[:2]], rules, start="Nope%d" % k), 3)
        # ---- everything at once
        add("mixed", kind, source(kind, decls + d[:3] + ["%%expect-unused %s" % " ".join(names[:2])], rules, precs=precs), 2 * k)
        # ---- several syntax-level faults
        junk = ["%%bogus%d" % j for j in range(k)]
        add("unknown_declarations", kind, source(kind, junk), k)
        # ---- VALID sources with several warnings (unused rules and tokens), some expected
        extra = [("R%d" % j, ["'r%d'" % j, "R%d 'x'" % j]) for j in range(k)]
        toks = ["T%d" % j for j in range(k)]
        dd = ["%%token %s" % " ".join(toks)]
        if i % 2:
            dd.append("%%expect-unused R0 '%s'" % toks[-1])
        add("warnings", kind, source(kind, dd, BODY + extra), 2 * k - (2 if i % 2 else 0), valid=True)
    return cases


def lexer_cases(n_each):
    cases = []

    def add(fam, lex, faults):
        cases.append({"mode": "X", "fam": fam, "lex": lex, "faults": faults, "line": "X %s" % hx(lex)})

    for i in range(n_each):
        r = random.Random(15487457 * i + 9)
        k = 2 + i % 5
        names = ["N%d" % j for j in range(k)]
        rules = []
        for j, nm in enumerate(names):
            rules += ["a%d '%s'" % (j, nm), "b%d '%s'" % (j, nm)]
        if i % 2:
            r.shuffle(rules)
        add("lex_duplicate_names", "%%\n" + "\n".join(rules) + "\n", k)
        add("lex_unknown_start_states", "%x KNOWN\n%%\n" + "\n".join("<Q%d>c%d 'C%d'" % (j, j, j) for j in range(k)) + "\n<KNOWN>k 'K'\n", k)
        add("lex_unknown_start_states_in_lists", "%x K1 K2\n%%\n" + "\n".join("<K1,Q%d,K2,P%d>c%d 'C%d'" % (j, j, j, j) for j in range(k)) + "\n", 2 * k)
        decl = []
        for j in range(k):
            decl += ["%%%s ST%d" % ("xs"[j % 2], j)] * 2
        if i % 2:
            r.shuffle(decl)
        add("lex_duplicate_start_states", "\n".join(decl) + "\n%%\na 'A'\n", k)
        add("lex_invalid_regexes", "%%\n" + "\n".join("%s 'R%d'" % (["[a", "a{2", "(?P<n", "\\\\p{Nope}", "a{3,1}", "[z-a]"][j % 6], j) for j in range(k)) + "\n", k)
        add("lex_mixed", "%x A\n%x A\n%%\n<B>a 'X'\n<C>b 'X'\n[q 'Y'\n" + "\n".join("d%d 'X'" % j for j in range(k)) + "\n", k + 4)
    return cases


def _lex_for(tokens, extra=()):
    o = ["%%"]
    for j, t in enumerate(list(tokens) + list(extra)):
        rx = "".join(c if c.isalnum() else "\\" + c for c in t) if t.isalnum() and len(t) == 1 else "k%dx" % j
        o.append("%s '%s'" % (rx, t))
    o.append("[ \\t\\n]+ ;")
    return "\n".join(o) + "\n"


def builder_cases(n_each, yc, lc):
    cases = []

    def add(fam, kind, src, lex, opts, faults, **kw):
        o = ",".join("%s=%s" % kv for kv in sorted(opts.items())) or "-"
        cases.append(dict(kw, mode="B", fam=fam, kind=kind, src=src, lex=lex, opts=opts, faults=faults,
                          line="B %s %s %s %s" % (kind, hx(src), hx(lex) if lex is not None else "-", o)))

    for i in range(n_each):
        r = random.Random(32452867 * i + 1)
        kind = "ONG"[i % 3]
        k = 2 + i % 5
        via = "pl"[i % 2]
        # ---- many conflicts: E: E op E for k operators (k*k shift/reduce), sometimes with a wrong %expect
        ops = ["+", "*", "-", "/", "^", "<"][:k]
        rules = [("E", ["E '%s' E" % o for o in ops] + ["'n'"])]
        decls = [] if i % 3 else ["%expect 1"]
        src = source(kind, decls, rules, start="E")
        add("conflicts_sr", kind, src, _lex_for(ops + ["n"]), {"via": via, "sw": "0"}, k * k)
        # ---- reduce/reduce: k rules deriving the same token
        alts = ["P%d" % j for j in range(k)]
        rules = [("S", alts + ["S 'y' S"])] + [(a, ["'a'"]) for a in alts]
        add("conflicts_rr", kind, source(kind, [], rules), _lex_for(["a", "y"]), {"via": via, "sw": "0"}, k)
        # ---- warnings turned into an error string
        extra = [("R%d" % j, ["'r%d'" % j]) for j in range(k)]
        toks = ["T%d" % j for j in range(k)]
        src = source(kind, ["%%token %s" % " ".join(toks)], BODY + extra)
        add("warnings_are_errors", kind, src, _lex_for(["x", "a", "b", "c"] + ["r%d" % j for j in range(k)] + toks),
            {"via": via, "wae": "1", "sw": "1"}, 2 * k)
        add("warnings_shown", kind, src, _lex_for(["x", "a", "b", "c"] + ["r%d" % j for j in range(k)] + toks),
            {"via": via, "wae": "0", "sw": "1", "eoc": "0"}, 2 * k, stderr_is_list=False)
        # ---- tokens of the grammar that the lexer does not define (list printed on stderr, then the build panics)
        gtoks = ["x", "a", "b", "c"]
        extra_t = ["m%d" % j for j in range(k)]
        rules = BODY + [("B", ["'%s'" % t for t in extra_t])]
        src = source(kind, [], [("S", ["A 'x'", "S B"]), ("A", ["'a'", ""]), ("B", ["'b' A", "'c'"] + ["'%s' A" % t for t in extra_t])])
        add("missing_from_lexer", kind, src, _lex_for(gtoks), {"via": "l", "amtl": "0", "sw": "0"}, k, missing_list="lexer")
        # ---- names of the lexer that the grammar does not use (warnings on stderr; errors with wae)
        add("missing_from_parser", kind, source(kind, []), _lex_for(gtoks, ["X%d" % j for j in range(k)]),
            {"via": "l", "amtp": "0", "sw": "1", "wae": str(i % 2)}, k, missing_list="parser")
        # ---- %expect that does not match
        add("expect_mismatch", kind, source(kind, ["%expect 7", "%expect-rr 2"], [("E", ["E '+' E", "'n'"])], start="E"), _lex_for(["+", "n"]),
            {"via": via, "sw": "0"}, 1)
    # ---- failing yacc / lexer sources through the builders (the text the user reads)
    for j, c in enumerate(yc):
        if c["kind"] == "E" or c.get("valid"):
            continue
        if j % 3 == 0:
            add("builder_" + c["fam"], c["kind"], c["src"], _lex_for(["x", "a", "b", "c"]), {"via": "pl"[j % 2], "sw": "0"}, c["faults"])
    for j, c in enumerate(lc):
        if j % 2 == 0:
            add("builder_" + c["fam"], "O", source("O", []), c["lex"], {"via": "l", "sw": "0"}, c["faults"])
    return cases


def lexer_alone_cases(n_each):
    """a lexer built alone from a rule ids map: names of the map without a lexing rule (amtl=0: list on stderr + panic),
    rules whose name is not in the map (amtp=0, warnings)"""
    cases = []
    for i in range(n_each):
        r = random.Random(49979693 * i + 5)
        k = 2 + i % 5
        names = ["A", "B", "C", "D"]
        only_map = ["ONLY_IN_MAP_%d" % j for j in range(k)]
        only_lex = ["ONLY_IN_LEXER_%d" % j for j in range(k)]
        for which in ("lexer", "parser"):
            mp = [(n, j) for j, n in enumerate(names + (only_map if which == "lexer" else []))]
            r.shuffle(mp)
            lex = _lex_for(names, only_lex if which == "parser" else [])
            opts = {"amtl": "0", "amtp": "1", "sw": "1"} if which == "lexer" else {"amtl": "1", "amtp": "0", "sw": "1", "wae": str(i % 2)}
            cases.append({"mode": "M", "fam": "alone_missing_from_" + which, "lex": lex, "map": mp, "opts": opts, "faults": k, "missing_list": which,
                          "line": "M %s %s %s" % (hx(lex), ",".join("%s=%d" % (hx(n), j) for n, j in mp),
                                                  ",".join("%s=%s" % kv for kv in sorted(opts.items())))})
    return cases


def all_cases(n_each):
    yc = yacc_cases(n_each)
    lc = lexer_cases(n_each)
    return yc + lc + builder_cases(n_each, yc, lc) + lexer_alone_cases(n_each)
