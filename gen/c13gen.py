"""C13 generators: grammar/lexer pairs with self-describing actions, builder
settings, inputs (sentences and near-sentences), and action texts for the
`$`-substitution scanner.

A program is a dict:
  name, yk ('G' Grmtools | 'U' Original(UserAction) | 'O' Original(GenericParseTree)),
  tokens [(name, regex, epp|None)], skip [regex], rules [(rname, [prod])] with
  prod = {'syms': [('t', name) | ('r', name)], 'items': [...]}; items are
  ('A', k) ($k), ('S',) ($span), ('X',) ($lexer.span_str($span)), ('D',) ($$), ('P',) (parse param);
  start, avoid_insert, parse_param (None | value), lex_section {flag: val}, lex_api {flag: val},
  settings {rec, ser, ed, vis, mody, modl, entry (build | pf), amp}, inputs [str], family;
  big_programs (None | bytes of an extra programs section), unused_tokens [names the .l has and the .y lacks],
  param_name (name of the %parse-param, default `p`), scope (None | why the generated module is EXPECTED not to compile).
"""
import re
import unicodedata

from gen import grammars

BOOL_FLAGS = ["dot_matches_new_line", "multi_line", "octal", "posix_escapes", "allow_wholeline_comments",
              "case_insensitive", "swap_greed", "ignore_whitespace", "unicode"]
NUM_FLAGS = ["size_limit", "dfa_size_limit", "nest_limit"]
ALL_FLAGS = BOOL_FLAGS + NUM_FLAGS          # canonical order (= order of the model's record)
# order of the assignments in the generated lexerdef()
GEN_ORDER = ["allow_wholeline_comments", "dot_matches_new_line", "multi_line", "octal", "posix_escapes",
             "case_insensitive", "unicode", "swap_greed", "ignore_whitespace", "size_limit", "dfa_size_limit",
             "nest_limit"]


def hx(s):
    return s.encode().hex()


# ---------------------------------------------------------------- action texts

def item_code(it, prod, style, pname="p"):
    k = it[0]
    if k == 'A':
        kind = prod['syms'][it[1] - 1][0]
        if kind == 't':
            return "crate::gv::t($lexer, &$%d)" % it[1] if style != 1 else "crate::gv::t( $lexer ,&$%d )" % it[1]
        return "$%d.clone()" % it[1]
    if k == 'S':
        return "crate::gv::s($span)"
    if k == 'X':
        return "crate::gv::x($lexer,$span)" if style == 2 else "crate::gv::x($lexer, $span)"
    if k == 'D':
        return '"$$".to_string()'
    if k == 'P':
        return 'format!("{}", %s)' % pname
    raise ValueError(it)


def action_text(label, prod, style=0, local=False, pname="p"):
    items = ", ".join(item_code(it, prod, style, pname) for it in prod['items'])
    lab = '"%s"' % label
    if local:
        lab = "gv_label(%s)" % lab
    if style == 2:
        return "\n        let its: Vec<String> = vec![%s];\n        crate::gv::node(%s, &its)\n    " % (items, lab)
    return "crate::gv::node(%s, &[%s])" % (lab, items)


def template_items(prod):
    return ",".join("A%d" % it[1] if it[0] == 'A' else it[0] for it in prod['items'])


def template(prog):
    """`;`-separated  <rulenamehex>.<alt>=<labelhex>:<items>  (resolved to production indices by the harness)"""
    ents = []
    for rn, prods in prog['rules']:
        for i, p in enumerate(prods):
            ents.append("%s.%d=%s:%s" % (hx(rn), i, hx("%s.%d" % (rn, i)), template_items(p)))
    return ";".join(ents)


# ---------------------------------------------------------------- rendering

def q(tok):
    return "'%s'" % tok


def render_y(prog):
    yk = prog['yk']
    o = []
    o.append("%%start %s" % prog['start'])
    if prog.get('avoid_insert'):
        o.append("%%avoid_insert %s" % " ".join(q(t) for t in prog['avoid_insert']))
    for name, _, epp in prog['tokens']:
        if epp is not None:
            o.append('%%epp %s "%s"' % (name, epp))
    if yk == 'U':
        o.append("%actiontype String")
    if yk in 'GU' and prog.get('parse_param') is not None:
        o.append("%%parse-param %s: u64" % prog.get('param_name', 'p'))
    o.append("%%")
    style = prog.get('style', 0)
    for rn, prods in prog['rules']:
        alts = []
        for i, p in enumerate(prods):
            s = " ".join(q(x) if k == 't' else x for k, x in p['syms'])
            if not p['syms'] and prog.get('explicit_empty'):
                s = "%empty"
            if yk in 'GU':
                s += " { %s }" % action_text("%s.%d" % (rn, i), p, style, local=prog.get('local_label', False),
                                             pname=prog.get('param_name', 'p'))
            alts.append(s)
        head = "%s -> String" % rn if yk == 'G' else rn
        o.append("%s:\n      %s\n    ;" % (head, "\n    | ".join(alts)))
    if yk in 'GU' and (prog.get('local_label') or prog.get('big_programs')):
        o.append("%%")
        o.append("// programs section: passed through into the generated module")
        if prog.get('local_label'):
            o.append("fn gv_label(l: &str) -> &str { l }")
        if prog.get('big_programs'):
            # a programs section of more than 80 KB: one string constant inside a function body (cheap for rustc);
            # the section is a String of the serialised grammar, so the generated parser's start-up has to read a
            # sequence of that size back
            n = prog['big_programs']
            chunk = "grmtools embeds the programs section in the serialised grammar. "
            o.append("#[allow(dead_code)]")
            o.append('fn gv_big() -> &\'static str {\n    "%s"\n}' % (chunk * (n // len(chunk) + 1)))
    return "\n".join(o) + "\n"


def flag_section(flags):
    if not flags:
        return ""
    parts = []
    for k in ALL_FLAGS:
        if k in flags:
            v = flags[k]
            if k in NUM_FLAGS:
                parts.append("%s: %d" % (k, v))
            else:
                parts.append(k if v else "!" + k)
    return "%%grmtools{%s}\n" % ", ".join(parts)


def render_l(prog, merged=False):
    """merged=True: the flags set through the builder API are written into the %grmtools
    section instead (the run-time side has no builder API)."""
    flags = dict(prog.get('lex_section') or {})
    if merged:
        flags.update(prog.get('lex_api') or {})
    o = [flag_section(flags) + "".join(l + "\n" for l in prog.get('lex_decls', [])) + "%%"]
    if flags.get('allow_wholeline_comments'):
        o.append("// a whole-line comment")
    if prog.get('lex_lines'):
        o += prog['lex_lines']
        return "\n".join(o) + "\n"
    for name, rx, _ in prog['tokens']:
        o.append('%s "%s"' % (rx, name))
    for rx in prog['skip']:
        o.append("%s ;" % rx)
    return "\n".join(o) + "\n"


def effective_flags(prog):
    f = dict(prog.get('lex_section') or {})
    f.update(prog.get('lex_api') or {})
    return f


# ---------------------------------------------------------------- items

def random_items(rng, prod, with_param, full=False):
    n = len(prod['syms'])
    items = []
    order = list(range(1, n + 1))
    mode = rng.random()
    if full:
        if mode < 0.5:
            rng.shuffle(order)                   # every argument is rendered (in some order)
    elif mode < 0.35:
        rng.shuffle(order)                       # permuted: argument order is visible
    elif mode < 0.5:
        order = [k for k in order if rng.random() < 0.6]      # some arguments unused
    elif mode < 0.6 and n:
        order = order + [rng.choice(order)]      # an argument used twice
    for k in order:
        items.append(('A', k))
    extras = [('S',), ('X',), ('D',)] + ([('P',)] if with_param else [])
    for e in extras:
        if rng.random() < 0.6:
            items.insert(rng.randint(0, len(items)), e)
    return items


def fill_items(rng, prog):
    wp = prog.get('parse_param') is not None and prog['yk'] in 'GU'
    for _, prods in prog['rules']:
        for p in prods:
            p['items'] = random_items(rng, p, wp, full=prog.get('full_items', False))


# ---------------------------------------------------------------- families

WS = [" ", "  ", "\t", "\n", " \n "]


def join_tokens(rng, toks, tight=False):
    out = []
    for i, t in enumerate(toks):
        if i:
            out.append("" if tight and rng.random() < 0.3 else rng.choice(WS))
        out.append(t)
    return "".join(out)


def fam_expr(rng):
    nops1 = rng.randint(1, 2)
    nops2 = rng.randint(1, 2)
    ops1 = [("PLUS", r"\+", "+"), ("MINUS", r"-", "-")][:nops1]
    ops2 = [("STAR", r"\*", "*"), ("SLASH", r"/", "/")][:nops2]
    tokens = [("INT", "[0-9]+", "integer" if rng.random() < 0.5 else None), ("ID", "[a-z][a-z0-9_]*", None),
              ("LP", r"\(", None), ("RP", r"\)", "closing )" if rng.random() < 0.5 else None)]
    for n, rx, _ in ops1 + ops2:
        tokens.append((n, rx, None))
    rng.shuffle(tokens)
    rules = [("Expr", [{'syms': [('r', 'Expr'), ('t', o[0]), ('r', 'Term')]} for o in ops1] + [{'syms': [('r', 'Term')]}]),
             ("Term", [{'syms': [('r', 'Term'), ('t', o[0]), ('r', 'Factor')]} for o in ops2] + [{'syms': [('r', 'Factor')]}]),
             ("Factor", [{'syms': [('t', 'LP'), ('r', 'Expr'), ('t', 'RP')]}, {'syms': [('t', 'INT')]}, {'syms': [('t', 'ID')]}])]
    opsyms = {o[0]: o[2] for o in ops1 + ops2}

    def sentence(depth=3):
        def expr(d):
            s = term(d)
            while rng.random() < 0.4:
                s = s + [opsyms[rng.choice(ops1)[0]]] + term(d)
            return s

        def term(d):
            s = factor(d)
            while rng.random() < 0.3:
                s = s + [opsyms[rng.choice(ops2)[0]]] + factor(d)
            return s

        def factor(d):
            r = rng.random()
            if d > 0 and r < 0.25:
                return ["("] + expr(d - 1) + [")"]
            if r < 0.65:
                return [str(rng.randint(0, 999))]
            return [rng.choice(["x", "y1", "foo_bar"])]
        return expr(depth)
    return dict(family="expr", tokens=tokens, skip=["[ \\t\\n]+"], rules=rules, start="Expr",
                avoid_insert=(["INT"] if rng.random() < 0.4 else []), sentence=sentence,
                alphabet=["1", "x", "(", ")"] + list(opsyms.values()) + ["@"])


def fam_list(rng):
    tokens = [("ID", "[a-z]+", None), ("INT", "[0-9]+", None), ("EQ", "=", "equals"), ("SEMI", ";", None),
              ("LB", r"\[", None), ("RB", r"\]", None)]
    rules = [("List", [{'syms': []}, {'syms': [('r', 'List'), ('r', 'Item')]}]),
             ("Item", [{'syms': [('t', 'ID'), ('t', 'EQ'), ('r', 'Val'), ('t', 'SEMI')]}]),
             ("Val", [{'syms': [('t', 'INT')]}, {'syms': [('t', 'ID')]}, {'syms': [('t', 'LB'), ('r', 'List'), ('t', 'RB')]}])]

    def sentence(depth=2):
        def lst(d):
            s = []
            for _ in range(rng.randint(0, 3)):
                s += [rng.choice(["a", "bc", "k"]), "="] + val(d) + [";"]
            return s

        def val(d):
            r = rng.random()
            if d > 0 and r < 0.3:
                return ["["] + lst(d - 1) + ["]"]
            return [str(rng.randint(0, 99))] if r < 0.7 else [rng.choice(["v", "w"])]
        return lst(depth)
    return dict(family="list", tokens=tokens, skip=["[ \\t\\n]+"], rules=rules, start="List", avoid_insert=[],
                sentence=sentence, alphabet=["a", "=", "7", ";", "[", "]", "#"], explicit_empty=rng.random() < 0.5)


def fam_long(rng):
    """one production with 13 symbols: $10..$13 next to $1"""
    letters = "abcdefghijkl"
    tokens = [(c.upper(), c, None) for c in letters] + [("INT", "[0-9]+", None)]
    rules = [("S", [{'syms': [('t', c.upper()) for c in letters] + [('r', 'R')]}, {'syms': [('r', 'R')]}]),
             ("R", [{'syms': [('t', 'INT')]}])]

    def sentence(depth=0):
        if rng.random() < 0.8:
            return list(letters) + [str(rng.randint(0, 9999))]
        return [str(rng.randint(0, 9999))]
    return dict(family="long", tokens=tokens, skip=["[ \\t\\n]+"], rules=rules, start="S", avoid_insert=[],
                sentence=sentence, alphabet=list(letters) + ["5"])


FLAG_VARIANTS = ["ci", "dot", "ml", "greed", "iw", "posix", "uni", "nums", "cmt"]
# the value of the variant's flag that differs from the default
NON_DEFAULT = {"ci": True, "dot": False, "ml": False, "greed": True, "iw": True, "posix": True, "uni": False, "cmt": True}


def fam_flags(rng, variant=None, value=None, via=None):
    """a lexer whose behaviour depends on ONE flag (rules + inputs sensitive to it); `value` defaults
    to the non-default value of the flag most of the time, `via` is 'section' or 'api'"""
    variant = variant or rng.choice(FLAG_VARIANTS)
    sec, api = {}, {}
    via = via or ("section" if rng.random() < 0.6 else "api")
    where = sec if via == "section" else api
    if value is None and variant in NON_DEFAULT:
        value = NON_DEFAULT[variant] if rng.random() < 0.75 else (not NON_DEFAULT[variant])
    tokens = [("KW", "select", None), ("ID", "[a-z]+", None), ("INT", "[0-9]+", None)]
    skip = ["[ \\t]+"]
    extra_inputs = []
    if variant == "ci":
        where["case_insensitive"] = value
        extra_inputs = ["SeLeCt Foo 12", "SELECT x", "select ABC"]
    elif variant == "dot":
        where["dot_matches_new_line"] = value
        tokens = [("ANG", "~.*~", None), ("AEOL", "a$", None), ("A", "a", None), ("KW", "select", None),
                  ("ID", "[b-z]+", None), ("INT", "[0-9]+", None)]
        skip = ["[ \\t\\n]+"]
        extra_inputs = ["~a\nb~ x", "~ab~ select 1", "x ~q\n\n~ 2", "a\n", "a\nb a"]
    elif variant == "ml":
        where["multi_line"] = value
        tokens = [("AEOL", "a$", None), ("A", "a", None), ("ANG", "~.*~", None), ("KW", "select", None),
                  ("ID", "[b-z]+", None), ("INT", "[0-9]+", None)]
        skip = ["[ \\t\\n]+"]
        extra_inputs = ["a\nb", "a a\nselect a", "a", "a\n", "~x\ny~ a\nb"]
    elif variant == "greed":
        where["swap_greed"] = value
        tokens = [("AS", "a+", None), ("KW", "select", None), ("ID", "[b-z]+", None), ("INT", "[0-9]+", None)]
        extra_inputs = ["aaa b", "a select aa 1"]
    elif variant == "iw":
        where["ignore_whitespace"] = value
        tokens = [("AB", "a b", None), ("KW", "select", None), ("ID", "[c-z]+", None), ("INT", "[0-9]+", None)]
        extra_inputs = ["ab ab", "ab select 3", "a b"]
    elif variant == "uni":
        where["unicode"] = value
        tokens = [("W", "\\w+", None), ("E", "\u00e9+", None)]
        extra_inputs = ["a\u00e9 b", "\u00e9\u00e9 select", "x1 \u00e9y"]
    elif variant == "nums":
        where["size_limit"] = rng.choice([1048576, 2097152])
        (sec if rng.random() < 0.5 else api)["dfa_size_limit"] = rng.choice([3145728, 4194304])
        (sec if rng.random() < 0.5 else api)["nest_limit"] = rng.choice([50, 100])
        if rng.random() < 0.5:
            sec["octal"] = True
            tokens = [("OA", r"\141", None), ("KW", "select", None), ("ID", "[b-z]+", None), ("INT", "[0-9]+", None)]
        extra_inputs = ["a select 1", "select x 2"]
    elif variant == "posix":
        where["posix_escapes"] = value
        tokens = [("WB", r"x\b", None), ("KW", "select", None), ("ID", "[a-z]+", None), ("INT", "[0-9]+", None)]
        extra_inputs = ["x select", "x\x08 y", "xy x 1"]
    elif variant == "cmt":
        where["allow_wholeline_comments"] = True
        extra_inputs = ["select a 1"]
    names = [t[0] for t in tokens]
    rules = [("S", [{'syms': []}, {'syms': [('r', 'S'), ('r', 'W')]}]),
             ("W", [{'syms': [('t', n)]} for n in names])]

    def sentence(depth=0):
        return [rng.choice(["select", "abc", "zz", "42", "a", "x"]) for _ in range(rng.randint(0, 5))]
    return dict(family="flags:" + variant, tokens=tokens, skip=skip, rules=rules, start="S", avoid_insert=[],
                sentence=sentence, alphabet=["select", "q", "7", "%"], lex_section=sec, lex_api=api,
                extra_inputs=extra_inputs)


def static_flag_specs():
    """header settings for the static check of the generated lexerdef(): for EVERY flag a header in
    which only that flag is set (booleans: to each value, hence to its non-default value; numbers: to a
    value no other flag has), through the %grmtools section and through the builder API; and every pair
    of boolean flags with differing values.  (flags dict, via)"""
    specs = []
    for via in ("section", "api"):
        for k in BOOL_FLAGS:
            for v in (True, False):
                specs.append(({k: v}, via))
        for i, k in enumerate(NUM_FLAGS):
            specs.append(({k: [1048576, 3145728, 77][i]}, via))
        specs.append((dict(zip(NUM_FLAGS, [2097152, 4194304, 60])), via))
    for i, a in enumerate(BOOL_FLAGS):
        for b in BOOL_FLAGS[i + 1:]:
            specs.append(({a: True, b: False}, "section"))
            specs.append(({a: False, b: True}, "api"))
    # the same flag given in BOTH places with different values: the builder's setting is the one in force
    # ("Setting this flag will override the same flag within a %grmtools section"); `flags` is what the builder is given
    for k in BOOL_FLAGS:
        for v in (True, False):
            specs.append(({k: v}, "both"))
    for i, k in enumerate(NUM_FLAGS):
        specs.append(({k: [1048576, 3145728, 77][i]}, "both"))
    return specs


def static_lexer(flags, via):
    """(lexer text, api flags): rules valid under every flag setting"""
    sec = flags if via == "section" else {}
    if via == "both":
        # the section says the opposite (booleans) / another number; the builder's value must win
        sec = {k: ((not v) if isinstance(v, bool) else v + 4096) for k, v in flags.items()}
    txt = flag_section(sec) + "%%\n" + ("// comment\n" if sec.get('allow_wholeline_comments') else "") + 'a "A"\n[0-9]+ "INT"\n_+ ;\n'
    return txt, ({} if via == "section" else dict(flags))


def fam_insert(rng, avoid=None):
    """fixed-shape statements: a missing token has a unique cheapest repair (an insertion), so the
    action sees Err for it.  `avoid`: tokens declared %avoid_insert — that only ranks repairs inserting
    them last; when the only cheapest repair needs the token it IS inserted and `$k` must be Err."""
    if avoid is None:
        avoid = [t for t in ["ID", "EQ", "INT", "SEMI"] if rng.random() < 0.3]
    tokens = [("LET", "let", None), ("ID", "[a-z]+", None), ("EQ", "=", "'='"), ("INT", "[0-9]+", None), ("SEMI", ";", None)]
    # keyword before identifier rule: 'let' is matched by both, the earlier rule wins on equal length
    rules = [("Prog", [{'syms': [('r', 'Stmt')]}, {'syms': [('r', 'Prog'), ('r', 'Stmt')]}]),
             ("Stmt", [{'syms': [('t', 'LET'), ('t', 'ID'), ('t', 'EQ'), ('t', 'INT'), ('t', 'SEMI')]}])]

    def sentence(depth=0):
        s = []
        for _ in range(rng.randint(1, 3)):
            s += ["let", rng.choice(["a", "bb", "c"]), "=", str(rng.randint(0, 99)), ";"]
        return s
    return dict(family="insert", tokens=tokens, skip=["[ \\t\\n]+"], rules=rules, start="Prog", avoid_insert=list(avoid),
                sentence=sentence, alphabet=["let", "a", "=", "1", ";"], full_items=bool(avoid),
                extra_inputs=["let a 1 ;", "let a = 1", "let = 1 ;", "let a = 1 ; let b = ;", "a = 1 ;", "let a = = 1 ;",
                              "let a = ;", "let a = 1 ; let = 2 ;", "let a 1 ; let b = 2"])


def fam_avoid(rng):
    """expressions over INT only with %avoid_insert INT: on `()` or `7+()` the ONLY cheapest repair is
    `Insert INT`, so the action of Factor: 'INT' must see Err although INT is an %avoid_insert token"""
    tokens = [("INT", "[0-9]+", "integer" if rng.random() < 0.5 else None), ("PLUS", r"\+", None),
              ("LP", r"\(", None), ("RP", r"\)", None)]
    rng.shuffle(tokens)
    rules = [("Expr", [{'syms': [('r', 'Expr'), ('t', 'PLUS'), ('r', 'Factor')]}, {'syms': [('r', 'Factor')]}]),
             ("Factor", [{'syms': [('t', 'LP'), ('r', 'Expr'), ('t', 'RP')]}, {'syms': [('t', 'INT')]}])]

    def sentence(depth=2):
        def expr(d):
            s = factor(d)
            while rng.random() < 0.4:
                s = s + ["+"] + factor(d)
            return s

        def factor(d):
            if d > 0 and rng.random() < 0.3:
                return ["("] + expr(d - 1) + [")"]
            return [str(rng.randint(0, 99))]
        return expr(depth)
    return dict(family="avoid", tokens=tokens, skip=["[ \\t\\n]+"], rules=rules, start="Expr", avoid_insert=["INT"],
                sentence=sentence, alphabet=["1", "(", ")", "+"], full_items=True,
                extra_inputs=["()", "7+()", "1 +", "( 2 + )", "(()) + 3", "+ 4"])


def fam_keywords(rng, variant=None):
    """the .l file NAMES tokens the grammar does not use (reserved words listed before the identifier rule, a
    FLOAT rule after the INT rule): at run time such a rule still competes in longest match / rule order and,
    when it wins, lexing stops with an error at that byte (its token id is None).  The generated lexerdef() has
    to keep these rules.  `kw_hit` inputs reach them."""
    variant = variant or rng.choice(["stmts", "stmts", "calls"])
    unused = [("IF", "if", None), ("WHILE", "while", None)]
    if rng.random() < 0.5:
        unused.append(("RETURN", "return", None))
    flt = ("FLOAT", "[0-9]+\\.[0-9]+", None)
    if variant == "stmts":
        used = [("ID", "[a-z]+", None), ("INT", "[0-9]+", "integer" if rng.random() < 0.5 else None), ("EQ", "=", None),
                ("SEMI", ";", None)]
        rules = [("Stmts", [{'syms': []}, {'syms': [('r', 'Stmts'), ('r', 'Stmt')]}]),
                 ("Stmt", [{'syms': [('t', 'ID'), ('t', 'EQ'), ('t', 'INT'), ('t', 'SEMI')]}])]
        start = "Stmts"

        def sentence(depth=0):
            s = []
            for _ in range(rng.randint(0, 3)):
                s += [rng.choice(["x", "iffy", "whiles", "returned", "i", "wh"]), "=", str(rng.randint(0, 99)), ";"]
            return s
        extra = ["x = 1;", "iffy = 2; whiles = 3;", "x = 1; if = 2;", "while = 1;", "x = if;", "x = 1.5;", "y = 2 ; z = 3.25 ;",
                 "if", "x = 1; return", "return = 3 ;", "x = 1 while", "ifwhile = 7;", "x = 10.;", "x = ; if"]
        alphabet = ["x", "=", "1", ";", "if", "while", "2.5", "return"]
    else:
        used = [("ID", "[a-z_]+", None), ("INT", "[0-9]+", None), ("LP", "\\(", None), ("RP", "\\)", None), ("COMMA", ",", None)]
        rules = [("Call", [{'syms': [('t', 'ID'), ('t', 'LP'), ('r', 'Args'), ('t', 'RP')]}]),
                 ("Args", [{'syms': []}, {'syms': [('r', 'Arg')]}, {'syms': [('r', 'Args'), ('t', 'COMMA'), ('r', 'Arg')]}]),
                 ("Arg", [{'syms': [('t', 'INT')]}, {'syms': [('t', 'ID')]}, {'syms': [('r', 'Call')]}])]
        start = "Call"

        def sentence(depth=2):
            def call(d):
                s = [rng.choice(["f", "g_h", "iff", "whil"]), "("]
                for i in range(rng.randint(0, 3)):
                    if i:
                        s.append(",")
                    r = rng.random()
                    s += call(d - 1) if (d > 0 and r < 0.3) else [str(rng.randint(0, 99))] if r < 0.7 else [rng.choice(["a", "ifs"])]
                return s + [")"]
            return call(depth)
        extra = ["f(1, 2)", "if(1)", "f(while)", "f(1, if, 2)", "f(1.5)", "g(iff, 2.0)", "f(1,", "while", "f(x) if", "f(return)",
                 "returns(1)", "f(1 2)"]
        alphabet = ["f", "(", ")", ",", "1", "if", "while", "3.5"]
    # order of the rules in the .l file: reserved words first (they win over ID on equal length), FLOAT somewhere
    # after INT or before it (it wins by length either way)
    tokens = list(unused) + list(used)
    ii = [i for i, t in enumerate(tokens) if t[0] == "INT"][0]
    tokens.insert(rng.choice([ii, ii + 1, len(tokens)]), flt)
    return dict(family="keywords:" + variant, tokens=tokens, skip=["[ \\t\\n]+"], rules=rules, start=start, avoid_insert=[],
                sentence=sentence, alphabet=alphabet, extra_inputs=extra, unused_tokens=[t[0] for t in unused] + ["FLOAT"])


def fam_states(rng):
    """lexer with start states (exclusive or inclusive, push/pop/replace): the generated lexerdef()
    re-creates the start states, the rules' start-state lists and target states"""
    excl = rng.random() < 0.6
    tokens = [("ID", "[a-z]+", None), ("INT", "[0-9]+", "number" if rng.random() < 0.5 else None), ("CW", "[a-z]+", None)]
    if rng.random() < 0.5:
        tokens.append(("OPEN", "\\[", None))
        open_line = '<CMT,INITIAL>\\[ <+CMT>"OPEN"'
    else:
        open_line = '<CMT,INITIAL>\\[ <+CMT>;'
    lines = ['<INITIAL>[a-z]+ "ID"', '[0-9]+ "INT"', open_line, '<CMT>\\] <-CMT>;', '<CMT>[a-z]+ "CW"',
             '<CMT>[ \\t\\n]+ ;', '<INITIAL>[ \\t\\n]+ ;']
    if rng.random() < 0.4:
        lines.append('<CMT>! <INITIAL>;')                 # replace the whole stack
    rng.shuffle(lines)
    names = [t[0] for t in tokens]
    rules = [("S", [{'syms': []}, {'syms': [('r', 'S'), ('r', 'W')]}]),
             ("W", [{'syms': [('t', n)]} for n in names])]

    def sentence(depth=0):
        out = []
        for _ in range(rng.randint(0, 4)):
            r = rng.random()
            if r < 0.4:
                out.append(rng.choice(["ab", "z", "12", "7"]))
            else:
                out += ["["] + [rng.choice(["c", "dd", "[", "]", "e"]) for _ in range(rng.randint(0, 3))] + ["]"]
        return out
    return dict(family="states", tokens=tokens, skip=[], rules=rules, start="S", avoid_insert=[], sentence=sentence,
                alphabet=["a", "1", "[", "]", "!"], lex_decls=["%%%s CMT" % ("x" if excl else "s")], lex_lines=lines,
                extra_inputs=["a [ b [ c ] d ] 12", "a [ 1", "]", "[ x ! y", "[ [ ] ] ] a"])


def fam_tied(rng, variant=None):
    """inputs whose FIRST error has >= 2 equally ranked repair sequences (same %avoid_insert class, same length):
    the one recovery applies — repairs()[0] — decides the value and every later error (/repo ca69cd1 made it a
    function of the input).  Variants:
      audit    the auditor's grammar `S: 'a' | 'b'` (C13 audit/1): the empty input, Insert 'a' | Insert 'b';
      alt      statements `'k' V ';'` with V: 'a' | 'b' [| 'c']: every missing V is an error with 2-3 tied
               insertions, the value shows which one was applied (Err(tok@…) under the production's label);
      openers  lists with two openers `'[' Items ']' | '(' Items ')'`: items without an opener get Insert '[' |
               Insert '(' (tied), and the closer that is missing at the end is a LATER error whose only repair
               depends on the opener that was applied."""
    variant = variant or rng.choice(["alt", "openers", "alt", "openers", "audit"])
    if variant == "audit":
        tokens = [("a", "a", None), ("b", "b", None)]
        rules = [("S", [{'syms': [('t', 'a')]}, {'syms': [('t', 'b')]}])]

        def sentence(depth=0):
            return [rng.choice(["a", "b"])]
        return dict(family="tied:audit", tokens=tokens, skip=["[ \\t\\n]+"], rules=rules, start="S", avoid_insert=[],
                    sentence=sentence, alphabet=["a", "b"], full_items=True, extra_inputs=[" ", "\n", "a a", "b a"],
                    n_inputs=1)
    if variant == "alt":
        nalt = rng.randint(2, 3)
        alts = [("A", "a", None), ("B", "b", "'b'" if rng.random() < 0.5 else None), ("C", "c", None)][:nalt]
        tokens = [("K", "k", None), ("SEMI", ";", None)] + alts
        rng.shuffle(tokens)
        rules = [("Prog", [{'syms': [('r', 'Stmt')]}, {'syms': [('r', 'Prog'), ('r', 'Stmt')]}]),
                 ("Stmt", [{'syms': [('t', 'K'), ('r', 'V'), ('t', 'SEMI')]}]),
                 ("V", [{'syms': [('t', n)]} for n, _, _ in alts])]
        vals = [rx for _, rx, _ in alts]

        def sentence(depth=0):
            s = []
            for _ in range(rng.randint(1, 4)):
                s += ["k", rng.choice(vals), ";"]
            return s

        def holed():
            """a sentence in which at least one V is missing"""
            n = rng.randint(1, 4)
            miss = {rng.randrange(n)} | {j for j in range(n) if rng.random() < 0.3}
            s = []
            for j in range(n):
                s += ["k"] + ([] if j in miss else [rng.choice(vals)]) + [";"]
            return s
        extra = ["k ;", "k ; k ;", "k a ; k ;", "k ; k b ; k ;"] + [join_tokens(rng, holed()) for _ in range(14)]
        return dict(family="tied:alt", tokens=tokens, skip=["[ \\t\\n]+"], rules=rules, start="Prog", avoid_insert=[],
                    sentence=sentence, alphabet=["k", ";"] + vals, full_items=True, extra_inputs=extra, n_inputs=3)
    tokens = [("LB", "\\[", None), ("RB", "\\]", None), ("LP", "\\(", "'('" if rng.random() < 0.5 else None),
              ("RP", "\\)", None), ("X", "[a-z]+", None)]
    rng.shuffle(tokens)
    rules = [("L", [{'syms': [('t', 'LB'), ('r', 'Items'), ('t', 'RB')]}, {'syms': [('t', 'LP'), ('r', 'Items'), ('t', 'RP')]}]),
             ("Items", [{'syms': []}, {'syms': [('r', 'Items'), ('r', 'Val')]}]),
             ("Val", [{'syms': [('t', 'X')]}, {'syms': [('r', 'L')]}])]

    def items(d):
        s = []
        for _ in range(rng.randint(0, 4)):
            if d > 0 and rng.random() < 0.25:
                o = rng.random() < 0.5
                s += ["[" if o else "("] + items(d - 1) + ["]" if o else ")"]
            else:
                s.append(rng.choice(["x", "yy", "z"]))
        return s

    def sentence(depth=2):
        o = rng.random() < 0.5
        return ["[" if o else "("] + items(depth) + ["]" if o else ")"]

    def bare():
        """items without the outer brackets: the opener has to be inserted (either one)"""
        s = items(1)
        while len(s) < 1:
            s = items(1)
        return s
    extra = ["x", "x x", "x x x", "x [ y ] z", "x ( y ) ( ) z"] + [join_tokens(rng, bare()) for _ in range(14)]
    return dict(family="tied:openers", tokens=tokens, skip=["[ \\t\\n]+"], rules=rules, start="L", avoid_insert=[],
                sentence=sentence, alphabet=["x", "[", "]", "(", ")"], full_items=True, extra_inputs=extra, n_inputs=3,
                explicit_empty=rng.random() < 0.5)


# ---- SCOPE: specifications the builders accept whose generated module rustc rejects (premise "once compiled" not
# met: not findings).  checks/C13.py generates them, records the rustc failure as an observation and — should one
# compile after a change of the code generator — compares it with the run-time pipeline like any other program.

def fam_scope(rng, variant):
    if variant == "rule-case":
        # C13 audit/2: rule names differing only in case -> two `R_A` constants (E0428)
        tokens = [("X", "x", None), ("Y", "y", None)]
        rules = [("s", [{'syms': [('r', 'a'), ('r', 'A')]}]), ("a", [{'syms': [('t', 'X')]}]), ("A", [{'syms': [('t', 'Y')]}])]
        return dict(family="scope:rule-case", tokens=tokens, skip=["[ \\t\\n]+"], rules=rules, start="s", avoid_insert=[],
                    sentence=lambda depth=0: ["x", "y"], alphabet=["x", "y"], full_items=True, extra_inputs=["x y", "x", "y x"],
                    n_inputs=0, scope="rule names differing only in ASCII case (`a`, `A`): gen_rule_consts writes two `R_A` constants")
    if variant == "token-case":
        # C13 audit/3: token names differing only in case -> two `N_E` constants (E0428)
        tokens = [("e", "e", None), ("E", "E", None)]
        rules = [("s", [{'syms': [('t', 'e'), ('t', 'E')]}])]
        return dict(family="scope:token-case", tokens=tokens, skip=["[ \\t\\n]+"], rules=rules, start="s", avoid_insert=[],
                    sentence=lambda depth=0: ["e", "E"], alphabet=["e", "E"], full_items=True, extra_inputs=["e E", "e", "E e"],
                    n_inputs=0, scope="token names differing only in ASCII case (`e`, `E`): the lexer module gets two `N_E` constants")
    if variant == "param-grm":
        # C13 audit/4: `%parse-param grm: u64` is shadowed by the local `grm` of the generated parse() (E0308)
        tokens = [("X", "x", None)]
        rules = [("s", [{'syms': [('t', 'X')]}])]
        return dict(family="scope:param-grm", tokens=tokens, skip=["[ \\t\\n]+"], rules=rules, start="s", avoid_insert=[],
                    sentence=lambda depth=0: ["x"], alphabet=["x"], full_items=True, extra_inputs=["x", "x x"],
                    n_inputs=0, scope="`%parse-param grm: u64`: the parameter is shadowed by the local `grm` of the generated parse()")
    raise ValueError(variant)


SCOPE_VARIANTS = [("rule-case", "G"), ("token-case", "G"), ("param-grm", "G")]


def make_scope_program(rng, idx, variant, yk):
    fam = fam_scope(rng, variant)
    pr = make_program(rng, idx, family=lambda r: fam, yk=yk, forced={"rec": "C", "ser": "-", "ed": "2021", "vis": "priv", "mody": "-",
                                                                    "modl": "-", "entry": "build", "amp": "-"})
    pr['local_label'] = False
    pr['style'] = 0
    if variant == "param-grm":
        pr['param_name'] = "grm"
        pr['parse_param'] = 41
        for _, prods in pr['rules']:
            for p in prods:
                p['items'] = [('A', 1), ('P',)]
    else:
        pr['parse_param'] = None
        for _, prods in pr['rules']:
            for p in prods:
                p['items'] = [it for it in p['items'] if it[0] != 'P']
    pr['pinned_keys'] = {"rec", "ser", "ed", "vis", "entry", "amp"}
    return pr


def fam_random(rng):
    for _ in range(50):
        g = grammars.reduced_random_grammar(rng, nrules=rng.randint(1, 4), ntoks=rng.randint(1, 4))
        if g is None:
            continue
        tokens = [("TK" + t.upper() if rng.random() < 0.5 else t, t, None) for t in g.tokens]
        tn = {t: n for (n, _, _), t in zip(tokens, g.tokens)}
        rules = [(n, [{'syms': [(k, tn[x] if k == 't' else x) for k, x in syms]} for syms, _ in ps]) for n, ps in g.rules]

        def sentence(depth=0, g=g):
            s = g.sentence(rng, budget=rng.randint(1, 4))
            return s if s is not None else []
        return dict(family="random", tokens=tokens, skip=["[ \\t\\n]+"], rules=rules, start=g.start, avoid_insert=[],
                    sentence=sentence, alphabet=list(g.tokens) + ["z"])
    return fam_list(rng)


FAMILIES = [fam_expr, fam_list, fam_long, fam_flags, fam_insert, fam_avoid, fam_states, fam_random, fam_keywords, fam_tied]


def make_inputs(rng, fam, n):
    ins = [""]
    ins += fam.get('extra_inputs', [])
    for _ in range(n):
        s = fam['sentence']()
        ins.append(join_tokens(rng, s))
    for _ in range(max(2, n // 2)):
        s = grammars.mutate(rng, fam['sentence'](), fam['alphabet'], k=1)
        ins.append(join_tokens(rng, s))
    seen, out = set(), []
    for i in ins:
        if i not in seen:
            seen.add(i)
            out.append(i)
    return out


def settings(rng, idx):
    s = {}
    s['rec'] = rng.choice(["C", "C", "N", "-"])
    s['ser'] = rng.choice(["F", "V", "-"])
    s['ed'] = rng.choice(["2015", "2018", "2021"])
    s['vis'] = rng.choice(["priv", "pub", "super", "self", "crate", "in"])
    s['mody'] = rng.choice(["-", "-", "gy%d" % idx])
    s['modl'] = rng.choice(["-", "-", "gl%d" % idx])
    # ENTRY POINT of the generation step: CTLexerBuilder::lrpar_config(..).build(), or the deprecated
    # CTParserBuilder::process_file + CTLexerBuilder::rule_ids_map(..).process_file
    s['entry'] = rng.choice(["build", "build", "pf"])
    s['amp'] = rng.choice(["-", "-", "1", "0"])           # allow_missing_tokens_in_parser
    return s


def make_program(rng, idx, family=None, yk=None, forced=None):
    fam = (family or rng.choice(FAMILIES))(rng)
    prog = dict(fam)
    prog['name'] = "p%d" % idx
    prog['yk'] = yk or rng.choice(["G", "G", "U", "O"])
    prog['parse_param'] = rng.randint(1, 10 ** 6) if (prog['yk'] in 'GU' and rng.random() < 0.4) else None
    prog['style'] = rng.randint(0, 2)
    prog['local_label'] = rng.random() < 0.4
    prog.setdefault('lex_section', {})
    prog.setdefault('lex_api', {})
    prog['settings'] = settings(rng, idx)
    if forced:
        prog['settings'].update(forced)
    fill_items(rng, prog)
    prog['inputs'] = make_inputs(rng, fam, fam.get('n_inputs', 5))
    for k in ('sentence', 'alphabet', 'n_inputs'):
        prog.pop(k, None)
    return prog


# ---------------------------------------------------------------- scanner texts

NUMERIC_NONASCII = ["\u00b2", "\u0663", "\u2167", "\u00bd", "\uff11"]       # ² ٣ Ⅷ ½ １
OTHER_NONASCII = ["\u00e9", "\u2660", "\U0001F600"]
PIECES = ["$$", "$lexer", "$span", "$1", "$2", "$10", "$0", "$99", "$", "$l", "$s", "$lexe", "$spa", "$spans",
          "$lexers", "$ ", "$x", "$$$", "$$1", "$1$", "$lexer$span", "$span$lexer", "$-1", "$+", "$_", "$L", "$S"]
CHARS = list("abls xe1290_.,()&;:+-") + NUMERIC_NONASCII + OTHER_NONASCII


def scanner_texts(rng, n):
    """action texts (a Rust string literal each, so that the generated body can be read back
    verbatim): corpus, all short combinations, random mixtures"""
    corpus = ['"a$$b$1c$lexer$span"', '"x$"', '"$0 $99 $12a"', '"$lexerfoo $spans $\u00b2"', '"ab$ c"', '"\u00e9$\u00e9"',
              '"$$$1"', '"$$lexer"', '"$\u0663"', '""', '"$"', '"$$"', '"$1"', '"$span"', '"$lexer"', '"$spa"', '"$lexe"',
              '"$$$"', '"$$$$"', '"$1$2$3"', '"\U0001F600$\U0001F600"', '"\u2660$1\u2660$"', '"$\u00bd"', '"$\uff11"']
    out = list(corpus)
    for a in PIECES:
        out.append('"%s"' % a)
        for b in PIECES[:14]:
            out.append('"%s%s"' % (a, b))
            out.append('"%s %s"' % (a, b))
    while len(out) < n:
        k = rng.randint(1, 8)
        s = "".join(rng.choice(PIECES) if rng.random() < 0.5 else rng.choice(CHARS) for _ in range(k))
        out.append('"%s"' % s)
    seen, res = set(), []
    for t in out:
        if t not in seen:
            seen.add(t)
            res.append(t)
    return res[:max(n, len(corpus))]


def numeric_extra(text):
    """the non-ASCII characters of the text that char::is_numeric accepts (Unicode general
    categories Nd, Nl, No)"""
    return sorted({ord(c) for c in text if ord(c) > 127 and unicodedata.category(c) in ("Nd", "Nl", "No")})
