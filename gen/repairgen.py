"""Generators for the error-recovery checks (C05, C07): grammars x erroneous
inputs x token-cost functions x %avoid_insert sets.  Token names never contain
';' or '=' (the case-line separators) or whitespace."""
from gen import grammars as G
from gen.grammars import Gram

t = lambda x: ('t', x)
r = lambda x: ('r', x)


def javaish():
    toks = ["id", "num", "eq", "semi", "if", "else", "while", "return", "(", ")", "{", "}", "+", "*", ","]
    rules = [
        ("Prog", [[r("Stmts")]]),
        ("Stmts", [[], [r("Stmts"), r("Stmt")]]),
        ("Stmt", [[t("id"), t("eq"), r("Expr"), t("semi")],
                  [t("if"), t("("), r("Expr"), t(")"), r("Block")],
                  [t("if"), t("("), r("Expr"), t(")"), r("Block"), t("else"), r("Block")],
                  [t("while"), t("("), r("Expr"), t(")"), r("Block")],
                  [t("return"), r("Expr"), t("semi")],
                  [r("Block")]]),
        ("Block", [[t("{"), r("Stmts"), t("}")]]),
        ("Expr", [[r("Expr"), t("+"), r("Term")], [r("Term")]]),
        ("Term", [[r("Term"), t("*"), r("Atom")], [r("Atom")]]),
        ("Atom", [[t("id")], [t("num")], [t("("), r("Expr"), t(")")], [t("id"), t("("), r("Args"), t(")")]]),
        ("Args", [[], [r("ArgList")]]),
        ("ArgList", [[r("Expr")], [r("ArgList"), t(","), r("Expr")]]),
    ]
    return Gram(toks, rules)


def calc_variant(rng):
    """layered expression grammar: random number of levels/operators, optional
    parentheses, calls, unary prefix, statement list on top"""
    ops = ["+", "-", "*", "/", "<", "^"]
    rng.shuffle(ops)
    nlev = rng.randint(1, 3)
    levels = []
    pool = list(ops)
    for _ in range(nlev):
        k = rng.randint(1, 2)
        levels.append(pool[:k])
        pool = pool[k:]
    toks = [o for l in levels for o in l] + ["n"]
    rules = []
    names = ["L%d" % i for i in range(nlev)] + ["P"]
    for i, l in enumerate(levels):
        alts = []
        for o in l:
            if rng.random() < 0.8:
                alts.append([r(names[i]), t(o), r(names[i + 1])])     # left recursive
            else:
                alts.append([r(names[i + 1]), t(o), r(names[i])])     # right recursive
        alts.append([r(names[i + 1])])
        rules.append((names[i], alts))
    palts = [[t("n")]]
    if rng.random() < 0.8:
        toks += ["(", ")"]
        palts.append([t("("), r(names[0]), t(")")])
    if rng.random() < 0.4:
        toks += ["f", "[", "]", ","]
        palts.append([t("f"), t("["), r("AL"), t("]")])
        rules.append(("AL", [[], [r(names[0])], [r("AL"), t(","), r(names[0])]] if rng.random() < 0.5 else
                      [[r(names[0])], [r("AL"), t(","), r(names[0])]]))
    if rng.random() < 0.3:
        toks += ["!"]
        palts.append([t("!"), r("P")])
    rules.append(("P", palts))
    start = names[0]
    if rng.random() < 0.4:
        toks += ["sep"]
        rules.insert(0, ("Top", [[r(names[0])], [r("Top"), t("sep"), r(names[0])]]))
        start = "Top"
    # order the rules so that the start rule is first
    rules.sort(key=lambda x: 0 if x[0] == start else 1)
    return Gram(toks, rules, start=start)


def families(rng):
    cc = G.classic_corpus()
    return [
        ("calc", 4, lambda: cc[0]),
        ("corchuelo", 3, lambda: cc[1]),
        ("javaish", 3, javaish),
        ("c06gram", 1, lambda: cc[4]),
        ("emptyprods", 1, lambda: cc[5]),
        ("pager", 1, lambda: cc[2]),
        ("dangling", 1, lambda: cc[3]),
        ("calcvar", 6, lambda: calc_variant(rng)),
        ("nullable", 4, lambda: G.nullable_heavy(rng)),
        ("reduced", 5, lambda: G.reduced_random_grammar(rng)),
        ("random", 1, lambda: G.random_grammar(rng)),
        ("exprprec", 2, lambda: G.expr_grammar(rng)),
        ("notlalr", 1, lambda: G.not_lalr_template(rng)),
    ]


def with_avoid(rng, g):
    """copy of g with a random %avoid_insert set (possibly empty)"""
    toks = g.used_tokens() or g.tokens
    c = rng.random()
    if c < 0.5:
        av = []
    elif c < 0.9:
        av = [x for x in toks if rng.random() < 0.3]
    else:
        av = list(toks)
    g2 = Gram(g.tokens, [(n, [(list(s), p) for s, p in ps]) for n, ps in g.rules], precs=g.precs, start=g.start,
              avoid_insert=av)
    return g2


def cost_function(rng, g):
    toks = g.used_tokens() or g.tokens
    c = rng.random()
    if c < 0.4:
        return "unit", {}
    if c < 0.75:
        return "rand1-5", {x: rng.randint(1, 5) for x in toks}
    if c < 0.95:
        return "extreme", {x: rng.choice([1, 255]) for x in toks}
    return "all255", {x: 255 for x in toks}


def erroneous_inputs(rng, g, n, maxlen=22):
    """sentences with 1-4 edits, many independent errors, errors at end of input,
    the empty input, random strings; a few unchanged sentences"""
    alphabet = g.used_tokens() or g.tokens
    res = [[]]

    def sent(budget):
        s = g.sentence(rng, budget=budget)
        return s[:maxlen] if s is not None else None
    while len(res) < n:
        c = rng.random()
        s = sent(rng.randint(1, 7))
        if s is None:
            res.append([rng.choice(alphabet) for _ in range(rng.randint(0, 8))])
        elif c < 0.08:
            res.append(s)
        elif c < 0.55:
            res.append(G.mutate(rng, s, alphabet, rng.randint(1, 4))[:maxlen + 4])
        elif c < 0.75:
            # many independent errors: a long sentence, one edit every few lexemes
            big = []
            for _ in range(rng.randint(2, 4)):
                x = sent(rng.randint(3, 8))
                big += x or []
            big = big[:maxlen]
            out = []
            gap = rng.randint(3, 6)
            for i, x in enumerate(big):
                if i % gap == gap - 1:
                    k = rng.random()
                    if k < 0.4:
                        continue                         # delete
                    elif k < 0.7:
                        out.append(rng.choice(alphabet))  # replace
                        continue
                    else:
                        out.append(rng.choice(alphabet))  # insert
                out.append(x)
            res.append(out)
        elif c < 0.88:
            # error at end of input: truncate / append junk
            if rng.random() < 0.6 and len(s) > 0:
                res.append(s[:rng.randint(0, len(s) - 1)])
            else:
                res.append(s + [rng.choice(alphabet) for _ in range(rng.randint(1, 3))])
        else:
            res.append([rng.choice(alphabet) for _ in range(rng.randint(1, 10))])
    return res


def gen_cases(ctx, n_cases, n_inputs):
    """-> list of (family, Gram, costname, costs dict, inputs)"""
    rng = ctx.rng
    fams = families(rng)
    out = []
    guard = 0
    while len(out) < n_cases and guard < 50 * n_cases:
        guard += 1
        name, _, f = rng.choices(fams, [w for _, w, _ in fams])[0]
        g = f()
        if g is None:
            continue
        if g.derives_cycle():
            # outside C07's domain (and any Yacc-style parser may loop)
            ctx.count("skipped_cyclic")
            continue
        g = with_avoid(rng, g)
        cname, costs = cost_function(rng, g)
        out.append((name, g, cname, costs, erroneous_inputs(rng, g, n_inputs)))
    return out
