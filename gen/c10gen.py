"""Yacc sources for C10a (AST -> indexed grammar): `cases(rng, n)` = a fixed corpus, then n
random renderings of abstract grammars (gen.grammars) for a random YaccKind with random
declarations, token spellings and layout.  Every case is (kind, source, tags); kind in O N U G E
(Original GenericParseTree/NoAction/UserAction, Grmtools, Eco).

What the renderer relies on (cfgrammar/src/lib/yacc/parser.rs):
  * a bare name in a production is a token only if it was declared by %token before, else a rule;
    bare names obey [a-zA-Z_][a-zA-Z_0-9]* (so a rule with a dot in its name cannot be referenced)
  * after a declaration keyword only spaces/tabs; the lists of %left/%right/%nonassoc/%avoid_insert/
    %implicit_tokens end at the first newline; %actiontype/%parse-param/%parse-generics run to end of line
  * block comments here contain no '/' (newline-then-'/' closes a comment: separate known parser defect)
  * an action is followed by `|` or `;`, %prec comes before the action
"""
import re
from gen import grammars as G

KINDS = "ONUGE"
IDENT = re.compile(r"[a-zA-Z_][a-zA-Z_0-9]*\Z")

CALC_G = """%start Expr
%avoid_insert "INT"
%%
Expr -> Result<u64, ()>:
      Expr '+' Term { Ok($1? + $3?) }
    | Term { $1 }
    ;

Term -> Result<u64, ()>:
      Term '*' Factor { Ok($1? * $3?) }
    | Factor { $1 }
    ;

Factor -> Result<u64, ()>:
      '(' Expr ')' { $2 }
    | 'INT'
      {
          let v = $1.map_err(|_| ())?;
          parse_int($lexer.span_str(v.span()))
      }
    ;
%%
// Any functions here are in scope for all the grammar actions above.

fn parse_int(s: &str) -> Result<u64, ()> {
    match s.parse::<u64>() { Ok(val) => Ok(val), Err(_) => { eprintln!("{} cannot be represented as a u64", s); Err(()) } }
}
"""

CALC_PREC = """%start Expr
%token INT
%left '+' '-'
%left '*' "/"
%right NEG
%nonassoc '<'
%epp INT "an integer"
%expect 0
%expect-rr 0
%%
Expr: Expr '+' Expr | Expr '-' Expr | Expr '*' Expr | Expr "/" Expr | Expr '<' Expr
    | '-' Expr %prec NEG { neg } | '(' Expr ')' | INT ;
"""

# (kind, source) — valid unless noted
CORPUS = [
    ("N", "%start S\n%token a\n%left '+'\n%epp a \"AA\"\n%avoid_insert a\n%expect 1\n%%\nS: S '+' a { act } | a %prec '+' | ;\n"),
    ("E", "%implicit_tokens ws nl\n%%\nS: 'a' T | ;\nT: 'b';\n"),
    ("G", "%start S\n%%\nS -> u32: 'a' T { 1 } | { 0 };\nT -> (): 'b' {};\n"),
    ("G", CALC_G), ("O", CALC_PREC), ("N", CALC_PREC), ("U", CALC_PREC), ("E", CALC_PREC),
    ("G", "%grmtools{yacckind: Grmtools}\n" + CALC_G),
    ("O", "%grmtools {yacckind: Original(YaccOriginalActionKind::NoAction)}\n%%\nA: 'a';"),
    # same rule defined twice: productions of A are not contiguous
    ("G", "%%\nA -> T: 'a'; B -> U: A; A -> T: 'b';"),
    ("G", "%start B\n%%\nA -> T: 'a' | ; B -> U: A { x }; A -> Other<T>: 'b' A | %empty { y } ;\n"),
    ("O", "%%\nA: 'a'; B: A; A: 'b'; B: ;"),
    # start rule is not the first rule; unreferenced rules; rule that is only the start
    ("O", "%start C\n%%\nA: 'a' B; B: | 'b'; C: A 'c'; Unused: C; .dot.ted: 'x';"),
    ("E", "%start .S\n%%\n.S: A; A: 'a' ; A.1: ;"),
    # %token name used bare and quoted; %token 'q' then bare q; rule and quoted token of the same name
    ("N", "%token a 'b' \"c\"\n%%\nS: a 'a' \"a\" b c x 'x' ; x: 'S' S | ;"),
    ("O", "%token PLUS MINUS\n%token\tUNUSED\n%left PLUS MINUS\n%%\nE: E PLUS E | E 'MINUS' E | 'n';"),
    # tokens that occur only in %prec / %left / %avoid_insert / %token; %epp of each kind of token
    ("O", "%left 'only_left'\n%right 'p'\n%avoid_insert 'only_avoid' \"x\"\n%token only_token\n%epp only_avoid 'A'\n"
          "%epp only_token \"T\"\n%epp p \"it\\'s \\\"p\\\"\"\n%%\nS: 'x' %prec 'p' | S 'x' %prec \"p\" { a } | %prec p ;"),
    ("O", "%epp 'only_epp' \"x\"\n%%\nS: 'a';"),                 # invalid: UnknownEPP
    ("O", "%left 'l'\n%epp 'l' \"x\"\n%%\nS: 'a';"),             # invalid: token only in %left is no token
    # every declaration
    ("U", "%actiontype Result<Vec<u8>, ()>\n%start S\n%token T1 T2\n%nonassoc T1\n%right T2 'r'\n%epp T1 \"t one\"\n"
          "%avoid_insert T2\n%avoid_insert 'r'\n%expect 3\n%expect-rr 2\n%parse-param p: &'a mut Vec<u64>\n"
          "%parse-generics 'a, T: Clone\n%expect-unused U 'unused_tok' S\n%token unused_tok\n%%\n"
          "S: T1 S T2 { $$ = { 1 }; } | 'r' %prec T1 | %empty ;\nU: ;\n%%\nfn helper() {}\n"),
    ("G", "%parse-param  x : ::std::rc::Rc<u8>\n%parse-generics T\n%expect-unused  A\n%%\nS -> std::vec::Vec<u64>: ;"
          " A -> Result<Vec<u8>, ()> : S 'a' ;\n%%"),
    ("E", "%implicit_tokens ws 'nl' \"c m\"\n%token ws\n%epp nl \"newline\"\n%epp 'c m' 'comment'\n%avoid_insert ws\n%left 'a' ws\n"
          "%%\nS: 'a' T ws | ws ; T: 'b' 'nl' { t } | ;\n"),
    ("E", "%implicit_tokens x\n%implicit_tokens y z\n%start T\n%%\nS: 'a'; T: S S;"),
    ("E", "%%\nS: 'a' S | ;"),
    # layout: comments, CRLF, tabs, multi-byte text, actions with nested braces / leading spaces
    ("O", "// lead\r\n/* block\r\n   more */\r\n%start\tS // c\r\n%token e_ok /* no */ B\r\n%left\t'→'\t\"é\"/* x */'ü' // t\r\n%%\r\n"
          "S /* a */ : /* b */ '→' S // c\r\n\t| \"é\" %prec\r\n 'ü' {  é→ {nested {x}} ü  } /* d */ | B {}\r\n\t;\r\n%%\r\n"),
    ("G", "%%\nS->(u8,\n  u8):'a'{\n\t$1 }|'é'S{→}|{ }|%empty{x};"),
    ("N", "%%\nS:'a''b'\"c\"S|%empty;"),
    ("O", "%token '{' \"}\" '|' ';' ':' '%%' '//' \"'\" '\"'\n%%\nS: '{' S \"}\" | '|' ';' ':' | '%%' '//' \"'\" '\"' ;"),
    ("N", "%%\nS: 'a' { aé};"),        # action span (brace+1, +len(trimmed)) ends inside the é
    # invalid sources
    ("O", ""), ("G", "%%\n"), ("O", "%start X\n%%\nS: 'a';"), ("O", "%%\nS: T;"), ("O", "%%\nS: 'a' %prec 'a';"),
    ("G", "%actiontype u8\n%%\nS -> u8: ;"), ("O", "%implicit_tokens a\n%%\nS: ;"), ("O", "%%\nS: 'a' { x ;"),
    ("O", "%start S\n%start S\n%%\nS: ;"), ("O", "%left 'a'\n%right 'a'\n%%\nS: 'a';"),
    ("O", "%expect-unused Nope\n%%\nS: ;"), ("N", "%%\nS: 'a' %empty;"), ("O", "%%\nS: a.b; a.b: ;"),
]

TOKPOOL = ["INT", "id", "PLUS", "t_1", "x9", "_", "If", "+", "-", "*", "==", "->", "(", ")", "{", "}", "|", ";", ":", "::",
           "%", "%%", "//", "/*", "*/", "é", "→", "λx", "日本", "a b", "'", '"', "\\", ",", "%prec", "%empty", "<=>", "E", "S"]
RULEPOOL = ["expr", "stmt", "Term", "list_1", "_r", "Rule9", "opt_x", "Prog", "body", "e2"]
GTYPES = ["u32", "()", "Result<Vec<u8>, ()>", "std::vec::Vec<u64>", "Option<&'input str>", "Résultat<T>", "(u8,\n   u8)", "::a::B"]
ATYPES = ["u64", "Result<(), Box<dyn Error>>", "Vec<é>", "()  ", "std::rc::Rc<T> // why"]
ACTIONS = ["", " ", "act", " $1 ", "Ok($1? + $3?)", " { nested } ", "if x { y } else { z }", "é→ü", "  é",
           "\n      let v = $1;\n      v\n  ", "\t$2", " // c\n 1 ", "a | b ; c", "\"str\" 'c'", " /* k */ 0", "→ ", " aé", "\n  x→y "]
EPPS = ["AA", "a \"quoted\" one", "it's", "é→", "", " ", "%", "x", "'\"'"]
LINEC = ["", " note", " the */ end", " /* not open", " %% ", " é→ '", "/ x: y; {", "// more"]
BLOCKC = ["", " c ", " é→ ", "*", "**", " a * b ", " %% 'q ", " x: y; { | ", " TODO "]
PARAMS = [("p", "u64"), ("state", "&'a mut Vec<u8>"), ("x", "::std::rc::Rc<T>"), ("é", "(u8, &str)  ")]
BAD = ["bad_start", "unknown_rule", "prec_noprec", "epp_unknown", "dup_start", "unknown_decl", "wrong_kind_decl",
       "open_action", "no_rules", "sym_then_empty"]


def sniff(kind, src):
    t = {"corpus", "kind_" + kind}
    for sub, tag in (("%prec", "prec_override"), ("{", "action"), ("%actiontype", "actiontype"), ("%epp", "epp"),
                     ("%avoid_insert", "avoid_insert"), ("%expect", "expect"), ("%implicit_tokens", "implicit"),
                     ("//", "comments"), ("/*", "comments"), ("%token", "token_decl"), ("%start", "start_decl"),
                     ("%left", "prec_decl"), ("%right", "prec_decl"), ("%nonassoc", "prec_decl"), ("%empty", "empty_kw"),
                     ("%parse-param", "parse_param"), ("%parse-generics", "parse_generics"), ("\r", "crlf"),
                     ("%grmtools", "grmtools_section"), ("%expect-unused", "expect_unused")):
        if sub in src:
            t.add(tag)
    if any(ord(c) > 127 for c in src):
        t.add("multibyte")
    if src.count("%%") >= 2:
        t.add("programs")
    return t


def layout(rng, tags):
    """returns (ws, hws, lws, eolws): free layout / spaces-tabs / newline-free layout / layout ending a line"""
    style = rng.choice(("dense", "plain", "plain", "airy", "comments", "crlf"))
    tags.add("layout_" + style)
    eol = "\r\n" if style == "crlf" else ("\r" if rng.random() < 0.02 else "\n")
    pc = {"dense": 0.0, "plain": 0.04, "airy": 0.06, "comments": 0.4, "crlf": 0.1}[style]
    counts = {"dense": (0, 0, 0, 1), "airy": (1, 2, 2, 3, 4)}.get(style, (0, 1, 1, 1, 2, 3))
    if eol != "\n":
        tags.add("crlf")

    def comment(nl):
        tags.add("comments")
        if nl and rng.random() < 0.5:
            return "//" + rng.choice(LINEC) + eol
        body = rng.choice(BLOCKC)
        if nl and rng.random() < 0.3:
            body += eol + rng.choice(BLOCKC)
        return "/*" + body + "*/"

    def hws():
        return rng.choice((" ", " ", "  ", "\t", " \t"))

    def ws(must=False, nl=True):
        out = ""
        for _ in range(rng.choice(counts)):
            r = rng.random()
            if r < pc:
                out += comment(nl)
            elif nl and r < pc + 0.3:
                out += eol + rng.choice(("", "", "  ", "\t", "    "))
            else:
                out += hws()
        return out or (" " if must else "")

    def lws(must=False):
        return ws(must, nl=False)

    def eolws():
        return lws() + ("//" + rng.choice(LINEC) if rng.random() < pc else "") + eol

    return ws, hws, lws, eolws


def skeleton(rng):
    r = rng.random()
    if r < 0.4:
        return G.random_grammar(rng)
    if r < 0.55:
        return G.reduced_random_grammar(rng) or G.random_grammar(rng)
    if r < 0.75:
        return G.expr_grammar(rng)
    if r < 0.9:
        return G.nullable_heavy(rng)
    return rng.choice(G.classic_corpus())


def isword(c):
    return c.isalnum() or c in "_." or ord(c) > 127


def render(rng, g, kind, bad=None):
    """one source for abstract grammar g; bad = name of a deliberate error (see BAD) or None"""
    tags = {"kind_" + kind}
    ws, hws, lws, eolws = layout(rng, tags)

    # ---- names: skeleton token -> token name, skeleton rule -> rule name
    skel_toks = list(dict.fromkeys(g.tokens + g.used_tokens() + [t for _, l in g.precs for t in l]))
    pool = [t for t in TOKPOOL if t not in skel_toks]
    rng.shuffle(pool)
    tn = {t: (pool.pop() if rng.random() < 0.45 else t) for t in skel_toks}
    referenced = {x for _, ps in g.rules for syms, _ in ps for k, x in syms if k == 'r'}
    rn, taken = {}, set()
    for n, _ in g.rules:
        c, r = n, rng.random()
        if r < 0.15:
            c = rng.choice(RULEPOOL)
        elif r < 0.3:
            c = rng.choice((n + "1", "_" + n, n.lower() + "_r", n + "_" + n))
        elif r < 0.4 and n not in referenced:
            c = rng.choice((n + ".x", "." + n, "a.b." + n, n + "."))
            tags.add("dotted_rule")
        while c in taken:
            c += "_"
        taken.add(c)
        rn[n] = c
    if any(x in taken for x in tn.values()):
        tags.add("rule_and_token_share_name")
    fresh = [t for t in pool if t not in taken]          # names for tokens that occur only in declarations

    # ---- tokens named by %token (only these may be written bare in productions)
    declared = [x for x in tn.values() if IDENT.match(x) and x not in taken and rng.random() < 0.5]
    if fresh and rng.random() < 0.2:
        declared.append(fresh.pop())
        tags.add("token_only_in_token_decl")
    bare_ok = {x for x in declared if IDENT.match(x)}
    exists = set(tn[t] for t in g.used_tokens()) | set(declared)     # the tokens the AST will have

    def q(name):
        c = '"' if "'" in name else "'" if '"' in name else rng.choice("'\"")
        return c + name + c

    def spell(name):                                     # in a production
        return name if name in bare_ok and rng.random() < 0.75 else q(name)

    def anyspell(name):                                  # where a bare name needs no %token
        return name if IDENT.match(name) and rng.random() < 0.4 else q(name)

    def seq(names, sep):
        return "".join(x + sep(must=True) for x in names).rstrip(" \t")

    # ---- precedences and the %prec of every alternative
    precs = [(k, [tn[t] for t in l]) for k, l in g.precs]
    if not precs and rng.random() < 0.35:
        cand = list(tn.values())
        rng.shuffle(cand)
        while cand and len(precs) < 3:
            k = rng.randint(1, min(3, len(cand)))
            precs.append((rng.choice(("left", "right", "nonassoc")), cand[:k]))
            cand = cand[k:]
            if rng.random() < 0.4:
                break
    if fresh and rng.random() < 0.15:
        precs.append((rng.choice(("left", "right", "nonassoc")), [fresh.pop()]))
        tags.add("token_only_in_prec_decl")
    only_prec = fresh.pop() if fresh and rng.random() < 0.1 else None   # occurs in %nonassoc and %prec only
    if only_prec:
        precs.insert(rng.randint(0, len(precs)), ("nonassoc", [only_prec]))
        tags.add("token_only_in_prec")
    has_prec = [t for _, l in precs for t in l]
    defs = [(n, [[list(syms), tn[p] if p else None] for syms, p in ps]) for n, ps in g.rules]   # (rule, [[syms, prec]])
    alts = [a for _, ps in defs for a in ps]
    for a in alts:
        if a[1] is None and has_prec and rng.random() < 0.1:
            a[1] = rng.choice(has_prec)
    if only_prec:
        rng.choice(alts)[1] = only_prec
    if bad == "prec_noprec":
        rng.choice(alts)[1] = "zz_noprec"
    if bad == "unknown_rule":
        rng.choice(alts)[0].append(('r', "Nope_"))
    exists |= {a[1] for a in alts if a[1]}

    # ---- order of the rule definitions
    if len(defs) > 1 and rng.random() < 0.3:
        rng.shuffle(defs)
    with_start = rng.random() < 0.6 or bad in ("bad_start", "dup_start")
    if with_start and defs[0][0] != g.start:
        tags.add("start_not_first")
    cand = [i for i, (n, ps) in enumerate(defs) if len(ps) >= 2]
    if cand and rng.random() < 0.12:
        i = rng.choice(cand)
        n, ps = defs[i]
        cut = rng.randint(1, len(ps) - 1)
        defs[i] = (n, ps[:cut])
        defs.insert(rng.randint(i + 1, len(defs)), (n, ps[cut:]))
        tags.add("dup_rule_def")
    if rng.random() < 0.1:
        x = rng.choice((".extra", "un.used", "Z_9"))
        rn[x] = x
        defs.insert(rng.randint(0 if with_start else 1, len(defs)), (x, [[[], None]]))
        tags.add("unreferenced_extra_rule")
    if bad == "no_rules":
        defs = []

    # ---- declarations: (text, must_end_its_line)
    decls = []
    if with_start:
        decls += [("%start" + hws() + ("Nope_" if bad == "bad_start" else rn[g.start]), False)] * (2 if bad == "dup_start" else 1)
        tags.add("start_decl")
    if declared:
        tags.add("token_decl")
        cut = rng.randint(0, len(declared)) if rng.random() < 0.3 else len(declared)
        for part in (declared[:cut], declared[cut:]):
            if part:
                decls.append(("%token" + hws() + seq([x if x in bare_ok and rng.random() < 0.8 else q(x) for x in part], ws), False))
    if rng.random() < 0.3:
        av = [x for x in sorted(exists) if rng.random() < 0.4]
        if fresh and rng.random() < 0.3:
            av.append(fresh.pop())
            tags.add("token_only_in_avoid_insert")
        rng.shuffle(av)
        cut = rng.randint(1, len(av)) if len(av) > 1 and rng.random() < 0.2 else len(av)
        for part in (av[:cut], av[cut:]):
            if part:
                decls.append(("%avoid_insert" + hws() + seq([anyspell(x) for x in part], lws), True))
                tags.add("avoid_insert")
        exists |= set(av)
    if kind == "E" and rng.random() < 0.7:
        imp = [x for x in sorted(exists) if rng.random() < 0.25][:2]
        while fresh and len(imp) < 3 and rng.random() < 0.6:
            imp.append(fresh.pop())
        rng.shuffle(imp)
        if imp:
            tags.update(("implicit", "implicit_%d" % len(imp)))
            if set(imp) & set(tn[t] for t in g.used_tokens()):
                tags.add("implicit_also_in_rules")
            decls.append(("%implicit_tokens" + hws() + seq([anyspell(x) for x in imp], lws), True))
            exists |= set(imp)
    if rng.random() < 0.3 or bad == "epp_unknown":
        keys = [x for x in sorted(exists) if rng.random() < 0.4][:3] + (["nowhere_"] if bad == "epp_unknown" else [])
        for x in keys:
            v, c, out = rng.choice(EPPS), rng.choice("'\""), ""
            for ch in v:
                out += ("\\" + ch) if ch == c or (ch in "'\"" and rng.random() < 0.5) else ch
            decls.append(("%epp" + hws() + anyspell(x) + hws() + c + out + c, False))
            tags.add("epp")
    if rng.random() < 0.25:
        decls.append(("%expect" + hws() + str(rng.choice((0, 1, 2, 7, 20, 123456))), False))
        tags.add("expect")
    if rng.random() < 0.15:
        decls.append(("%expect-rr" + hws() + str(rng.randint(0, 30)), False))
        tags.add("expect")
    if rng.random() < 0.15:
        n, t = rng.choice(PARAMS)
        decls.append(("%parse-param" + hws() + n + rng.choice(("", " ")) + ":" + rng.choice(("", " ", "  ")) + t, True))
        tags.add("parse_param")
    if rng.random() < 0.1:
        decls.append(("%parse-generics" + hws() + rng.choice(("T", "'a, T: Clone", "é")), True))
        tags.add("parse_generics")
    if rng.random() < 0.15:
        names = [rn[n] for n in dict.fromkeys(n for n, _ in defs) if rng.random() < 0.4] + [q(x) for x in sorted(exists) if rng.random() < 0.2]
        if names:
            rng.shuffle(names)
            decls.append(("%expect-unused" + hws() + seq(names, ws), False))
            tags.add("expect_unused")
    if (kind in "ONU" and rng.random() < 0.3) or (bad == "wrong_kind_decl" and kind in "GE"):
        decls.append(("%actiontype" + hws() + rng.choice(ATYPES), True))
        tags.add("actiontype")
    if bad == "wrong_kind_decl" and kind in "ONU":
        decls.append(("%implicit_tokens" + hws() + "zz", True))
    if bad == "unknown_decl":
        decls.append(("%foo" + hws() + "bar", True))
    rng.shuffle(decls)
    body = [("%" + k + hws() + seq([anyspell(x) for x in l], lws), True) for k, l in precs]
    for k, p in enumerate(sorted(rng.randint(0, len(decls)) for _ in body)):
        decls.insert(p + k, body[k])                     # precedence lines keep their relative order
    if precs:
        tags.add("prec_decl")
    src = ""
    if rng.random() < 0.04:
        src += rng.choice(("%grmtools{yacckind: Grmtools}", "%grmtools {yacckind: Original(YaccOriginalActionKind::NoAction)}",
                           " %grmtools{}", "%grmtools{yacckind: Eco, recoverer: RecoveryKind::None}"))
        tags.add("grmtools_section")
    src += ws()
    for text, line in decls:
        src += text + (eolws() if line else "") + ws()
    src += "%%" + ws()

    # ---- rules
    p_act = rng.choice((0.0, 0.2, 0.6, 1.0))
    for n, ps in defs:
        src += rn[n] + ws() + ("->" + ws() + rng.choice(GTYPES) + rng.choice(("", " ", "\n  ")) if kind == "G" else "") + ":"
        for ai, (syms, prec) in enumerate(ps):
            items = [spell(tn[x]) if k == 't' else rn.get(x, x) for k, x in syms]
            if not syms:
                tags.add("empty_prod")
                if rng.random() < 0.4:
                    items.append("%empty")
                    tags.add("empty_kw")
            elif bad == "sym_then_empty":
                items.append("%empty")
            if prec:
                items += ["%prec", anyspell(prec)]
                tags.add("prec_override")
            if rng.random() < p_act:
                a = rng.choice(ACTIONS)
                items.append("{" + a + "}")
                tags.add("action")
                if a != a.strip() or a == "":
                    tags.add("action_padded_or_empty")
            src += ("|" if ai else "") + ws()
            for j, x in enumerate(items):
                src += x + ws(must=(j + 1 < len(items) and isword(x[-1]) and isword(items[j + 1][0])))
        src += ";" + ws()
    if bad == "open_action":
        src += "Zz: 'z' { open ;\n"
    elif rng.random() < 0.25:
        src += "%%" + ws() + rng.choice(("", "fn f(){}", "fn main() { }\n// tail\n", "é", "\n\nuse x::y;\n"))
        tags.add("programs")
    if any(ord(c) > 127 for c in src):
        tags.add("multibyte")
    if bad:
        tags.update(("deliberately_invalid", "bad_" + bad))
    return kind, src, tags


def random_case(rng):
    bad = rng.choice(BAD) if rng.random() < 0.03 else None
    return render(rng, skeleton(rng), rng.choice(KINDS), bad)


def cases(rng, n):
    """list of (kind, source, tags): fixed corpus first, then n random renderings"""
    res = [(k, s, sniff(k, s)) for k, s in CORPUS]
    # the classic skeletons once in every kind, default options
    for g in G.classic_corpus():
        for k in KINDS:
            res.append(render(rng, g, k))
    res += [random_case(rng) for _ in range(n)]
    return res
