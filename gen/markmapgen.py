"""C12 / MarkMap: random operation sequences over two MarkMap<String, u32> (public API incl. Entry API).

A sequence is a list of operations; an operation is a tuple
  (opcode, map, *args)     opcodes in the order of the constructors of `op` in C12/MarkMapModel.v:
  0 insert k v | 1 get k | 2 contains_key k | 3 remove k | 4 mark_used k | 5 mark_required k |
  6 is_used k | 7 is_required k | 8 set_default_merge_behavior b | 9 set_merge_behavior k b |
  10 entry k [(code, arg|None), …] | 11 merge | 12 unused | 13 missing | 14 keys | 15 iter
Everything is a pure function of the `rng` (a random.Random).
"""

KEYS = ["a", "aa", "ab", "b", "ba", "c"]
BEHS = [1, 2, 4]
BEH_NAME = {1: "Theirs", 2: "Ours", 4: "MutEx"}
OP_NAMES = ["insert", "get", "contains_key", "remove", "mark_used", "mark_required", "is_used", "is_required",
            "set_default_merge_behavior", "set_merge_behavior", "entry", "merge", "unused", "missing", "keys", "iter"]
XNAMES = ["XGet", "XInsert", "XInsertEntry", "XGetMark", "XMarkUsed", "XIsUsed", "XMarkRequired",
          "XIsRequired", "XSetMB", "XKey"]

# opcode weights: inserts / marks / merges / removes / entries dominate, queries interleaved
WEIGHTS = [(0, 16), (1, 3), (2, 3), (3, 8), (4, 5), (5, 6), (6, 2), (7, 2), (8, 4), (9, 8),
           (10, 12), (11, 7), (12, 2), (13, 2), (14, 2), (15, 3)]
_POP = [o for o, w in WEIGHTS for _ in range(w)]


def _entry_ops(rng):
    xs = []
    for _ in range(rng.randint(0, 5)):
        c = rng.choice([0, 1, 1, 2, 2, 3, 3, 4, 5, 6, 6, 7, 8, 8, 9])
        if c in (1, 2):
            xs.append((c, rng.randint(0, 9)))
        elif c == 8:
            xs.append((c, rng.choice(BEHS)))
        else:
            xs.append((c, None))
    return xs


def _one(rng, present):
    """`present`: per map the set of keys that were touched so far (an approximation that biases the
    choice of keys towards collisions / removals of present keys; correctness does not depend on it)."""
    o = rng.choice(_POP)
    i = rng.randint(0, 1)
    if o == 3 and present[i] and rng.random() < 0.8:
        k = rng.choice(sorted(present[i]))
    elif o in (0, 9, 5, 4, 10) and present[1 - i] and rng.random() < 0.5:
        k = rng.choice(sorted(present[1 - i]))     # the same key in both maps: overlapping merges
    else:
        k = rng.choice(KEYS)
    if o == 0:
        present[i].add(k)
        return (0, i, k, rng.randint(0, 9))
    if o in (1, 2, 6, 7):
        return (o, i, k)
    if o == 3:
        present[i].discard(k)
        return (3, i, k)
    if o in (4, 5):
        present[i].add(k)
        return (o, i, k)
    if o == 8:
        return (8, i, rng.choice(BEHS))
    if o == 9:
        present[i].add(k)
        return (9, i, k, rng.choice(BEHS))
    if o == 10:
        present[i].add(k)
        return (10, i, k, _entry_ops(rng))
    if o == 11:
        present[i] |= present[1 - i]
        present[1 - i] = set()
        return (11, i)
    return (o, i)


def cases(rng, n):
    out = []
    for _ in range(n):
        r = rng.random()
        ln = rng.randint(1, 8) if r < 0.2 else (rng.randint(5, 25) if r < 0.75 else rng.randint(20, 40))
        present = [set(), set()]
        seq = []
        # sometimes open with mark-only keys (mark_* / set_merge_behavior before any insert)
        if rng.random() < 0.35:
            for _ in range(rng.randint(1, 3)):
                if len(seq) >= ln:
                    break
                i = rng.randint(0, 1)
                k = rng.choice(KEYS)
                present[i].add(k)
                c = rng.choice([4, 5, 5, 9])
                seq.append((c, i, k, rng.choice(BEHS)) if c == 9 else (c, i, k))
        while len(seq) < ln:
            seq.append(_one(rng, present))
        out.append(seq)
    return out


def _x_tok(x):
    return "%d" % x[0] if x[1] is None else "%d:%d" % x


def op_line(op):
    o, i = op[0], op[1]
    if o == 10:
        return " ".join(["10", str(i), op[2]] + [_x_tok(x) for x in op[3]])
    return " ".join(str(t) for t in op)


def line(seq):
    return " ; ".join(op_line(op) for op in seq)


def _key(k):
    return "[" + ";".join("%d" % b for b in k.encode()) + "]%N"


def _b(i):
    return "true" if i else "false"


def _x_term(x):
    c, a = x
    if c in (1, 2):
        return "%s %d%%N" % (XNAMES[c], a)
    if c == 8:
        return "XSetMB %s" % BEH_NAME[a]
    return XNAMES[c]


_CTOR = ["OInsert", "OGet", "OContains", "ORemove", "OMarkUsed", "OMarkRequired", "OIsUsed", "OIsRequired",
         "OSetDefault", "OSetMB", "OEntry", "OMerge", "OUnused", "OMissing", "OKeys", "OIter"]


def op_term(op):
    o, i = op[0], op[1]
    c = _CTOR[o]
    if o == 0:
        return "%s %s %s %d%%N" % (c, _b(i), _key(op[2]), op[3])
    if o in (1, 2, 3, 4, 5, 6, 7):
        return "%s %s %s" % (c, _b(i), _key(op[2]))
    if o == 8:
        return "%s %s %s" % (c, _b(i), BEH_NAME[op[2]])
    if o == 9:
        return "%s %s %s %s" % (c, _b(i), _key(op[2]), BEH_NAME[op[3]])
    if o == 10:
        return "%s %s %s [%s]" % (c, _b(i), _key(op[2]), "; ".join(_x_term(x) for x in op[3]))
    return "%s %s" % (c, _b(i))


def coq_term(seq):
    return "[" + "; ".join(op_term(op) for op in seq) + "]"


# ---- family builder_sequence: the header sequence of CTParserBuilder::build_inner (C13/SettingsModel.v) ----------------
SETTING_KEYS = ["yacckind", "recoverer", "serialisation_format"]
SECTION_EXTRA = ["test_files", "lexerkind", "zzz", "a", "recoverers", "yacckin", "serialisation_forma", "yacckinds", "s"]


def builder_sequence(rng):
    """-> (sequence, given, section): map 0 = the builder's header, map 1 = the parsed %grmtools section (inserts only);
    Header::new(); entry(k): insert_entry + set_merge_behavior(Ours) when the builder was given k, mark_required for a
    yacckind that was not given; merge_from(section); get / mark_used of the three keys in the code's order; unused; missing"""
    given = {k: (rng.randint(0, 9) if rng.random() < 0.5 else None) for k in SETTING_KEYS}
    pool = [k for k in SETTING_KEYS if rng.random() < 0.5] + [k for k in SECTION_EXTRA if rng.random() < 0.25]
    rng.shuffle(pool)
    section = {k: rng.randint(0, 9) for k in pool}
    seq = []
    if given["yacckind"] is not None:
        seq.append((10, 0, "yacckind", [(2, given["yacckind"]), (8, 2)]))
    else:
        seq.append((10, 0, "yacckind", [(6, None)]))
    for k in ("recoverer", "serialisation_format"):
        if given[k] is not None:
            seq.append((10, 0, k, [(2, given[k]), (8, 2)]))
    seq += [(0, 1, k, section[k]) for k in pool]
    seq += [(11, 0), (1, 0, "yacckind"), (4, 0, "yacckind"), (4, 0, "recoverer"), (1, 0, "recoverer"),
            (4, 0, "serialisation_format"), (1, 0, "serialisation_format"), (12, 0), (13, 0)]
    return seq, given, section


def builder_expected_tail(given, section):
    """what C13_settings_in_force says the last nine results are (integer lists, the harness's encoding)"""
    def pick(k):
        v = given[k] if given[k] is not None else section.get(k)
        return [0] if v is None else [1, v]

    def keys(ks):
        out = [len(ks)]
        for k in ks:
            out += [len(k.encode())] + list(k.encode())
        return out
    unused = sorted((k for k in section if k not in SETTING_KEYS), key=lambda k: k.encode())
    missing = [] if pick("yacckind") != [0] else ["yacckind"]
    return [[0], pick("yacckind"), [], [], pick("recoverer"), [], pick("serialisation_format"), keys(unused), keys(missing)]


# ---- family lex_builder_sequence: the header sequence of CTLexerBuilder::build_inner (C13/LexSettingsModel.v) -----------
LEX_FLAG_KEYS = ["dot_matches_new_line", "multi_line", "octal", "posix_escapes", "allow_wholeline_comments",
                 "case_insensitive", "swap_greed", "ignore_whitespace", "unicode", "size_limit", "dfa_size_limit", "nest_limit"]
LEX_KEYS = ["lexerkind"] + LEX_FLAG_KEYS
LEX_SECTION_EXTRA = ["test_files", "yacckind", "zzz", "a", "octa", "octals", "lexerkin", "unicod", "nest_limits"]


def lex_builder_sequence(rng):
    """-> (sequence, lk, given, section): map 0 = the builder's header (Header::new(); set_default_merge_behavior(Ours);
    one `insert` per flag setter called), map 1 = the parsed %grmtools section (inserts only); merge_from(section);
    mark_used + get of lexerkind and of the 12 flag keys in the order of LexFlags::try_from; unused.
    lk = the builder's lexerkind FIELD (not a header key)"""
    lk = rng.randint(0, 9) if rng.random() < 0.5 else None
    gpool = [k for k in LEX_FLAG_KEYS if rng.random() < 0.3]
    rng.shuffle(gpool)
    given = {k: rng.randint(0, 9) for k in gpool}
    pool = [k for k in LEX_KEYS if rng.random() < 0.35] + [k for k in LEX_SECTION_EXTRA if rng.random() < 0.2]
    rng.shuffle(pool)
    section = {k: rng.randint(0, 9) for k in pool}
    seq = [(8, 0, 2)]
    seq += [(0, 0, k, given[k]) for k in gpool]
    seq += [(0, 1, k, section[k]) for k in pool]
    seq.append((11, 0))
    for k in LEX_KEYS:
        seq += [(4, 0, k), (1, 0, k)]
    seq.append((12, 0))
    return seq, lk, given, section


def lex_builder_expected_tail(lk, given, section):
    """what C13_lex_settings_in_force says the last 28 results are, and the lexerkind value in force"""
    def pick(k):
        v = given[k] if k in given else section.get(k)
        return [0] if v is None else [1, v]

    def keys(ks):
        out = [len(ks)]
        for k in ks:
            out += [len(k.encode())] + list(k.encode())
        return out
    unused = sorted((k for k in set(given) | set(section) if k not in LEX_KEYS), key=lambda k: k.encode())
    tail = [[0]]
    for k in LEX_KEYS:
        tail += [[], pick(k)]
    tail.append(keys(unused))
    in_force = lk if lk is not None else section.get("lexerkind")
    return tail, in_force
