"""C10 half (b): abstract yacc grammars and their concrete renderings.

An *abstract grammar* is a dict (see `random_grammar`): yacc kind, declarations
and rules as data.  `render(ag, lay)` prints it under a layout (an object that
chooses whitespace, comments, quoting style, declaration order, ...) and returns
the text together with the *expected* AST: names, order, symbols, precedences,
... and for every span-carrying item the byte range of the text that defines
it.  The expectation is computed from the abstract grammar and the positions
the printer wrote to -- never from the parser under test.
"""

IDENT0 = "abcdefghijklmnopqrstuvwxyzABCDEFGHIJKLMNOPQRSTUVWXYZ_"
IDENT = IDENT0 + "0123456789"


def blen(s):
    return len(s.encode("utf-8"))


# --------------------------------------------------------------------------
# layouts
# --------------------------------------------------------------------------
class Layout:
    """style: dense | airy | comments | crlf | multibyte | names | trigger"""

    STYLES = ["dense", "airy", "comments", "crlf", "multibyte", "names", "trigger"]

    def __init__(self, rng, style):
        self.rng = rng
        self.style = style
        self.nl = "\r\n" if style == "crlf" else "\n"
        self.trigger_used = False          # a block comment with a newline followed by '/' was printed
        # "twin" mode (see checks/c10_parser.py): the same random choices, but the two known-finding families are
        # neutralised — nothing but blanks is written after an action type and the braces of literal-brace
        # actions are replaced by parentheses
        self.neutral = False
        self.at_layout_used = []           # (dialect, text) written between an action type and its line end / colon
        self.pre_action_layout = 0         # productions with blanks/comments between the last item and '{'

    # ---- comments ---------------------------------------------------------
    PC = {"dense": (0, 0), "airy": (0, 0), "comments": (.45, .15), "crlf": (.2, .1), "multibyte": (.45, .15),
          "names": (.1, .05), "trigger": (.45, .15)}

    def comment_text(self, newline_ok):
        r = self.rng
        pool = ["x", "y z", "*", "/", "**", "* /", "/ *", "//", "'", '"', "{", "}", "%%", "%token q", ";", "|",
                ":", "é", "→", "\U0001F600", "\t", " ", "a/b", "a*b", "/*", "*x/", "\\"]
        if self.style == "multibyte":
            pool += ["é", "→→", "日本", "\U0001F600\U0001F600", " "]
        parts = [r.choice(pool) for _ in range(r.randint(0, 4))]
        if newline_ok and r.random() < 0.5:
            nls = ["\r\n", "\r\n *"] if self.style == "crlf" else ["\n", "\r\n", "\n\n", "\n *", "\r"]
            parts.insert(r.randint(0, len(parts)), r.choice(nls))
        t = "".join(parts)
        t = t.replace("*/", "* /")
        if not newline_ok:
            t = t.replace("\n", " ").replace("\r", " ")
        return t

    def block_comment(self, newline_ok):
        t = self.comment_text(newline_ok)
        if self.style == "trigger" and newline_ok and self.rng.random() < 0.6:
            # the known-defect pattern: a line inside the comment starts with '/'
            t = t + self.rng.choice(["\n// inner line", "\n/ x", "\r/", "\n//", "\n/* nested opener"]) + self.rng.choice(["", " ", "\n"])
        has = any(t[k] in "\r\n" and t[k + 1] == "/" for k in range(len(t) - 1))
        if has and self.style != "trigger":
            # outside the trigger style such texts are avoided so that the other layouts stay clean
            t = t.replace("\n/", "\n /").replace("\r/", "\r /")
            has = False
        if has:
            self.trigger_used = True
        return "/*" + t + "*/"

    def line_comment(self):
        return "//" + self.comment_text(False) + self.nl

    # ---- gaps -------------------------------------------------------------
    def gap(self, need, newline_ok=True, must_newline=False):
        """layout text between two items.  need: at least one character;
        newline_ok: newlines allowed; must_newline: at least one newline (ends a
        %left/%avoid_insert list)."""
        r = self.rng
        st = self.style
        if st == "dense":
            if must_newline:
                return self.nl
            return " " if need else ""
        pc, pl = self.PC[st]
        out = []
        for _ in range(r.randint(0, 3 if pc > .3 else 2)):
            k = r.random()
            if k < pc:
                out.append(self.block_comment(newline_ok))
            elif k < pc + pl and newline_ok:
                out.append(self.line_comment())
            elif k < 0.8:
                out.append(r.choice(["\t", " ", "\t\t"]) if st == "crlf" else r.choice([" ", "  ", "\t"]))
            elif newline_ok:
                out.append(self.nl)
            else:
                out.append(" ")
        t = "".join(out)
        if must_newline and not any(c in t for c in "\r\n"):
            t += r.choice([self.nl, " " + self.nl, self.line_comment() if pl else self.nl])
        if need and t == "":
            t = " "
        return t

    # ---- layout after an action type (known finding C10-actiontype-layout) ----
    def after_type(self, dialect):
        """text between an action type and the end of its line (%actiontype, dialect 'O') / its colon
        (Grmtools rule, dialect 'G').  Blanks before a Grmtools colon are trimmed by the parser; everything
        else written here is outside what the parser treats as layout.  The same number of random draws in
        both modes."""
        r = self.rng
        k = r.random()
        bl = r.choice([" ", "  ", "\t", " \t "])
        cm = r.choice(["/* c */", "/**/", "/* the value */", "/* a::b */", "// c", "// the value", "//"])
        colon_cm = r.choice(["// x: y", "/* a:b */", "// note: the value"])
        if self.style == "dense":
            return ""
        if dialect == "O":
            if k < 0.78:
                t = ""
            elif k < 0.86:
                t = bl
            elif k < 0.97:
                t = r.choice(["", " ", bl]) + cm
            else:
                t = bl + cm + ("" if cm.startswith("//") else bl)
            if self.neutral:
                return ""
        else:
            if k < 0.85:
                t = r.choice(["", " ", "  ", "\t"])
            elif k < 0.97:
                t = bl + cm + (self.nl + bl if cm.startswith("//") else r.choice(["", " ", bl]))
            else:
                t = bl + colon_cm + (self.nl + bl if colon_cm.startswith("//") else " ")
            if self.neutral:
                return "".join(c for c in t if c in " \t") if t.strip(" \t") == "" else ""
        if t.strip(" \t") != "" or (dialect == "O" and t != ""):
            self.at_layout_used.append((dialect, t))
        return t

    def pre_action(self):
        """extra layout between the last item of a production and the brace of its action"""
        r = self.rng
        return r.choice(["   ", "\t", self.nl + "    ", " /* c */ ", "   /* build the pair */" + self.nl + "    ",
                         " // c" + self.nl, "/**/", " /* { */ ", "  // }" + self.nl + "  "])

    # ---- quoting ----------------------------------------------------------
    def quote_token(self, name, can_bare):
        """concrete spelling of token `name`; returns (text, offset of the name inside text)"""
        r = self.rng
        is_ident = name[0] in IDENT0 and all(c in IDENT for c in name)
        if can_bare and is_ident:
            p = {"names": 0.9, "dense": 0.4}.get(self.style, 0.3)
            if r.random() < p:
                return name, 0
        qs = [q for q in "'\"" if q not in name]
        if self.style == "multibyte" and '"' in qs and r.random() < 0.7:
            q = '"'
        else:
            q = r.choice(qs)
        return q + name + q, 1


# --------------------------------------------------------------------------
# random abstract grammars
# --------------------------------------------------------------------------
TOKEN_NAMES = ["+", "-", "*", "/", "(", ")", "==", "<", "a b", "é", "→", "{", "}", "%", "%%", "//", "/*", ";", "|", ":",
               "if", "then", "x'", 'y"', "\\", "\U0001F600", "1", "a.b", "'", '"', "#"]
TYPES = ["u64", "Result<u64, ()>", "Vec<Span>", "std::vec::Vec<u8>", "()", "(u8, u8)", "Option<&'input str>", "é::T", "a::b::C<d::E>"]
ACTIONS = ["", "$1", "Ok($1? + $3?)", "{ }", "{{}}", "if x { 1 } else { 2 }", "é", "\"→\"", "$1 /* c */", "// c\n$2",
           "a\nb", "a\r\nb", "vec![]", "'x'", "x;y|z", "%%", "\U0001F600", "$lexer.span_str($1.unwrap().span())", "a  b"]
# valid Rust whose braces are inside string / char literals or comments.  ACTIONS_LIT_UNBAL: not balanced when
# every brace character is counted (known finding C10-action-literal-brace); ACTIONS_LIT_BAL: balanced either way
# (controls: these must round trip).
ACTIONS_LIT_UNBAL = ['"{".to_string()', '"}".to_string()', "'{'", "'}'", "b'{' as u32", "1 // }\n+ 2", "1 // {\n+ 2",
                     "/* { */ 1", "/* } */ 1", 'r#"}"#.len()', '"\\"{"', "x.push('}'); x", "match c { '{' => 1, _ => 0 }",
                     'format!("{{")', '"}{"', "/* /* { */ */ 1", "'\\u{7b}'.len_utf8() + \"{\".len()"]
ACTIONS_LIT_BAL = ['format!("{}", $1)', '"{ }"', "('{', '}')", "// { }\n1", "/* {} */ 1", 'r#"{}"#', "'\\u{7b}'"]


def naive_brace_ok(a):
    """braces balance when every '{' / '}' character is counted (YpRoundSpec.brace_ok 0 a)"""
    d = 0
    for c in a:
        if c == "{":
            d += 1
        elif c == "}":
            if d == 0:
                return False
            d -= 1
    return d == 0


def rust_brace_ok(a):
    """braces balance when Rust string literals ("..", r#".."#, b".."), char literals ('x', '\\x', '\\u{..}', b'x'; not
    lifetimes), // comments and (nested) /* */ comments are skipped.  True / False, or None when this conservative
    scanner cannot delimit a literal or comment (then nothing is claimed)."""
    i, d, n = 0, 0, len(a)
    ident = "abcdefghijklmnopqrstuvwxyzABCDEFGHIJKLMNOPQRSTUVWXYZ_0123456789"
    while i < n:
        c = a[i]
        if a.startswith("//", i):
            j = a.find("\n", i)
            i = n if j < 0 else j + 1
            continue
        if a.startswith("/*", i):
            depth, i = 1, i + 2
            while i < n and depth:
                if a.startswith("/*", i):
                    depth, i = depth + 1, i + 2
                elif a.startswith("*/", i):
                    depth, i = depth - 1, i + 2
                else:
                    i += 1
            if depth:
                return None
            continue
        prev_ident = i > 0 and a[i - 1] in ident
        if c in "rb" and not prev_ident:
            # r"..", r#".."#, br".." ; b".." ; b'x'
            j = i + 1
            if c == "b" and j < n and a[j] == "r":
                j += 1
            if (c == "r" or j > i + 1) and j < n and a[j] in '#"':
                h = 0
                while j < n and a[j] == "#":
                    h, j = h + 1, j + 1
                if j < n and a[j] == '"':
                    e = a.find('"' + "#" * h, j + 1)
                    if e < 0:
                        return None
                    i = e + 1 + h
                    continue
            if c == "b" and i + 1 < n and a[i + 1] in "\"'":
                i += 1
                c = a[i]
        if c == '"':
            i += 1
            while i < n and a[i] != '"':
                i += 2 if a[i] == "\\" else 1
            if i >= n:
                return None
            i += 1
            continue
        if c == "'":
            if i + 1 < n and a[i + 1] == "\\":
                e = a.find("'", i + 3)
                if e < 0:
                    return None
                i = e + 1
                continue
            if i + 2 < n and a[i + 2] == "'":
                i += 3
                continue
            i += 1          # a lifetime / loop label
            continue
        if c == "{":
            d += 1
        elif c == "}":
            if d == 0:
                return False
            d -= 1
        i += 1
    return d == 0


def literal_brace_action(a):
    """the known class: legal Rust (balanced once literals/comments are skipped) that the parser's plain count rejects"""
    return a is not None and not naive_brace_ok(a) and rust_brace_ok(a) is True


def neutralised(a):
    return a.replace("{", "(").replace("}", ")") if not naive_brace_ok(a) else a


def strip_type_comments(t):
    """an action type with /* */ and // comments removed and the result trimmed (blanks only)"""
    import re
    t = re.sub(r"/\*.*?\*/", "", t, flags=re.S)
    t = re.sub(r"//[^\r\n]*", "", t)
    return t.strip(" \t\r\n")


EPPS = ["x", "an integer", "é", "it's", 'say "hi"', "→ arrow", "a'b\"c", "%", "/* c */", "// c", "\U0001F600", " "]
PROGRAMS = ["", "fn main() {}", "x", "é\n// trailing", "%% more", "a\r\nb", "fn f() { /* c */ }\n"]


def ident(rng, used, prefix=""):
    while True:
        n = prefix + rng.choice(IDENT0) + "".join(rng.choice(IDENT) for _ in range(rng.randint(0, 4)))
        if n not in used and n not in ("prec", "empty"):
            used.add(n)
            return n


def random_grammar(rng, size=None):
    size = size or rng.randint(1, 5)
    kind = rng.choice(["O", "O", "G", "G", "E", "N"])
    used = set()
    nrules = size
    rule_names = [ident(rng, used) for _ in range(nrules)]
    # dotted names are legal rule names (RE_NAME) but cannot be referenced (RE_TOKEN): keep them unreferenced
    dotted = []
    if rng.random() < 0.2:
        dotted.append(rng.choice([".", "_."]) + ident(rng, used))
    declared = [ident(rng, used, "T") for _ in range(rng.randint(0, 3))]       # %token names (identifiers)
    special = rng.sample(TOKEN_NAMES, rng.randint(1, 4))                       # only ever quoted
    tokens = declared + special
    ag = {"kind": kind, "declared": declared}
    # precedence levels
    levels = []
    pool = tokens[:] + [ident(rng, used, "P")]
    rng.shuffle(pool)
    for _ in range(rng.randint(0, 3)):
        if not pool:
            break
        k = rng.randint(1, min(3, len(pool)))
        levels.append((rng.choice(["left", "right", "nonassoc"]), [pool.pop() for _ in range(k)]))
    ag["precs"] = levels
    prec_toks = [t for _, ts in levels for t in ts]
    ag["start"] = rng.choice(rule_names + dotted) if rng.random() < 0.5 else None
    ag["expect"] = rng.choice([0, 1, 7, 12345678901234567890, 2 ** 64 - 1, 42]) if rng.random() < 0.4 else None
    ag["expectrr"] = rng.choice([0, 3, 100]) if rng.random() < 0.3 else None
    ag["actiontype"] = rng.choice(TYPES) if kind in "ON" and rng.random() < 0.5 else None
    ag["parse_param"] = (rng.choice(["p", "state", "x::y"]), rng.choice(TYPES + ["&mut Vec<u8>"])) if rng.random() < 0.25 else None
    ag["parse_generics"] = rng.choice(["T", "'a, T: Copy"]) if rng.random() < 0.15 else None
    implicit = []
    if kind == "E" and rng.random() < 0.6:
        implicit = [ident(rng, used, "W") for _ in range(rng.randint(1, 2))]
    ag["implicit_tokens"] = implicit if implicit else None
    ag["avoid_insert"] = rng.sample(tokens, rng.randint(1, min(2, len(tokens)))) if rng.random() < 0.35 else None
    # rules
    rules = []
    for rn in rule_names + dotted:
        prods = []
        for _ in range(rng.randint(1, 3)):
            syms = []
            for _ in range(rng.choice([0, 1, 1, 2, 2, 3, 4])):
                if rng.random() < 0.45:
                    syms.append(("R", rng.choice(rule_names)))
                else:
                    syms.append(("T", rng.choice(tokens)))
            prec = rng.choice(prec_toks) if prec_toks and rng.random() < 0.25 else None
            action = rng.choice(ACTIONS) if rng.random() < (0.7 if kind == "G" else 0.4) else None
            if action is not None and rng.random() < 0.03:
                action = rng.choice(ACTIONS_LIT_UNBAL + ACTIONS_LIT_BAL)
            prods.append({"syms": syms, "prec": prec, "action": action,
                          "empty_kw": (not syms) and rng.random() < 0.5})
        rules.append({"name": rn, "actiont": rng.choice(TYPES) if kind == "G" else None, "prods": prods})
    # sometimes a rule is written in two blocks
    if rng.random() < 0.15 and rules:
        r0 = rng.choice(rules)
        rules.append({"name": r0["name"], "actiont": rng.choice(TYPES) if kind == "G" else None, "again": True,
                      "prods": [{"syms": [("T", rng.choice(tokens))], "prec": None, "action": None, "empty_kw": False}]})
    ag["rules"] = rules
    # every token that is to be known must occur: epp keys are taken from tokens that occur
    occurring = set(declared) | set(ag["avoid_insert"] or []) | set(implicit)
    for r in rules:
        for p in r["prods"]:
            occurring |= {n for k, n in p["syms"] if k == "T"}
            if p["prec"]:
                occurring.add(p["prec"])
    occ = sorted(occurring)
    ag["epp"] = [(t, rng.choice(EPPS)) for t in rng.sample(occ, rng.randint(0, min(2, len(occ))))] if rng.random() < 0.5 else []
    ag["programs"] = rng.choice(PROGRAMS) if rng.random() < 0.4 else None
    return ag


def prec_pseudo_grammar(rng):
    """/repo 4ff022d: abstract grammars whose precedence PSEUDO-TOKENS (UMINUS style) occur in no right-hand side: they are
    declared by a %left/%right/%nonassoc level alone (the %prec occurrence introduces the token) or by a level and %token, and
    are named by %prec of productions of REACHABLE rules (not to be reported unused), of UNREACHABLE rules only (to be
    reported, like the rule itself) or by no production at all (to be reported).  Returns (ag, info)."""
    kind = rng.choice(["O", "O", "N", "G", "E"])
    ops = rng.sample(["-", "+", "*", "!", "~", "<", "=="], rng.randint(1, 3))
    atoms = rng.sample(["n", "id", "(", ")", "x"], rng.randint(1, 3))
    declared_real = rng.sample(["NUM", "IDENT", "T_STR"], rng.randint(0, 2))
    pseudo_names = rng.sample(["UMINUS", "UPLUS", "PFX", "P_hi", "NEG", "LOWEST", "Pz9"], rng.randint(1, 4))
    # (a %prec token without a precedence level is an error, NoPrecForToken: every pseudo-token has a level)
    how = {n: rng.choice(["level", "level", "both"]) for n in pseudo_names}
    where = {n: rng.choice(["reach", "reach", "unreach", "nowhere", "both"]) for n in pseudo_names}
    where[pseudo_names[0]] = "reach"                      # every grammar has the textbook situation
    declared = declared_real + [n for n in pseudo_names if how[n] in ("token", "both")]
    rng.shuffle(declared)
    levels = []
    pool = ops[:] + [n for n in pseudo_names if how[n] in ("level", "both")]
    rng.shuffle(pool)
    while pool:
        k = rng.randint(1, min(2, len(pool)))
        levels.append((rng.choice(["left", "right", "nonassoc"]), [pool.pop() for _ in range(k)]))
    reach_rules = ["E"] + rng.sample(["T", "F", "Arg"], rng.randint(0, 2))
    unreach_rules = rng.sample(["Dead", "U1", "Old"], rng.randint(0, 2))
    if any(w in ("unreach", "both") for w in where.values()) and not unreach_rules:
        unreach_rules = ["Dead"]
    real = ops + atoms + declared_real

    def prod(rules_ok, prec):
        syms = []
        for _ in range(rng.choice([1, 1, 2, 2, 3])):
            syms.append(("R", rng.choice(rules_ok)) if rng.random() < 0.45 else ("T", rng.choice(real)))
        return {"syms": syms, "prec": prec, "action": rng.choice(ACTIONS) if kind == "G" or rng.random() < 0.3 else None,
                "empty_kw": False}
    rules = []
    for rn in reach_rules:
        prods = [prod(reach_rules, None) for _ in range(rng.randint(1, 2))]
        rules.append({"name": rn, "actiont": rng.choice(TYPES) if kind == "G" else None, "prods": prods})
    # E refers to every other reachable rule so that they ARE reachable
    for rn in reach_rules[1:]:
        rules[0]["prods"].append({"syms": [("T", rng.choice(ops)), ("R", rn)], "prec": None, "action": None, "empty_kw": False})
    rules[0]["prods"].append({"syms": [("T", atoms[0])], "prec": None, "action": None, "empty_kw": False})
    for rn in unreach_rules:
        prods = [prod(reach_rules + unreach_rules, None) for _ in range(rng.randint(1, 2))]
        rules.append({"name": rn, "actiont": rng.choice(TYPES) if kind == "G" else None, "prods": prods})
    for n in pseudo_names:
        if where[n] in ("reach", "both"):
            r = rules[rng.randrange(len(reach_rules))]
            r["prods"].insert(rng.randint(0, len(r["prods"])), prod(reach_rules, n) if rng.random() < 0.6 else
                              {"syms": [("T", ops[0]), ("R", "E")], "prec": n, "action": None, "empty_kw": False})
        if where[n] in ("unreach", "both"):
            r = rules[len(reach_rules) + rng.randrange(len(unreach_rules))]
            r["prods"].insert(rng.randint(0, len(r["prods"])), prod(reach_rules + unreach_rules, n))
    # the start rule is E: first rule of the text or named by %start (then the rule blocks may come in any order)
    start = None
    if rng.random() < 0.5:
        start = "E"
        rng.shuffle(rules)
    ag = {"kind": kind, "declared": declared, "precs": levels, "start": start,
          "expect": rng.choice([0, 1, 3]) if rng.random() < 0.3 else None, "expectrr": rng.choice([0, 2]) if rng.random() < 0.2 else None,
          "actiontype": rng.choice(TYPES) if kind in "ON" and rng.random() < 0.4 else None, "parse_param": None, "parse_generics": None,
          "implicit_tokens": None, "avoid_insert": None, "epp": [], "programs": None, "rules": rules}
    return ag, {"pseudo": pseudo_names, "how": how, "where": where, "reach": reach_rules, "unreach": unreach_rules}


def expected_warnings(exp, prec_used_fixed=True):
    """GrammarAST::warnings of the AST a printed text denotes, from first principles: rules not reachable from the start rule
    (in rule order), then tokens that no reachable production uses (in token order) — use = occurrence as a symbol or, since
    /repo 4ff022d, as the %prec token of the production.  (kind, span) pairs."""
    rules = {r["name"]: r for r in exp["rules"]}
    start = exp["start"][0] if exp["start"] else None
    seen_r, seen_t, todo = set(), set(), []
    if start in rules:
        seen_r.add(start)
        todo = [start]
    while todo:
        for pidx in rules[todo.pop()]["pidxs"]:
            p = exp["prods"][pidx]
            if p["prec"] and prec_used_fixed:
                seen_t.add(p["prec"])
            for k, n, _ in p["syms"]:
                if k == "T":
                    seen_t.add(n)
                elif n not in seen_r:
                    seen_r.add(n)
                    if n in rules:
                        todo.append(n)
    implicit = set(exp["implicit"] or {})
    return [("UnusedRule", tuple(r["span"])) for r in exp["rules"] if r["name"] not in seen_r] + \
           [("UnusedToken", tuple(exp["tokspan"][t])) for t in exp["tokens"] if t not in seen_t and t not in implicit]


# --------------------------------------------------------------------------
# printer
# --------------------------------------------------------------------------
class Out:
    def __init__(self):
        self.parts = []
        self.pos = 0

    def w(self, s):
        self.parts.append(s)
        self.pos += blen(s)

    def text(self):
        return "".join(self.parts)


def render(ag, lay):
    """returns (text, expected) — expected: dict describing the AST the text denotes"""
    rng = lay.rng
    o = Out()
    kind = ag["kind"]
    declared = set(ag["declared"])
    exp = {"tokens": [], "tokspan": {}, "tokdir": set(), "precs": {}, "epp": {}, "avoid": None, "implicit": None,
           "start": None, "expect": None, "expectrr": None, "rules": [], "prods": [], "programs": None,
           "parse_param": None, "parse_generics": None, "pad_actions": []}

    def seen_token(name, s, e, directive=False):
        if name not in exp["tokspan"]:
            exp["tokens"].append(name)
            exp["tokspan"][name] = (s, e)
        if directive:
            exp["tokdir"].add(name)

    def put_token(name, can_bare=True):
        t, off = lay.quote_token(name, can_bare)
        s = o.pos + off
        outer = (o.pos, o.pos + blen(t))
        o.w(t)
        return (s, s + blen(name)), outer, off == 1

    # ---- declarations, in an order chosen by the layout --------------------
    decls = []
    if ag["declared"]:
        # possibly split over several %token directives
        names = ag["declared"][:]
        while names:
            k = rng.randint(1, len(names))
            decls.append(("token", names[:k]))
            names = names[k:]
    for i, (a, ts) in enumerate(ag["precs"]):
        decls.append(("prec", i))
    if ag["start"]:
        decls.append(("start",))
    for kv in ag["epp"]:
        decls.append(("epp", kv))
    for f in ("expect", "expectrr", "actiontype", "parse_param", "parse_generics", "avoid_insert", "implicit_tokens"):
        if ag.get(f) is not None:
            decls.append((f,))
    if lay.style != "dense" or rng.random() < 0.5:
        # shuffle, keeping the relative order of the precedence levels
        idx = [i for i, d in enumerate(decls)]
        rng.shuffle(idx)
        sh = [decls[i] for i in idx]
        precs_in_order = [d for d in decls if d[0] == "prec"]
        it = iter(precs_in_order)
        decls = [next(it) if d[0] == "prec" else d for d in sh]
    o.w(lay.gap(False))
    for d in decls:
        if d[0] == "token":
            o.w("%token")
            first = True
            for n in d[1]:
                # a bare name is what %token is for, but quoted spellings are legal too
                o.w(lay.gap(True, newline_ok=not first))
                sp, _, _ = put_token(n)
                seen_token(n, sp[0], sp[1], directive=True)
                first = False
            o.w(lay.gap(True))
        elif d[0] == "prec":
            a, ts = ag["precs"][d[1]]
            o.w("%" + a)
            for n in ts:
                o.w(lay.gap(True, newline_ok=False))
                sp, _, _ = put_token(n)
                exp["precs"][n] = (d[1], a, sp)
            o.w(lay.gap(True, must_newline=True))
        elif d[0] == "start":
            o.w("%start")
            o.w(lay.gap(True, newline_ok=False))
            exp["start"] = (ag["start"], (o.pos, o.pos + blen(ag["start"])))
            o.w(ag["start"])
            o.w(lay.gap(True))
        elif d[0] == "epp":
            t, v = d[1]
            o.w("%epp")
            o.w(lay.gap(True, newline_ok=False))
            sp, outer, _ = put_token(t)
            o.w(lay.gap(True, newline_ok=False))
            q = rng.choice("'\"")
            body = ""
            for c in v:
                if c == q or (c in "'\"" and rng.random() < 0.3):
                    body += "\\" + c
                else:
                    body += c
            vs = o.pos
            o.w(q + body + q)
            exp["epp"][t] = (sp, outer, v, (vs, o.pos))
            o.w(lay.gap(True))
        elif d[0] in ("expect", "expectrr"):
            o.w("%expect" if d[0] == "expect" else "%expect-rr")
            o.w(lay.gap(True, newline_ok=False))
            txt = str(ag[d[0]])
            if rng.random() < 0.2:
                txt = "00" + txt
            exp[d[0]] = (ag[d[0]], (o.pos, o.pos + len(txt)))
            o.w(txt)
            o.w(lay.gap(True))
        elif d[0] == "actiontype":
            o.w("%actiontype")
            o.w(lay.gap(True, newline_ok=False))
            o.w(ag["actiontype"])
            o.w(lay.after_type("O"))        # blanks / a comment here are NOT layout to the parser (known finding)
            o.w(lay.nl)                     # the value runs to the end of the line
            o.w(lay.gap(False))
        elif d[0] == "parse_param":
            n, ty = ag["parse_param"]
            o.w("%parse-param")
            o.w(lay.gap(True, newline_ok=False))
            o.w(n + rng.choice(["", " ", "\t"]) + ":")
            o.w(lay.gap(False, newline_ok=False))
            o.w(ty + lay.nl)
            o.w(lay.gap(False))
            exp["parse_param"] = (n, ty)
        elif d[0] == "parse_generics":
            o.w("%parse-generics")
            o.w(lay.gap(True, newline_ok=False))
            o.w(ag["parse_generics"] + lay.nl)
            o.w(lay.gap(False))
            exp["parse_generics"] = ag["parse_generics"]
        elif d[0] in ("avoid_insert", "implicit_tokens"):
            o.w("%" + d[0])
            key = "avoid" if d[0] == "avoid_insert" else "implicit"
            exp[key] = {}
            for n in ag[d[0]]:
                o.w(lay.gap(True, newline_ok=False))
                sp, _, _ = put_token(n)
                seen_token(n, sp[0], sp[1])
                exp[key][n] = sp
            o.w(lay.gap(True, must_newline=True))
    exp["pp_pos"] = o.pos                  # where the declarations end
    o.w("%%")
    o.w(lay.gap(False))
    # ---- rules ---------------------------------------------------------------
    rule_index = {}
    for r in ag["rules"]:
        ns = (o.pos, o.pos + blen(r["name"]))
        o.w(r["name"])
        if exp["start"] is None:
            exp["start"] = (r["name"], ns)
        if r["name"] not in rule_index:
            rule_index[r["name"]] = len(exp["rules"])
            at = r["actiont"] if kind == "G" else ag["actiontype"]
            exp["rules"].append({"name": r["name"], "span": ns, "actiont": at, "pidxs": []})
        if kind == "G":
            o.w(lay.gap(False))
            o.w("->")
            o.w(lay.gap(False))
            o.w(r["actiont"])
            o.w(lay.after_type("G"))        # blanks are trimmed; a comment is kept in the type (known finding)
        else:
            o.w(lay.gap(False))
        o.w(":")
        np_ = len(r["prods"])
        for pi, p in enumerate(r["prods"]):
            o.w(lay.gap(False))
            items = []        # (start, end) of every production item except the action
            syms = []
            prev_ident = False
            first_start = None
            if p["empty_kw"] and not p["syms"]:
                items.append((o.pos, o.pos + 6))
                o.w("%empty")
                o.w(lay.gap(False))
            for (k, n) in p["syms"]:
                if k == "R":
                    if prev_ident:
                        o.w(lay.gap(True) or " ")
                    s = o.pos
                    o.w(n)
                    items.append((s, o.pos))
                    syms.append(("R", n, (s, o.pos)))
                    prev_ident = True
                    g = lay.gap(False)
                    o.w(g)
                    if g:
                        prev_ident = False
                else:
                    # peek: a bare spelling after an identifier needs a separator
                    if prev_ident:
                        o.w(lay.gap(True) or " ")
                    sp, outer, quoted = put_token(n, can_bare=(n in declared))
                    seen_token(n, sp[0], sp[1])
                    items.append(outer)
                    syms.append(("T", n, sp))
                    prev_ident = not quoted
                    g = lay.gap(False)
                    o.w(g)
                    if g:
                        prev_ident = False
            if p["prec"]:
                s = o.pos
                o.w("%prec")
                # "%prec" directly followed by an identifier would still be read as %prec + name
                o.w(lay.gap(True))
                sp, outer, quoted = put_token(p["prec"])
                seen_token(p["prec"], sp[0], sp[1])
                items.append((s, outer[1]))
                g = lay.gap(False)
                o.w(g)
            act = None
            act_brace = None
            if p["action"] is not None:
                if items and lay.style != "dense" and rng.random() < 0.35:
                    o.w(lay.pre_action())
                if items and o.pos > items[-1][1]:
                    lay.pre_action_layout += 1
                atext = neutralised(p["action"]) if lay.neutral else p["action"]
                act_brace = o.pos
                pad1 = rng.choice(["", " ", "\n", "\t ", "  "]) if lay.style != "dense" else ""
                pad2 = rng.choice(["", " ", "\n", " \t"]) if lay.style != "dense" else ""
                o.w("{" + pad1)
                s = o.pos
                o.w(atext)
                act = (atext, (s, o.pos), pad1, o.pos + blen(pad2))
                o.w(pad2 + "}")
                o.w(lay.gap(False))
            term = o.pos
            o.w("|" if pi + 1 < np_ else ";")
            pidx = len(exp["prods"])
            exp["rules"][rule_index[r["name"]]]["pidxs"].append(pidx)
            exp["prods"].append({"syms": syms, "prec": p["prec"], "action": act, "items": items,
                                 "after": act_brace if act_brace is not None else term})
        o.w(lay.gap(False))
    if ag["programs"] is not None:
        o.w("%%")
        o.w(lay.gap(False))
        o.w(ag["programs"])
        exp["programs"] = ag["programs"]
    return o.text(), exp


# --------------------------------------------------------------------------
# the oracle: transcript of the implementation vs the expectation
# --------------------------------------------------------------------------
def unx(h):
    assert h.startswith("x"), h
    return bytes.fromhex(h[1:]).decode("utf-8")


def parse_transcript(line):
    """decode a transcript line of harness/src/bin/c10yp.rs (or of the model driver)"""
    secs = line.split(" # ")
    t = {"head": secs[0], "errors": [], "start": None, "rules": [], "prods": [], "tokens": [], "precs": [],
         "avoid": None, "implicit": None, "epp": [], "expect": None, "expectrr": None, "pp": None, "pg": None,
         "programs": None, "eu": [], "warnings": [], "other": []}
    for s in secs[1:]:
        f = s.split(" ")
        k = f[0]
        if k == "E":
            name = f[1]
            arg = None
            if ":" in name:
                name, a = name.split(":", 1)
                arg = a
            t["errors"].append((name, arg, [int(x) for x in f[2:]]))
        elif k == "START":
            t["start"] = None if f[1] == "-" else (unx(f[1]), (int(f[2]), int(f[3])))
        elif k == "RULE":
            t["rules"].append({"name": unx(f[1]), "span": (int(f[2]), int(f[3])),
                               "actiont": None if f[4] == "-" else unx(f[4]),
                               "pidxs": [] if f[5] == "-" else [int(x) for x in f[5].split(",")]})
        elif k == "PROD":
            i = 1
            prec = None if f[i] == "-" else unx(f[i])
            i += 1
            if f[i] == "-":
                action = None
                i += 1
            else:
                action = (unx(f[i]), (int(f[i + 1]), int(f[i + 2])))
                i += 3
            span = (int(f[i]), int(f[i + 1]))
            i += 2
            syms = []
            while i < len(f):
                syms.append((f[i], unx(f[i + 1]), (int(f[i + 2]), int(f[i + 3]))))
                i += 4
            t["prods"].append({"prec": prec, "action": action, "span": span, "syms": syms})
        elif k == "TOK":
            t["tokens"].append((unx(f[1]), (int(f[2]), int(f[3])) if f[2] != "?" else None, f[4] == "D"))
        elif k == "PREC":
            t["precs"].append((unx(f[1]), int(f[2]), f[3], (int(f[4]), int(f[5]))))
        elif k == "AVOID":
            t["avoid"] = None if f[1] == "-" else []
        elif k == "AI":
            t["avoid"].append((unx(f[1]), (int(f[2]), int(f[3]))))
        elif k == "IMPL":
            t["implicit"] = None if f[1] == "-" else []
        elif k == "IT":
            t["implicit"].append((unx(f[1]), (int(f[2]), int(f[3]))))
        elif k == "EPP":
            t["epp"].append((unx(f[1]), (int(f[2]), int(f[3])), unx(f[4]), (int(f[5]), int(f[6]))))
        elif k in ("EXPECT", "EXPECTRR"):
            t["expect" if k == "EXPECT" else "expectrr"] = (int(f[1], 16), (int(f[2]), int(f[3])))
        elif k == "PP":
            t["pp"] = (unx(f[1]), unx(f[2]))
        elif k == "PG":
            t["pg"] = unx(f[1])
        elif k == "PROGS":
            t["programs"] = unx(f[1])
        elif k == "EU":
            t["eu"].append(f[1:])
        elif k == "W":
            t["warnings"].append(f[1:])
        else:
            t["other"].append(s)
    return t


ASSOC = {"left": "L", "right": "R", "nonassoc": "N"}


def oracle(text, exp, tr, prod_span_fixed=True):
    """list of (class, detail) differences between what the text denotes (exp)
    and what the implementation built (tr = parsed transcript).  Classes:
    'result' (not OK), 'content' (names/order/symbols/...), 'span' (a span does
    not select its defining text), 'action-span'."""
    b = text.encode("utf-8")

    def sel(sp):
        try:
            return b[sp[0]:sp[1]].decode("utf-8")
        except Exception:
            return None

    d = []
    if tr["head"] != "OK":
        d.append(("result", "parser reported %s %s" % (tr["head"], tr["errors"][:3])))
        return d
    if tr["other"]:
        d.append(("content", "unexpected sections %s" % tr["other"]))
    # start
    if tr["start"] is None or tr["start"][0] != exp["start"][0]:
        d.append(("content", "start rule %r, expected %r" % (tr["start"], exp["start"][0])))
    elif tr["start"][1] != exp["start"][1]:
        d.append(("span", "start span %r selects %r" % (tr["start"][1], sel(tr["start"][1]))))
    # rules
    if [r["name"] for r in tr["rules"]] != [r["name"] for r in exp["rules"]]:
        d.append(("content", "rules %r expected %r" % ([r["name"] for r in tr["rules"]], [r["name"] for r in exp["rules"]])))
    else:
        for a, e in zip(tr["rules"], exp["rules"]):
            if a["pidxs"] != e["pidxs"]:
                d.append(("content", "rule %s productions %r expected %r" % (a["name"], a["pidxs"], e["pidxs"])))
            if a["actiont"] != e["actiont"]:
                d.append(("actiontype", "rule %s action type %r expected %r" % (a["name"], a["actiont"], e["actiont"])))
            if a["span"] != e["span"]:
                d.append(("span", "rule %s span %r selects %r" % (a["name"], a["span"], sel(a["span"]))))
    # productions
    if len(tr["prods"]) != len(exp["prods"]):
        d.append(("content", "%d productions expected %d" % (len(tr["prods"]), len(exp["prods"]))))
    else:
        for pi, (a, e) in enumerate(zip(tr["prods"], exp["prods"])):
            if [(k, n) for k, n, _ in a["syms"]] != [(k, n) for k, n, _ in e["syms"]]:
                d.append(("content", "production %d symbols %r expected %r" % (pi, [(k, n) for k, n, _ in a["syms"]], [(k, n) for k, n, _ in e["syms"]])))
            else:
                for (k, n, sp), (_, _, esp) in zip(a["syms"], e["syms"]):
                    if sp != esp:
                        d.append(("span", "production %d symbol %s span %r selects %r" % (pi, n, sp, sel(sp))))
            if a["prec"] != e["prec"]:
                d.append(("content", "production %d %%prec %r expected %r" % (pi, a["prec"], e["prec"])))
            ea = e["action"]
            if (a["action"] is None) != (ea is None) or (ea is not None and a["action"][0] != ea[0]):
                d.append(("content", "production %d action %r expected %r" % (pi, a["action"], ea and ea[0])))
            elif ea is not None and ea[0] == "" and a["action"][1][0] == a["action"][1][1] and \
                    ea[1][0] - blen(ea[2]) <= a["action"][1][0] <= ea[3]:
                pass            # an empty action: any empty span between the braces selects it
            elif ea is not None and a["action"][1] != ea[1]:
                d.append(("action-span", "production %d action span %r selects %r, the action text %r is at %r"
                          % (pi, a["action"][1], sel(a["action"][1]), ea[0], ea[1])))
            # production span: starts at the first item and ends where the last item (%empty, symbol,
            # %prec TOKEN) ends, with or without an action (/repo 69c4b9b; before it an action's brace
            # ended the span); without items it is empty, at the action's brace / the terminator
            s, en = a["span"]
            items = e["items"]
            if items:
                end = items[-1][1] if (prod_span_fixed or ea is None) else e["after"]
                ok = s == items[0][0] and en == end
            else:
                ok = s == en and s <= e["after"] and (en == e["after"])
            if not ok:
                d.append(("span", "production %d span %r selects %r; items at %r, followed at %d" % (pi, a["span"], sel(a["span"]), items, e["after"])))
    # tokens
    if [n for n, _, _ in tr["tokens"]] != exp["tokens"]:
        d.append(("content", "tokens %r expected %r" % ([n for n, _, _ in tr["tokens"]], exp["tokens"])))
    else:
        for n, sp, dr in tr["tokens"]:
            if sp != exp["tokspan"][n]:
                d.append(("span", "token %r span %r selects %r" % (n, sp, sp and sel(sp))))
            if dr != (n in exp["tokdir"]):
                d.append(("content", "token %r %%token-declared flag %r" % (n, dr)))
    # precedences
    got = {n: (lvl, k, sp) for n, lvl, k, sp in tr["precs"]}
    want = {n: (lvl, ASSOC[a], sp) for n, (lvl, a, sp) in exp["precs"].items()}
    if {n: v[:2] for n, v in got.items()} != {n: v[:2] for n, v in want.items()} or len(got) != len(tr["precs"]):
        d.append(("content", "precedences %r expected %r" % (sorted(got.items()), sorted(want.items()))))
    else:
        for n in got:
            if got[n][2] != want[n][2]:
                d.append(("span", "precedence of %r span %r selects %r" % (n, got[n][2], sel(got[n][2]))))
    for key, name in (("avoid", "%avoid_insert"), ("implicit", "%implicit_tokens")):
        g = None if tr[key] is None else dict(tr[key])
        if (g is None) != (exp[key] is None) or (g is not None and set(g) != set(exp[key])):
            d.append(("content", "%s %r expected %r" % (name, g, exp[key])))
        elif g is not None:
            for n in g:
                if g[n] != exp[key][n]:
                    d.append(("span", "%s %r span %r selects %r" % (name, n, g[n], sel(g[n]))))
    g = {n: (ks, v, vs) for n, ks, v, vs in tr["epp"]}
    if {n: v[1] for n, v in g.items()} != {n: v[2] for n, v in exp["epp"].items()}:
        d.append(("content", "%%epp %r expected %r" % (g, exp["epp"])))
    else:
        for n in g:
            inner, outer, _, vsp = exp["epp"][n]
            if g[n][0] not in (inner, outer):
                d.append(("span", "%%epp key %r span %r selects %r" % (n, g[n][0], sel(g[n][0]))))
            if g[n][2] != vsp:
                d.append(("span", "%%epp value of %r span %r selects %r" % (n, g[n][2], sel(g[n][2]))))
    for key in ("expect", "expectrr"):
        if (tr[key] is None) != (exp[key] is None) or (tr[key] is not None and tr[key][0] != exp[key][0]):
            d.append(("content", "%%%s %r expected %r" % (key, tr[key], exp[key])))
        elif tr[key] is not None and tr[key][1] != exp[key][1]:
            d.append(("span", "%%%s span %r selects %r" % (key, tr[key][1], sel(tr[key][1]))))
    if tr["pp"] != exp["parse_param"]:
        d.append(("content", "%%parse-param %r expected %r" % (tr["pp"], exp["parse_param"])))
    if tr["pg"] != exp["parse_generics"]:
        d.append(("content", "%%parse-generics %r expected %r" % (tr["pg"], exp["parse_generics"])))
    if tr["programs"] != exp["programs"]:
        d.append(("content", "programs %r expected %r" % (tr["programs"], exp["programs"])))
    return d


# --------------------------------------------------------------------------
# mutations (shared with the totality part)
# --------------------------------------------------------------------------
MUT_CHARS = ["'", '"', "{", "}", "%", "/", "*", ":", ";", "|", "\n", "\r", " ", "\\", "é", "→", "\U0001F600", "-", ">",
             "0", "9", "a", ".", "%%", "/*", "*/", "//", "%prec ", "%empty ", "%token ", "%left ", "%epp ", "%start ",
             "%expect ", "%avoid_insert ", "%expect-unused ", "99999999999999999999", "%actiontype ", "%parse-param ",
             "%implicit_tokens ", "->", "::"]


def mutate(rng, text):
    k = rng.random()
    n = len(text)
    if n == 0:
        return rng.choice(MUT_CHARS)
    if k < 0.3:
        return text[:rng.randint(0, n)]                         # truncation
    p = rng.randint(0, n)
    if k < 0.5:
        return text[:p] + rng.choice(MUT_CHARS) + text[p:]      # insertion
    if k < 0.7:
        q = min(n, p + rng.randint(1, 3))
        return text[:p] + text[q:]                              # deletion
    if k < 0.85:
        q = min(n, p + 1)
        return text[:p] + rng.choice(MUT_CHARS) + text[q:]      # replacement
    if k < 0.93:
        q = rng.randint(0, n)
        a, b_ = min(p, q), max(p, q)
        return text[:a] + text[b_:] + text[a:b_]                # move a chunk to the end
    return text[:p] + text[p:p + 10] + text[p:]                 # duplication
