"""Grammar families aimed at the grammar analyses (C17): unit cycles, nullable
symbols between a rule and what follows it, unreachable / unproductive rules,
non-recursive (finite maximum) grammars, and token-cost functions."""
from gen.grammars import Gram, TOK, RUL, random_grammar


def t(x):
    return ('t', x)


def r(x):
    return ('r', x)


def corpus():
    """hand-written corner cases (the first four are the DESIGN §9 inputs)"""
    gs = []
    gs.append(Gram("abc", [("S", [[r("A"), r("B"), t("c")]]), ("A", [[t("a")]]), ("B", [[t("b")], []])]))
    gs.append(Gram("x", [("A", [[r("B")]]), ("B", [[r("A")], [t("x")]])]))
    gs.append(Gram("x", [("A", [[r("A")], [t("x")]])]))
    gs.append(Gram("a", [("S", [[t("a")] * 3, [r("B")]]), ("B", [[r("C")]]), ("C", [[t("a")] * 5])]))
    # nullable chains between a rule and the following token / rule / end
    gs.append(Gram("abcd", [("S", [[r("A"), r("N"), r("M"), t("d")], [r("A"), r("N"), r("B")]]),
                            ("A", [[t("a")]]), ("B", [[t("b")]]), ("N", [[], [t("c")]]), ("M", [[], [r("N")]])]))
    gs.append(Gram("ab", [("S", [[r("A"), r("N"), r("N")]]), ("A", [[t("a")], [r("A"), t("b")]]), ("N", [[]])]))
    # unproductive and unreachable rules
    gs.append(Gram("xy", [("S", [[t("x")], [r("U")]]), ("U", [[r("U"), t("y")]])]))
    gs.append(Gram("x", [("S", [[t("x")], [r("U")]]), ("U", [[r("U")]])]))
    gs.append(Gram("abx", [("S", [[t("a")]]), ("X", [[r("S"), t("b")], [r("Y"), t("x")]]), ("Y", [[r("S")]])]))
    # recursion without growth / with growth
    gs.append(Gram("xy", [("S", [[r("A"), t("y")]]), ("A", [[r("A"), r("N")], [t("x")]]), ("N", [[]])]))
    gs.append(Gram("ab", [("S", [[r("S"), t("a")], [t("b")]])]))
    gs.append(Gram("ab", [("S", [[r("A"), r("A")]]), ("A", [[t("a")], [t("b")]])]))
    gs.append(Gram("ab", [("S", [[t("a")], [r("B")]]), ("B", [[r("C")]]), ("C", [[r("C"), t("b")], [t("a")]])]))
    gs.append(Gram("ab", [("S", [[r("A"), t("b")]]), ("A", [[t("a")], []])]))
    return gs


def unit_cyclic(rng):
    """rules linked by unit productions in a cycle, each possibly with other alternatives"""
    k = rng.randint(1, 4)
    names = RUL[:k]
    toks = list(TOK[:rng.randint(1, 3)])
    extra = [n for n in RUL[k:k + rng.randint(0, 2)]]
    rules = []
    for i, n in enumerate(names):
        alts = [[r(names[(i + 1) % k])]]
        if rng.random() < 0.3 and extra:
            alts[0] = alts[0] + [r(rng.choice(extra))]          # cycle through a (maybe nullable) sibling
        for _ in range(rng.randint(0, 2)):
            ln = rng.randint(0, 3)
            alts.append([t(rng.choice(toks)) if rng.random() < 0.7 else r(rng.choice(names + extra)) for _ in range(ln)])
        rules.append((n, _uniq(alts)))
    if not any(any(all(k2 == 't' for k2, _ in a) for a in alts) for _, alts in rules):
        rules[-1][1].append([t(rng.choice(toks))])
    for n in extra:
        alts = [[]] if rng.random() < 0.6 else []
        alts.append([t(rng.choice(toks))] if rng.random() < 0.7 else [])
        rules.append((n, _uniq(alts)))
    return Gram(toks, rules)


def _uniq(alts):
    u = []
    for a in alts:
        if a not in u:
            u.append(a)
    return u


def nullable_between(rng):
    """S: … X N1 … Nk y …  with nullable Ni between a rule X and the symbol y that follows"""
    toks = list(TOK[:rng.randint(2, 4)])
    nn = rng.randint(1, 3)
    nulls = ["N%d" % i for i in range(nn)]
    body = ["A", "B"][:rng.randint(1, 2)]
    rules = []
    salts = []
    for _ in range(rng.randint(1, 3)):
        a = [r(rng.choice(body))]
        for _ in range(rng.randint(1, 3)):
            a.append(r(rng.choice(nulls)))
        c = rng.random()
        if c < 0.5:
            a.append(t(rng.choice(toks)))
        elif c < 0.8:
            a.append(r(rng.choice(body)))
        if rng.random() < 0.3:
            a.insert(0, r(rng.choice(nulls)))
        salts.append(a)
    rules.append(("S", _uniq(salts)))
    for b in body:
        alts = [[t(rng.choice(toks))]]
        if rng.random() < 0.4:
            alts.append([r(b), t(rng.choice(toks))] if rng.random() < 0.5 else [t(rng.choice(toks)), r("S")])
        rules.append((b, _uniq(alts)))
    for i, n in enumerate(nulls):
        alts = [[]]
        if rng.random() < 0.6:
            alts.append([t(rng.choice(toks))])
        if rng.random() < 0.4 and i + 1 < nn:
            alts.append([r(nulls[i + 1])])
        if rng.random() < 0.2:
            alts = [[r(m) for m in rng.sample(nulls[i + 1:], min(len(nulls[i + 1:]), 2))]] if nulls[i + 1:] else [[]]
        rules.append((n, _uniq(alts)))
    return Gram(toks, rules)


def dag(rng):
    """non-recursive grammar: rule i only mentions rules > i (finite maxima), declared in a
    random order so that users are sometimes listed before and sometimes after what they use"""
    k = rng.randint(2, 6)
    names = RUL[:k]
    toks = list(TOK[:rng.randint(1, 3)])
    rules = []
    for i, n in enumerate(names):
        alts = []
        for _ in range(rng.randint(1, 3)):
            ln = rng.randint(0 if rng.random() < 0.2 else 1, 4)
            a = []
            for _ in range(ln):
                if i + 1 < k and rng.random() < 0.5:
                    a.append(r(rng.choice(names[i + 1:])))
                else:
                    a.append(t(rng.choice(toks)))
            alts.append(a)
        rules.append((n, _uniq(alts)))
    order = rules[1:]
    if rng.random() < 0.6:
        rng.shuffle(order)
    return Gram(toks, [rules[0]] + order, start=names[0])


def with_unreachable(rng):
    """a random grammar plus rules that the start rule cannot reach but that mention reachable rules"""
    g = random_grammar(rng, nrules=rng.randint(1, 3))
    names = g.rule_names()
    toks = g.tokens
    extra = []
    for n in ["X", "Y"][:rng.randint(1, 2)]:
        alts = []
        for _ in range(rng.randint(1, 2)):
            ln = rng.randint(1, 4)
            alts.append([t(rng.choice(toks)) if rng.random() < 0.45 else r(rng.choice(names + ["X"])) for _ in range(ln)])
        extra.append((n, _uniq(alts)))
    rules = [(n, [a for a, _ in ps]) for n, ps in g.rules] + extra
    known = {n for n, _ in rules}
    rules = [(n, [[s for s in a if s[0] == 't' or s[1] in known] for a in alts]) for n, alts in rules]
    return Gram(toks, [(n, _uniq(alts)) for n, alts in rules], start=g.start)


def costs_for(rng, g):
    """token name -> cost in 1..255; sometimes uniform or a narrow range (ties between sentences)"""
    c = rng.random()
    if c < 0.2:
        return {x: 1 for x in g.tokens}
    if c < 0.45:
        return {x: rng.randint(1, 3) for x in g.tokens}
    if c < 0.55:
        return {x: rng.choice([1, 255, 254, 128]) for x in g.tokens}
    return {x: rng.randint(1, 255) for x in g.tokens}
