"""C11 — generator of abstract lexer specifications and of their textual renderings.

An abstract spec is what the user MEANS:
  states : [(name, exclusive)]                 declared start states (INITIAL = id 0 is implicit)
  rules  : [Rule]                              in source order
  Rule   : name (str | None = skip rule), pre (list of state names), target (None | (state name, op)),
           atoms (list of (written, meant)): `written` is what goes into the .l text, `meant` is the
           regex-crate expression the generator means by it (its OWN definition of lex escaping:
           a backslash before a character that is special neither to lex nor to the regex engine
           stands for that character; `\\b` is backspace under posix_escapes and a word boundary otherwise).
A rendering fixes the layout: %grmtools section (flags), declaration lines, spacing, quoting style,
comments (only when allow_wholeline_comments is on), line separators, the optional closing `%%`.
The expected observations (names, span texts, state ids, targets, kinds, meant regexes) are computed
from the abstract spec alone.
"""

FLAG_NAMES = {"dnl": "dot_matches_new_line", "ml": "multi_line", "oct": "octal", "pe": "posix_escapes",
              "awc": "allow_wholeline_comments", "ci": "case_insensitive", "sg": "swap_greed",
              "iw": "ignore_whitespace", "uni": "unicode"}

META = set("\\.+*?()|[]{}^$#&-~")
# characters c for which `\c` is "special neither to lex nor to the regex engine": stands for c
# (8 and 9 are not octal digits: `\8`, `\9` are escapes neither of lex nor of the regex engine)
PLAIN_ESC = ['"', "'", "<", ">", ",", ";", "%", "!", "=", "@", "_", "/", ":", "`", "é", "♠", "😀", "q", "h", "y", "g", "ß", "Ω", "8", "9"]
MULTI = ["é", "♠", "😀", "ß", "Ω"]
LETTERS = list("abcxyz019")
# char::is_whitespace = what the regex crate skips (outside AND inside classes) when ignore_whitespace is on.
# Under that flag these characters are special to the regex engine: `\c` must keep meaning c.
RX_WS_ALL = [chr(c) for c in [9, 10, 11, 12, 13, 32, 0x85, 0xA0, 0x1680] + list(range(0x2000, 0x200B)) + [0x2028, 0x2029, 0x202F, 0x205F, 0x3000]]
LINE_SEPS = set("\n\x0b\r\u2028\u2029")
# ... those that can stand inside a rule line (the others end the line)
RX_WS = [c for c in RX_WS_ALL if c not in LINE_SEPS]
RX_WS_ASCII = [c for c in RX_WS if ord(c) < 128]                 # the regex crate accepts `\c` for these
RX_WS_COMMON = [" ", " ", "\t", "\x0c", "\x85", "\xa0", "\u3000", "\u2003"]
# Pattern_White_Space characters that are neither blanks (space, tab) nor line separators: they do not separate a regex
# from its name, so a regex may END in one of them (parser.rs trim_end_unescaped trims space and tab only)
TRAIL_WS = ["\x0c", "\x85", "\u200e", "\u200f"]
# escapes that only the repaired RE_LEX_ESC_LITERAL keeps: \B and the braced hexadecimal forms (written == meant)
NEW_ESC_PLAIN = ["\\B", "\\x{41}", "\\x{7a}", "\\u{e9}", "\\U{1F600}", "\\x{2}", "\\u{3b1}"]
NEW_ESC_CLASS = ["[\\x{41}-\\x{43}]", "[^\\u{e9}]", "[\\U{1F600}a]", "[a\\x{7a}\\x{2d}]", "[\\u{3b1}-\\u{3c9}]"]


def has_new_escape(written):
    """does `written` contain `\\B` or a braced `\\x{` `\\u{` `\\U{` (the class of the escape-table defect)"""
    i = 0
    while i + 1 < len(written):
        if written[i] == "\\":
            if written[i + 1] == "B" or (written[i + 1] in "xuU" and written[i + 2:i + 3] == "{"):
                return True
            i += 2
        else:
            i += 1
    return False


# `\8` / `\9` next to octal escapes and inside classes: (written, meant)
DIGIT_ESC = [("\\18", "\\1\\x{38}"), ("\\78", "\\7\\x{38}"), ("\\09", "\\0\\x{39}"), ("[\\8\\9]", "[89]"), ("[^\\9a]", "[^9a]"),
             ("[0-\\8]", "[0-8]"), ("\\8\\9", "\\x{38}\\x{39}"), ("\\1019", "\\101\\x{39}"), ("(\\9|q)", "(9|q)")]


def has_nonoctal_escape(written):
    """does `written` contain `\8` or `\9` (the class of the digit defect of the escape table)"""
    return any(c in "89" for c in escaped_chars(written))


def ends_in_trail_ws(written):
    """does the written regex end in FF / NEL / LRM / RLM (bare or escaped): the class of the trimming defect"""
    return written != "" and written[-1] in TRAIL_WS


def escaped_chars(written):
    """the characters that stand behind an (unescaped) backslash in `written`"""
    out, i = [], 0
    while i < len(written):
        if written[i] == "\\" and i + 1 < len(written):
            out.append(written[i + 1])
            i += 2
        else:
            i += 1
    return out


def has_escaped_ws(written):
    """does `written` contain `\\c` with c white space to the regex engine (the class of the ignore_whitespace defect)"""
    return any(c in RX_WS_ALL for c in escaped_chars(written))


def lit(c):
    """regex-crate expression for the single character c, independent of flags such as x-mode"""
    return "\\x{%X}" % ord(c)


class Rule:
    def __init__(self, name, pre, target, atoms):
        self.name, self.pre, self.target, self.atoms = name, pre, target, atoms

    def written(self):
        return "".join(a[0] for a in self.atoms)

    def meant(self):
        return "".join(a[1] for a in self.atoms)


def ws_atom(rng):
    """an atom built on an escaped white-space character (or `\\#`): plain, quantified group, or inside a class.
    `meant` spells the character as \\x{..}, which no flag changes."""
    c = rng.choice(RX_WS_COMMON if rng.random() < 0.7 else RX_WS)
    k = rng.random()
    if k < 0.45:
        return ("\\" + c, lit(c))
    if k < 0.60:
        o = rng.choice(LETTERS)
        return ("[\\" + c + o + "]", "[" + lit(c) + o + "]")
    if k < 0.70:
        return ("[^\\" + c + "]", "[^" + lit(c) + "]")
    if k < 0.78:
        o = rng.choice(LETTERS)
        return ("[" + o + "\\" + c + "\\#]", "[" + o + lit(c) + "\\#]")
    if k < 0.86:
        return ("(\\" + c + "|q)", "(" + lit(c) + "|q)")
    if k < 0.93:
        return ("\\#", "\\#")
    return ("[\\#y]", "[\\#y]")


def gen_atoms(rng, flags, allow_space=True):
    pe = flags.get("pe", False)
    # escaped white space: often when ignore_whitespace is on (there it is special to the regex engine), sometimes otherwise
    p_ws = 0.30 if flags.get("iw") else 0.05
    atoms = []
    n = rng.randint(1, 5)
    for k in range(n):
        r = rng.random()
        if rng.random() < p_ws:
            a = ws_atom(rng)
        elif r < 0.22:
            c = rng.choice(LETTERS)
            a = (c, c)
        elif r < 0.34:
            c = rng.choice(MULTI)
            a = (c, c)
        elif r < 0.58:
            c = rng.choice(PLAIN_ESC)
            a = ("\\" + c, lit(c))
        elif r < 0.66:
            c = rng.choice(sorted(META))
            a = ("\\" + c, "\\" + c)
        elif r < 0.685:
            e = rng.choice(NEW_ESC_PLAIN if rng.random() < 0.6 else NEW_ESC_CLASS)
            a = (e, e)
        elif r < 0.70:
            a = rng.choice(DIGIT_ESC)
        elif r < 0.76:
            e = rng.choice(["\\d", "\\w", "\\s", "\\n", "\\t", "\\x41", "\\101", "\\u00e9", "\\pL", "\\a", "\\f", "\\r", "\\v", "\\D", "\\S", "\\W", "\\x7a"])
            a = (e, e)
        elif r < 0.82:
            a = ("\\b", "\\x08" if pe else "\\b")
        elif r < 0.90:
            e = rng.choice(["[a-c]", "[^x]", ".", "(ab|c)", "[é♠]", "(a|é)", "[0-9]", "x?", "[\\]a]", "[\\\"b]" if False else "[b\\-c]"])
            a = (e, e)
        elif r < 0.95 and allow_space and 0 < k < n - 1:
            a = (" ", " ")                     # a bare space inside a regex (the line is split at the LAST space)
        else:
            a = ("\\ ", lit(" "))              # an escaped space (also as the last atom: trailing escaped space)
        atoms.append(a)
        if rng.random() < 0.2 and a[0] not in (" ",) and not a[0].endswith("\\b") and not a[0].endswith("\\B"):
            q = rng.choice(["+", "*", "?"])
            atoms.append((q, q))
    # a regex ending in a form feed, NEL, LRM or RLM — bare (the regex engine decides what it means under the flags) or escaped
    if rng.random() < 0.08:
        c = rng.choice(TRAIL_WS)
        atoms.append((c, c) if rng.random() < 0.6 else ("\\" + c, lit(c)))
    # a regex must not start with an unescaped '<' (start-state prefix), whitespace (verbatim) or '//'
    w = "".join(a[0] for a in atoms)
    if w[0] in " <" or w[0] in TRAIL_WS or w.startswith("//") or w[0] in "+*?":
        atoms.insert(0, ("\\<", lit("<")))
    return atoms


def gen_spec(rng, flags, nstates=None, nrules=None, prefix_escapes=True):
    ns = rng.choice([0, 0, 1, 2, 3]) if nstates is None else nstates
    pool = ["A", "B", "Cc", "s_1", "X.y", "Str", "k9"]
    rng.shuffle(pool)
    states = [(pool[i], rng.random() < 0.5) for i in range(ns)]
    allst = ["INITIAL"] + [s[0] for s in states]
    rules = []
    nr = rng.randint(1, 5) if nrules is None else nrules
    used = set()
    for i in range(nr):
        if rng.random() < 0.25:
            name = None
        else:
            while True:
                name = rng.choice(["ID", "T", "é", "a'b", 'q"r', "Tok_%d" % i, "<x>", "+", "İ", "N%d" % i, ";;"]) + ("" if rng.random() < 0.7 else str(i))
                if name not in used:
                    break
            used.add(name)
        pre = []
        if len(allst) > 1 and rng.random() < 0.45:
            pre = rng.sample(allst, rng.randint(1, min(3, len(allst))))
        target = None
        if len(allst) > 1 and rng.random() < 0.4:
            target = (rng.choice(allst), rng.choice(["R", "+", "-"]))
        atoms = gen_atoms(rng, flags)
        if pre and not prefix_escapes:
            # keep rules with a start-state prefix free of atoms that need lex-escape rewriting
            atoms = [a for a in atoms if a[0] == a[1]] or [("a", "a")]
            if atoms[0][0] in "+*? ":
                atoms.insert(0, ("a", "a"))
            while atoms[-1][0] == " ":
                atoms.pop()
        rules.append(Rule(name, pre, target, atoms))
    return states, rules


HEADER_STYLES = 6
LINESEPS = ["\n", "\n", "\n", "\r\n", "\n\n", " ", "\x0b", "\r"]


def render_header(rng, flags, style):
    """flags: dict short name -> bool.  style None = no section at all."""
    if style is None:
        return ""
    items = []
    for k, v in flags.items():
        name = FLAG_NAMES[k]
        # header keys are case-insensitive, in the negated form too (`!Dot_Matches_New_Line`)
        c = rng.random()
        if c < 0.12:
            name = name.upper()
        elif c < 0.24:
            name = name.title()
        elif c < 0.32:
            name = "".join(ch.upper() if rng.random() < 0.5 else ch for ch in name)
        items.append(("" if v else "!") + name)
    rng.shuffle(items)
    sep = rng.choice([",", ", ", " ,\n  ", ",\t"])
    body = sep.join(items)
    if items and rng.random() < 0.3:
        body += ","
    pre = rng.choice(["", "", "\n", "  ", "\n\t "])
    lb = rng.choice(["{", " {", "\n{", "{ ", "{\n  "])
    rb = rng.choice(["}", " }", "\n}"])
    post = rng.choice(["\n", "\n", " \n", "\n\n", "", " "])
    return pre + "%grmtools" + lb + body + rb + post


def render(rng, states, rules, flags, header_style, comments=None, closing=None, weird_seps=True, multi_blank=None):
    """returns (text, exp) with exp = expected observations of the abstract spec.
    multi_blank: may the names of a declaration be separated by several blanks (None = at random)"""
    if multi_blank is None:
        multi_blank = rng.random() < 0.5
    used_multi = False
    awc = flags.get("awc", False)
    if comments is None:
        comments = awc and rng.random() < 0.7
    seps = LINESEPS if weird_seps else ["\n"]
    out = [render_header(rng, flags, header_style)]

    def nl():
        return rng.choice(seps)

    def comment():
        if comments and awc and rng.random() < 0.5:
            out.append("// " + rng.choice(["comment", "%% not a separator", "é ♠ 'x'", "<A>a 'T'"]) + nl())

    # declarations: group consecutive states of the same kind at random
    comment()
    i = 0
    while i < len(states):
        excl = states[i][1]
        j = i + 1
        while j < len(states) and states[j][1] == excl and rng.random() < 0.6:
            j += 1
        kw = "%" + rng.choice(["x", "X", "xstate", "X9"] if excl else ["s", "S", "start", "Sx"])
        line = kw
        for k, (n, _) in enumerate(states[i:j]):
            # names are separated by one or more blanks (any Pattern_White_Space that does not end the line)
            if k == 0:
                sep = rng.choice([" ", "  ", "\t", " \t "])
            elif multi_blank:
                sep = rng.choice([" ", "  ", "\t", " \t ", "\t\t", " \x0c", "\x85 ", "   "])
            else:
                sep = rng.choice([" ", "\t"])
            used_multi = used_multi or (k > 0 and len(sep) > 1)
            line += sep + n
        line += rng.choice(["", "", " ", "\t"])
        out.append(line + nl())
        comment()
        i = j
    out.append("%%" + rng.choice(["", "", " ", "\t "]) + nl())
    for r in rules:
        comment()
        line = ""
        if r.pre:
            line += "<" + rng.choice([",", ", ", " , "]).join(r.pre) + ">"
        line += r.written()
        line += rng.choice([" ", " ", "  ", "\t", " \t"])
        if r.target is not None:
            st, op = r.target
            line += "<" + {"R": "", "+": "+", "-": "-"}[op] + st + ">"
        if r.name is None:
            line += rng.choice([";", '""', "''"])
        else:
            q = rng.choice(["'", '"'])
            line += q + r.name + q
        line += rng.choice(["", "", " ", "\t", "  "])
        out.append(line + nl())
    comment()
    if closing is None:
        closing = rng.random() < 0.3
    if closing:
        out.append("%%" + rng.choice(["", "\n", " \n\n"]))
    elif rng.random() < 0.2 and out[-1].endswith("\n"):
        out[-1] = out[-1][:-1]                  # no final newline
    text = "".join(out)
    ids = {"INITIAL": 0}
    for k, (n, _) in enumerate(states):
        ids[n] = k + 1
    exp = {
        "rules": [{"name": r.name, "pre": [ids[s] for s in r.pre],
                   "target": None if r.target is None else (ids[r.target[0]], r.target[1]),
                   "written": r.written(), "meant": r.meant(), "has_prefix": bool(r.pre),
                   "iw_esc": has_escaped_ws(r.written())} for r in rules],
        "states": [("INITIAL", False)] + list(states),
        "multi_blank": used_multi,
    }
    return text, exp


def flag_str(flags):
    if not flags:
        return "-"
    return ",".join("%s:%d" % (k, 1 if v else 0) for k, v in sorted(flags.items()))


def gen_flags(rng, allow_iw=False):
    fl = {}
    for k in ["dnl", "ml", "oct", "pe", "awc", "ci", "sg", "uni"] + (["iw"] if allow_iw else []):
        if rng.random() < 0.25:
            fl[k] = rng.random() < 0.6
    if fl.get("uni") is False:
        del fl["uni"]              # generated regexes contain non-ASCII literals and \pL
    if fl.get("oct") is False:
        del fl["oct"]              # atoms use \101
    return fl


# ---- flag probes: (flags, rules as (regex, named), inputs) whose lexing depends on one flag -------
FLAG_PROBES = [
    ("dnl", [(".", True)], ["a\nb", "\n"]),
    ("ml", [("a$", True), ("\\n", False), ("^b", True), ("[ab]", True)], ["a\nb", "ab", "b\nb"]),
    ("ci", [("abc", True), ("[A-Z]", True)], ["ABC", "abc", "aBc"]),
    ("iw", [("a b", True), ("ab", True), ("\\x20", False)], ["ab", "a b"]),
    ("oct", [("\\101", True), ("a", True)], ["A", "a"]),
    ("sg", [("a+", True), ("a*b", True)], ["aaa", "aab"]),
    ("uni", [("\\w", True), ("[a-z]", True)], ["é", "a", "aé"]),
    ("pe", [("\\b", True), ("a", True)], ["\x08", "a\x08a"]),
]
