//! gvh — shared observation code of the Rust side of the correspondence checks.
//! One binary per observation kind lives in src/bin/; cases are read from stdin
//! (one per line), one canonical result line per case is written to stdout.
pub mod common;
pub mod util;

/// Panics of the implementation are outcomes; keep stderr quiet unless asked.
pub fn quiet_panics() {
    if std::env::var("GVH_VERBOSE_PANIC").is_err() {
        std::panic::set_hook(Box::new(|_| {}));
    }
}
