//! Shared observation code: building grammars/tables from text, dumping them
//! through public accessors only, a lexer that replays a given token list.
#![allow(dead_code)]
use cfgrammar::yacc::{AssocKind, YaccGrammar, YaccKind, YaccOriginalActionKind};
use cfgrammar::{PIdx, RIdx, Span, Symbol, TIdx};
use lrlex::{DefaultLexeme, DefaultLexerTypes, LRLexError};
use lrpar::{Lexeme, Lexer, NonStreamingLexer};
use lrtable::{from_yacc, Action, Minimiser, StIdx, StateGraph, StateTable};
use std::fmt::Write;

pub type LT = DefaultLexerTypes<u32>;
pub type Lx = DefaultLexeme<u32>;

pub fn unhex(s: &str) -> String {
    let b: Vec<u8> = (0..s.len() / 2)
        .map(|i| u8::from_str_radix(&s[2 * i..2 * i + 2], 16).expect("hex"))
        .collect();
    String::from_utf8(b).expect("utf8")
}

pub fn hex(s: &str) -> String {
    s.bytes().map(|b| format!("{:02x}", b)).collect()
}

pub fn yacckind(code: &str) -> YaccKind {
    match code {
        "O" => YaccKind::Original(YaccOriginalActionKind::GenericParseTree),
        "N" => YaccKind::Original(YaccOriginalActionKind::NoAction),
        "U" => YaccKind::Original(YaccOriginalActionKind::UserAction),
        "G" => YaccKind::Grmtools,
        "E" => YaccKind::Eco,
        _ => panic!("bad yacckind code"),
    }
}

pub fn sym_code(s: &Symbol<u32>) -> usize {
    match s {
        Symbol::Token(t) => 2 * usize::from(*t),
        Symbol::Rule(r) => 2 * usize::from(*r) + 1,
    }
}

pub fn assoc_code(a: AssocKind) -> u32 {
    match a {
        AssocKind::Left => 0,
        AssocKind::Right => 1,
        AssocKind::Nonassoc => 2,
    }
}

/// ` # `-separated sections describing the grammar: G, P*, TP*, PP*
pub fn dump_grammar(grm: &YaccGrammar<u32>) -> String {
    let mut o = String::new();
    write!(
        o,
        "G {} {} {} {}",
        usize::from(grm.tokens_len()),
        usize::from(grm.rules_len()),
        usize::from(grm.eof_token_idx()),
        usize::from(grm.start_prod())
    )
    .unwrap();
    for pidx in grm.iter_pidxs() {
        write!(o, " # P {}", usize::from(grm.prod_to_rule(pidx))).unwrap();
        for s in grm.prod(pidx) {
            write!(o, " {}", sym_code(s)).unwrap();
        }
    }
    for tidx in grm.iter_tidxs() {
        if let Some(n) = grm.token_name(tidx) {
            write!(o, " # TN {} {}", usize::from(tidx), hex(n)).unwrap();
        }
    }
    for ridx in grm.iter_rules() {
        write!(o, " # RN {} {}", usize::from(ridx), hex(grm.rule_name_str(ridx))).unwrap();
    }
    for tidx in grm.iter_tidxs() {
        if let Some(p) = grm.token_precedence(tidx) {
            write!(o, " # TP {} {} {}", usize::from(tidx), p.level, assoc_code(p.kind)).unwrap();
        }
    }
    for pidx in grm.iter_pidxs() {
        if let Some(p) = grm.prod_precedence(pidx) {
            write!(o, " # PP {} {} {}", usize::from(pidx), p.level, assoc_code(p.kind)).unwrap();
        }
    }
    o
}

macro_rules! dump_itemset {
    ($o:expr, $tag:expr, $st:expr, $is:expr) => {{
        let mut items: Vec<(usize, usize, Vec<usize>)> = $is
            .items
            .iter()
            .map(|((p, d), ctx)| (usize::from(*p), usize::from(*d), ctx.iter_set_bits(..).collect()))
            .collect();
        items.sort();
        for (p, d, la) in items {
            write!($o, " # {} {} {} {}", $tag, $st, p, d).unwrap();
            for a in la {
                write!($o, " {}", a).unwrap();
            }
        }
    }};
}

/// ` # `-separated sections describing graph and table: N, C*, K*, E*, A*, T*
pub fn dump_automaton(grm: &YaccGrammar<u32>, sg: &StateGraph<u32>, st: &StateTable<u32>) -> String {
    let mut o = String::new();
    let n = usize::from(sg.all_states_len());
    write!(o, "N {} {}", n, usize::from(st.start_state())).unwrap();
    if usize::from(sg.start_state()) != usize::from(st.start_state()) {
        write!(o, " # STARTMISMATCH").unwrap();
    }
    for stidx in sg.iter_stidxs() {
        let s = usize::from(stidx);
        dump_itemset!(o, "C", s, sg.closed_state(stidx));
        dump_itemset!(o, "K", s, sg.core_state(stidx));
        let mut es: Vec<(usize, usize)> =
            sg.edges(stidx).iter().map(|(sym, t)| (sym_code(sym), usize::from(*t))).collect();
        es.sort();
        for (sy, t) in es {
            write!(o, " # E {} {} {}", s, sy, t).unwrap();
        }
        for tidx in grm.iter_tidxs() {
            match st.action(stidx, tidx) {
                Action::Shift(t) => write!(o, " # A {} {} S {}", s, usize::from(tidx), usize::from(t)).unwrap(),
                Action::Reduce(p) => write!(o, " # A {} {} R {}", s, usize::from(tidx), usize::from(p)).unwrap(),
                Action::Accept => write!(o, " # A {} {} A", s, usize::from(tidx)).unwrap(),
                Action::Error => {}
            }
        }
        for ridx in grm.iter_rules() {
            if let Some(t) = st.goto(stidx, ridx) {
                write!(o, " # T {} {} {}", s, usize::from(ridx), usize::from(t)).unwrap();
            }
        }
    }
    o
}

pub struct Built {
    pub grm: YaccGrammar<u32>,
    pub sg: StateGraph<u32>,
    pub st: StateTable<u32>,
}

pub fn build(kind: &str, src: &str) -> Result<Built, String> {
    let grm = YaccGrammar::<u32>::new_with_storaget(yacckind(kind), src)
        .map_err(|e| format!("GRMERR {}", e.iter().map(|x| format!("{}", x)).collect::<Vec<_>>().join("; ").replace('\n', " ")))?;
    let (sg, st) = from_yacc(&grm, Minimiser::Pager).map_err(|e| format!("TBLERR {}", e))?;
    Ok(Built { grm, sg, st })
}

/// A lexer that replays a token list: lexeme i has span (2i, 2i+1), so that the
/// synthetic end-of-input lexeme (zero length, at the END of the last lexeme)
/// has an odd start (or start 0 when the input is empty).
///
/// SINGLE-SHOT: `lrpar::Lexer::iter` is documented as giving no guarantees when it is called more
/// than once on a lexer (a streaming lexer hands its lexemes out on the first call only).  The
/// first `iter()` call of a `ReplayLexer` object yields the lexemes, any later call panics, so that
/// code under observation that walks the lexer twice cannot go unnoticed.
///
/// `faulty[i]` (missing = false) makes lexeme i a LEXER-SUPPLIED faulty lexeme
/// (`Lexeme::new_faulty`, public API: a lexer doing its own error handling may produce them).
pub struct ReplayLexer {
    pub toks: Vec<u32>,
    pub spans: Option<Vec<(usize, usize)>>,
    pub faulty: Vec<bool>,
    iterated: std::cell::Cell<bool>,
}

pub const ITER_TWICE_MSG: &str = "harness lexer iterated twice (Lexer::iter gives no guarantees on a second call)";

impl ReplayLexer {
    pub fn new(toks: Vec<u32>) -> Self {
        ReplayLexer { toks, spans: None, faulty: Vec::new(), iterated: std::cell::Cell::new(false) }
    }
    pub fn with_spans(toks: Vec<u32>, spans: Vec<(usize, usize)>) -> Self {
        ReplayLexer { toks, spans: Some(spans), faulty: Vec::new(), iterated: std::cell::Cell::new(false) }
    }
    /// mark the lexemes whose flag is set as faulty (lexer-supplied `Lexeme::new_faulty`)
    pub fn with_faulty(mut self, faulty: Vec<bool>) -> Self {
        self.faulty = faulty;
        self
    }
}

/// lexeme index denoted by a (real or synthetic-EOF) lexeme of a ReplayLexer without explicit spans
pub fn lexeme_index(l: &Lx) -> usize {
    let s = l.span().start();
    if l.span().len() == 0 {
        // synthetic EOF or an inserted lexeme: placed at start of next real lexeme (even) or at the end (odd)
        (s + 1) / 2
    } else {
        s / 2
    }
}

impl Lexer<LT> for ReplayLexer {
    fn iter<'a>(&'a self) -> Box<dyn Iterator<Item = Result<Lx, LRLexError>> + 'a> {
        if self.iterated.replace(true) {
            panic!("{}", ITER_TWICE_MSG);
        }
        let spans = self.spans.clone();
        Box::new(self.toks.iter().enumerate().map(move |(i, t)| {
            let (st, len) = match &spans {
                Some(sp) => (sp[i].0, sp[i].1 - sp[i].0),
                None => (2 * i, 1),
            };
            if self.faulty.get(i).copied().unwrap_or(false) {
                Ok(Lx::new_faulty(*t, st, len))
            } else {
                Ok(Lx::new(*t, st, len))
            }
        }))
    }
}

impl<'input> NonStreamingLexer<'input, LT> for ReplayLexer {
    fn span_str(&self, _span: Span) -> &'input str {
        ""
    }
    fn span_lines_str(&self, _span: Span) -> &'input str {
        ""
    }
    fn line_col(&self, span: Span) -> ((usize, usize), (usize, usize)) {
        ((1, span.start() + 1), (1, span.end() + 1))
    }
}

/// canonical generic tree: `(ridx kid kid …)` / `[tok idx]`
#[derive(Clone, Debug)]
pub enum Tree {
    Term(u32, usize, usize, bool),
    Nonterm(u32, Vec<Tree>),
}

impl Tree {
    pub fn pp(&self, o: &mut String) {
        match self {
            Tree::Term(t, st, len, faulty) => {
                let idx = if *len == 0 { (st + 1) / 2 } else { st / 2 };
                if *faulty {
                    write!(o, "[{} {} f]", t, idx).unwrap()
                } else {
                    write!(o, "[{} {}]", t, idx).unwrap()
                }
            }
            Tree::Nonterm(r, kids) => {
                write!(o, "({}", r).unwrap();
                for k in kids {
                    o.push(' ');
                    k.pp(o);
                }
                o.push(')');
            }
        }
    }
}

pub fn parse_tokens(s: &str) -> Vec<u32> {
    s.split_whitespace().map(|t| t.parse::<u32>().expect("tok")).collect()
}

pub fn pidx(p: usize) -> PIdx<u32> {
    PIdx(p as u32)
}
pub fn ridx(p: usize) -> RIdx<u32> {
    RIdx(p as u32)
}
pub fn tidx(p: usize) -> TIdx<u32> {
    TIdx(p as u32)
}
pub fn stidx_us(s: StIdx<u32>) -> usize {
    usize::from(s)
}
