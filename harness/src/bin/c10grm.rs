//! C10 (a): AST -> indexed grammar.
//! case line:  `<kind> <hexsrc>`   kind = O N U G E (gvh::common::yacckind)
//! result line: `<AST dump> @@ <accessor transcript> @@ <span texts>`, each a ` # `-separated list
//! of sections; or `INVALID <n errors> @@ <ERR|OK|P>` when the AST is not valid (then
//! new_from_ast_with_validity_info must return Err).  Text fields are `x<hex>`, absent = `-`,
//! a panic of the call = `P`.
//!
//! AST dump (public fields of `ASTWithValidityInfo::ast()`):
//!   K <kind>                         | ST x<name> <s> <e>  /  ST -
//!   R x<key> x<name> <s> <e> <actiont> <pidx>*            rules in IndexMap order
//!   D <s> <e> <prec> <action> <as> <ae> {r|t}x<name>:<s>:<e>*   productions in Vec order
//!   T x<name> <s> <e>                tokens in IndexSet order with ast.spans[i]
//!   PR x<name> <level> <assoc> <s> <e>   (sorted by name)      EPP x<name> x<val> <ks> <ke> <vs> <ve> (sorted)
//!   AI - / AI x<name>:<s>:<e>* (sorted)    IT - / IT x<name>* (sorted)    ITO - / ITO x<name>* (iteration order)
//!   EX - / EX <n> <s> <e>   EXRR likewise   PP - / PP x<n> x<t>   PG   PROG   NSPANS <len of ast.spans>
//! Transcript: every YaccGrammar accessor on every valid index, see `observe`.
use cfgrammar::yacc::ast::{ASTWithValidityInfo, GrammarAST, Symbol as ASym};
use cfgrammar::yacc::{Precedence, YaccGrammar};
use cfgrammar::Span;
use gvh::common::*;
use gvh::util::*;
use std::fmt::Write;
use std::panic::AssertUnwindSafe as AUS;

fn xh(s: &str) -> String {
    format!("x{}", hex(s))
}
fn oxh(s: &Option<String>) -> String {
    match s {
        Some(s) => xh(s),
        None => "-".to_string(),
    }
}

fn dump_ast(kind: &str, ast: &GrammarAST) -> String {
    let mut o = String::new();
    write!(o, "K {}", kind).unwrap();
    match &ast.start {
        Some((n, sp)) => write!(o, " # ST {} {} {}", xh(n), sp.start(), sp.end()).unwrap(),
        None => write!(o, " # ST -").unwrap(),
    }
    for (k, r) in &ast.rules {
        write!(o, " # R {} {} {} {} {}", xh(k), xh(&r.name.0), r.name.1.start(), r.name.1.end(), oxh(&r.actiont)).unwrap();
        for p in &r.pidxs {
            write!(o, " {}", p).unwrap();
        }
    }
    for p in &ast.prods {
        write!(o, " # D {} {} {}", p.prod_span.start(), p.prod_span.end(), oxh(&p.precedence)).unwrap();
        match &p.action {
            Some((a, sp)) => write!(o, " {} {} {}", xh(a), sp.start(), sp.end()).unwrap(),
            None => write!(o, " - 0 0").unwrap(),
        }
        for s in &p.symbols {
            match s {
                ASym::Rule(n, sp) => write!(o, " r{}:{}:{}", xh(n), sp.start(), sp.end()).unwrap(),
                ASym::Token(n, sp) => write!(o, " t{}:{}:{}", xh(n), sp.start(), sp.end()).unwrap(),
            }
        }
    }
    for (i, t) in ast.tokens.iter().enumerate() {
        match ast.spans.get(i) {
            Some(sp) => write!(o, " # T {} {} {}", xh(t), sp.start(), sp.end()).unwrap(),
            None => write!(o, " # T {} P P", xh(t)).unwrap(),
        }
    }
    write!(o, " # NSPANS {}", ast.spans.len()).unwrap();
    let mut precs: Vec<_> = ast.precs.iter().collect();
    precs.sort_by(|a, b| a.0.cmp(b.0));
    for (n, (p, sp)) in precs {
        write!(o, " # PR {} {} {} {} {}", xh(n), p.level, assoc_code(p.kind), sp.start(), sp.end()).unwrap();
    }
    let mut epp: Vec<_> = ast.epp.iter().collect();
    epp.sort_by(|a, b| a.0.cmp(b.0));
    for (n, (ks, (v, vs))) in epp {
        write!(o, " # EPP {} {} {} {} {} {}", xh(n), xh(v), ks.start(), ks.end(), vs.start(), vs.end()).unwrap();
    }
    match &ast.avoid_insert {
        None => write!(o, " # AI -").unwrap(),
        Some(m) => {
            let mut v: Vec<_> = m.iter().collect();
            v.sort_by(|a, b| a.0.cmp(b.0));
            write!(o, " # AI").unwrap();
            for (n, sp) in v {
                write!(o, " {}:{}:{}", xh(n), sp.start(), sp.end()).unwrap();
            }
        }
    }
    match &ast.implicit_tokens {
        None => write!(o, " # IT - # ITO -").unwrap(),
        Some(m) => {
            let mut v: Vec<_> = m.keys().collect();
            v.sort();
            write!(o, " # IT").unwrap();
            for n in v {
                write!(o, " {}", xh(n)).unwrap();
            }
            // the iteration order of this very HashMap (must NOT influence the grammar object)
            write!(o, " # ITO").unwrap();
            for n in m.keys() {
                write!(o, " {}", xh(n)).unwrap();
            }
        }
    }
    match &ast.expect {
        Some((n, sp)) => write!(o, " # EX {} {} {}", n, sp.start(), sp.end()).unwrap(),
        None => write!(o, " # EX -").unwrap(),
    }
    match &ast.expectrr {
        Some((n, sp)) => write!(o, " # EXRR {} {} {}", n, sp.start(), sp.end()).unwrap(),
        None => write!(o, " # EXRR -").unwrap(),
    }
    match &ast.parse_param {
        Some((n, t)) => write!(o, " # PP {} {}", xh(n), xh(t)).unwrap(),
        None => write!(o, " # PP -").unwrap(),
    }
    write!(o, " # PG {} # PROG {}", oxh(&ast.parse_generics), oxh(&ast.programs)).unwrap();
    o
}

fn prec_s(p: Option<Precedence>) -> String {
    match p {
        Some(p) => format!("{} {}", p.level, assoc_code(p.kind)),
        None => "-".to_string(),
    }
}

fn span_s(sp: Span) -> String {
    format!("{} {}", sp.start(), sp.end())
}

fn span_text(src: &str, sp: Span) -> String {
    match src.get(sp.start()..sp.end()) {
        Some(t) => xh(t),
        None => "!".to_string(),
    }
}

macro_rules! call {
    ($e:expr) => {
        catch(AUS(|| $e))
    };
}

/// every accessor on every valid index; `txt` receives the text each span selects
fn observe(grm: &YaccGrammar<u32>, src: &str, txt: &mut String) -> String {
    let mut o = String::new();
    let rl = usize::from(grm.rules_len());
    let pl = usize::from(grm.prods_len());
    let tl = usize::from(grm.tokens_len());
    write!(o, "LEN {} {} {}", rl, pl, tl).unwrap();
    write!(o, " # EOF {}", usize::from(grm.eof_token_idx())).unwrap();
    write!(o, " # SP {}", usize::from(grm.start_prod())).unwrap();
    match call!(grm.start_rule_idx()) {
        Ok(r) => write!(o, " # SR {}", usize::from(r)).unwrap(),
        Err(_) => write!(o, " # SR P").unwrap(),
    }
    match grm.implicit_rule() {
        Some(r) => write!(o, " # IR {}", usize::from(r)).unwrap(),
        None => write!(o, " # IR -").unwrap(),
    }
    write!(o, " # IRS").unwrap();
    for r in grm.iter_rules() {
        write!(o, " {}", usize::from(r)).unwrap();
    }
    write!(o, " # IPS").unwrap();
    for p in grm.iter_pidxs() {
        write!(o, " {}", usize::from(p)).unwrap();
    }
    write!(o, " # ITS").unwrap();
    for t in grm.iter_tidxs() {
        write!(o, " {}", usize::from(t)).unwrap();
    }
    write!(txt, "X").unwrap();
    for i in 0..rl {
        let r = ridx(i);
        match call!(grm.rule_name_str(r).to_string()) {
            Ok(n) => {
                write!(o, " # RN {} {}", i, xh(&n)).unwrap();
                match call!(grm.rule_idx(&n)) {
                    Ok(Some(j)) => write!(o, " # RI {} {}", i, usize::from(j)).unwrap(),
                    Ok(None) => write!(o, " # RI {} -", i).unwrap(),
                    Err(_) => write!(o, " # RI {} P", i).unwrap(),
                }
            }
            Err(_) => write!(o, " # RN {} P", i).unwrap(),
        }
        match call!(grm.rule_name_span(r)) {
            Ok(sp) => {
                write!(o, " # RS {} {}", i, span_s(sp)).unwrap();
                write!(txt, " # XR {} {}", i, span_text(src, sp)).unwrap();
            }
            Err(_) => write!(o, " # RS {} P", i).unwrap(),
        }
        match call!(grm.rule_to_prods(r).to_vec()) {
            Ok(ps) => {
                write!(o, " # RP {}", i).unwrap();
                for p in ps {
                    write!(o, " {}", usize::from(p)).unwrap();
                }
            }
            Err(_) => write!(o, " # RP {} P", i).unwrap(),
        }
        match call!(grm.actiontype(r).clone()) {
            Ok(a) => write!(o, " # AT {} {}", i, oxh(&a)).unwrap(),
            Err(_) => write!(o, " # AT {} P", i).unwrap(),
        }
    }
    for i in 0..pl {
        let p = pidx(i);
        match call!(grm.prod(p).to_vec()) {
            Ok(syms) => {
                write!(o, " # PD {}", i).unwrap();
                for s in &syms {
                    write!(o, " {}", sym_code(s)).unwrap();
                }
            }
            Err(_) => write!(o, " # PD {} P", i).unwrap(),
        }
        match call!(grm.prod_len(p)) {
            Ok(l) => write!(o, " # PL {} {}", i, usize::from(l)).unwrap(),
            Err(_) => write!(o, " # PL {} P", i).unwrap(),
        }
        match call!(grm.prod_to_rule(p)) {
            Ok(r) => write!(o, " # PR {} {}", i, usize::from(r)).unwrap(),
            Err(_) => write!(o, " # PR {} P", i).unwrap(),
        }
        match call!(grm.prod_precedence(p)) {
            Ok(x) => write!(o, " # PP {} {}", i, prec_s(x)).unwrap(),
            Err(_) => write!(o, " # PP {} P", i).unwrap(),
        }
        match call!(grm.prod_span(p)) {
            Ok(sp) => {
                write!(o, " # PS {} {}", i, span_s(sp)).unwrap();
                write!(txt, " # XP {} {}", i, span_text(src, sp)).unwrap();
            }
            Err(_) => write!(o, " # PS {} P", i).unwrap(),
        }
        match call!(grm.action(p).clone()) {
            Ok(a) => write!(o, " # AC {} {}", i, oxh(&a)).unwrap(),
            Err(_) => write!(o, " # AC {} P", i).unwrap(),
        }
        match call!(grm.action_span(p)) {
            Ok(Some(sp)) => {
                write!(o, " # AS {} {}", i, span_s(sp)).unwrap();
                write!(txt, " # XA {} {}", i, span_text(src, sp)).unwrap();
            }
            Ok(None) => write!(o, " # AS {} -", i).unwrap(),
            Err(_) => write!(o, " # AS {} P", i).unwrap(),
        }
    }
    for i in 0..tl {
        let t = tidx(i);
        match call!(grm.token_name(t).map(|x| x.to_string())) {
            Ok(Some(n)) => {
                write!(o, " # TN {} {}", i, xh(&n)).unwrap();
                match call!(grm.token_idx(&n)) {
                    Ok(Some(j)) => write!(o, " # TI {} {}", i, usize::from(j)).unwrap(),
                    Ok(None) => write!(o, " # TI {} -", i).unwrap(),
                    Err(_) => write!(o, " # TI {} P", i).unwrap(),
                }
            }
            Ok(None) => write!(o, " # TN {} -", i).unwrap(),
            Err(_) => write!(o, " # TN {} P", i).unwrap(),
        }
        match call!(grm.token_precedence(t)) {
            Ok(x) => write!(o, " # TP {} {}", i, prec_s(x)).unwrap(),
            Err(_) => write!(o, " # TP {} P", i).unwrap(),
        }
        match call!(grm.token_epp(t).map(|x| x.to_string())) {
            Ok(x) => write!(o, " # TE {} {}", i, oxh(&x)).unwrap(),
            Err(_) => write!(o, " # TE {} P", i).unwrap(),
        }
        match call!(grm.token_span(t)) {
            Ok(Some(sp)) => {
                write!(o, " # TS {} {}", i, span_s(sp)).unwrap();
                write!(txt, " # XT {} {}", i, span_text(src, sp)).unwrap();
            }
            Ok(None) => write!(o, " # TS {} -", i).unwrap(),
            Err(_) => write!(o, " # TS {} P", i).unwrap(),
        }
        match call!(grm.avoid_insert(t)) {
            Ok(b) => write!(o, " # AV {} {}", i, b as u8).unwrap(),
            Err(_) => write!(o, " # AV {} P", i).unwrap(),
        }
    }
    match call!({
        let mut v: Vec<(usize, String)> = grm.tokens_map().iter().map(|(n, t)| (usize::from(*t), n.to_string())).collect();
        v.sort();
        v
    }) {
        Ok(v) => {
            write!(o, " # TM").unwrap();
            for (t, n) in v {
                write!(o, " {}:{}", t, xh(&n)).unwrap();
            }
        }
        Err(_) => write!(o, " # TM P").unwrap(),
    }
    match grm.expect() {
        Some(n) => write!(o, " # EX {}", n).unwrap(),
        None => write!(o, " # EX -").unwrap(),
    }
    match grm.expectrr() {
        Some(n) => write!(o, " # EXRR {}", n).unwrap(),
        None => write!(o, " # EXRR -").unwrap(),
    }
    match grm.parse_param() {
        Some((n, t)) => write!(o, " # PPM {} {}", xh(n), xh(t)).unwrap(),
        None => write!(o, " # PPM -").unwrap(),
    }
    write!(o, " # PG {} # PROG {}", oxh(grm.parse_generics()), oxh(grm.programs())).unwrap();
    o
}

fn main() {
    gvh::quiet_panics();
    for_each_case(|line| {
        let mut it = line.split_whitespace();
        let kind = it.next().unwrap_or("O").to_string();
        let src = match it.next() {
            Some("-") | None => String::new(),
            Some(h) => unhex(h),
        };
        let av = match catch(AUS(|| ASTWithValidityInfo::new(yacckind(&kind), &src))) {
            Ok(a) => a,
            Err(m) => return format!("ASTPANIC {}", m.replace('\n', " ")),
        };
        let built = catch(AUS(|| YaccGrammar::<u32>::new_from_ast_with_validity_info(&av)));
        if !av.is_valid() {
            let r = match &built {
                Ok(Ok(_)) => "OK",
                Ok(Err(_)) => "ERR",
                Err(_) => "P",
            };
            return format!("INVALID {} @@ {}", av.errors().len(), r);
        }
        let astd = dump_ast(&kind, av.ast());
        match built {
            Err(m) => format!("{} @@ BUILDPANIC {}", astd, m.replace('\n', " ")),
            Ok(Err(e)) => format!("{} @@ BUILDERR {}", astd, e.len()),
            Ok(Ok(grm)) => {
                let mut txt = String::new();
                let obs = observe(&grm, &src, &mut txt);
                format!("{} @@ {} @@ {}", astd, obs, txt)
            }
        }
    });
}
