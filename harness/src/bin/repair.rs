//! `repair`: parse inputs with RecoveryKind::CPCTPlus and report every error with ALL its
//! repair sequences, plus the final value tree (C05, C07).
//! case:   `<kind> <hexsrc> ; costs <name>=<cost>* ; <tok name>* ; <tok name>* ...`
//! result: `<grammar dump> # <automaton dump> # X… # KN <PARSE_AT_LEAST> <TRY_PARSE_AT_MOST> <budget ms>
//!          # CO <cost of token 0> <cost of token 1> … # AV <avoid_insert tidx>*`
//!   then per input: `# I <tidx>*` `# ER <lexeme idx> <state> <number of sequences>` followed by one
//!   `# RS <step>*` per sequence (steps `I<tidx>`, `D<lexeme idx>`, `S<lexeme idx>`), …, finally
//!   `# VL acc <tree>` | `# VL none` | `# VL panic <msg>` | `# VL lexerr`, and `# TM <wall ms>`.
//!   `# BO <0|1>` (right after `# I`): the order in which the builder's setters were called for this input,
//!   0 = `.recoverer(..).term_costs(..)`, 1 = `.term_costs(..).recoverer(..)`.  The order is an INPUT of the
//!   harness: 1 iff (index of the input within the case line + number of lexemes of the input) is odd.  The
//!   result must not depend on it (the setters are independent; the models know nothing about an order).
use gvh::common::*;
use gvh::util::*;
use lrpar::{LexParseError, Lexeme, ParseRepair, RTParserBuilder, RecoveryKind};
use std::fmt::Write;

fn conflicts_dump(st: &lrtable::StateTable<u32>) -> String {
    let mut o = String::new();
    match st.conflicts() {
        None => o.push_str("X none"),
        Some(c) => {
            write!(o, "X {} {}", c.sr_len(), c.rr_len()).unwrap();
            let mut sr: Vec<(usize, usize, usize)> =
                c.sr_conflicts().map(|(t, p, s)| (usize::from(*s), usize::from(*t), usize::from(*p))).collect();
            sr.sort();
            for (s, t, p) in sr {
                write!(o, " # XS {} {} {}", s, t, p).unwrap();
            }
            let mut rr: Vec<(usize, usize, usize, usize)> = c
                .rr_conflicts()
                .map(|(t, p1, p2, s)| (usize::from(*s), usize::from(*t), usize::from(*p1), usize::from(*p2)))
                .collect();
            rr.sort();
            for (s, t, p1, p2) in rr {
                write!(o, " # XR {} {} {} {}", s, t, p1, p2).unwrap();
            }
        }
    }
    o
}

fn budget_ms() -> u64 {
    std::env::var("GRMTOOLS_VERIF_RECOVERY_BUDGET_MS").ok().and_then(|v| v.parse::<u64>().ok()).unwrap_or(500)
}

fn parse_with_recovery(b: &Built, toks: &[u32], costs: &[u8], costs_first: bool, o: &mut String) {
    let lexer = ReplayLexer::new(toks.to_vec());
    let t0 = std::time::Instant::now();
    // inserted lexemes must be zero-length and faulty, real ones neither
    let odd = std::cell::Cell::new(0usize);
    // an inserted lexeme sits at the START of the next real lexeme (replay lexer: an even offset 2i); only when it is
    // inserted at the end of the input is it at the end of the last lexeme (odd offset 2n-1, or 0 for the empty input)
    let misplaced = std::cell::Cell::new(0usize);
    let nreal = toks.len();
    let r = catch(std::panic::AssertUnwindSafe(|| {
        let cf = |t: cfgrammar::TIdx<u32>| -> u8 { costs[usize::from(t)] };
        let pb = RTParserBuilder::<u32, LT>::new(&b.grm, &b.st);
        let pb = if costs_first {
            pb.term_costs(&cf).recoverer(RecoveryKind::CPCTPlus)
        } else {
            pb.recoverer(RecoveryKind::CPCTPlus).term_costs(&cf)
        };
        pb.parse_map(
            &lexer,
            &|lexeme: Lx| {
                if lexeme.faulty() != (lexeme.span().len() == 0) {
                    odd.set(odd.get() + 1);
                }
                if lexeme.span().len() == 0 && lexeme.span().start() % 2 == 1 && (lexeme.span().start() + 1) / 2 < nreal {
                    misplaced.set(misplaced.get() + 1);
                }
                Tree::Term(lexeme.tok_id(), lexeme.span().start(), lexeme.span().len(), lexeme.faulty())
            },
            &|ridx, nodes| Tree::Nonterm(u32::from(ridx), nodes),
        )
    }));
    let ms = t0.elapsed().as_millis();
    match r {
        Err(m) => write!(o, " # VL panic {}", m.replace('\n', " ").replace('#', "")).unwrap(),
        Ok((val, errs)) => {
            let mut lexerr = false;
            for e in &errs {
                match e {
                    LexParseError::ParseError(e) => {
                        write!(o, " # ER {} {} {}", lexeme_index(e.lexeme()), usize::from(e.stidx()), e.repairs().len()).unwrap();
                        for seq in e.repairs() {
                            o.push_str(" # RS");
                            for st in seq {
                                match st {
                                    ParseRepair::Insert(t) => write!(o, " I{}", usize::from(*t)).unwrap(),
                                    ParseRepair::Delete(l) => write!(o, " D{}", lexeme_index(l)).unwrap(),
                                    ParseRepair::Shift(l) => write!(o, " S{}", lexeme_index(l)).unwrap(),
                                }
                            }
                        }
                    }
                    LexParseError::LexError(_) => lexerr = true,
                }
            }
            if lexerr {
                o.push_str(" # VL lexerr");
            } else {
                match val {
                    Some(t) => {
                        o.push_str(" # VL acc ");
                        t.pp(o);
                    }
                    None => o.push_str(" # VL none"),
                }
            }
        }
    }
    write!(o, " # ZL {}", odd.get()).unwrap();
    write!(o, " # ZP {}", misplaced.get()).unwrap();
    write!(o, " # TM {}", ms).unwrap();
}

fn main() {
    gvh::quiet_panics();
    for_each_case(move |line| {
        let mut parts = line.split(';');
        let head = parts.next().unwrap();
        let mut hs = head.split_whitespace();
        let kind = hs.next().unwrap().to_string();
        let src = unhex(hs.next().unwrap_or(""));
        let b = match catch(std::panic::AssertUnwindSafe(|| build(&kind, &src))) {
            Err(m) => return format!("BUILDPANIC {}", m.replace('\n', " ")),
            Ok(Err(e)) => return e,
            Ok(Ok(b)) => b,
        };
        let ntoks = usize::from(b.grm.tokens_len());
        let mut costs: Vec<u8> = vec![1; ntoks];
        let cpart = parts.next().unwrap_or("");
        for kv in cpart.split_whitespace().skip(1) {
            if let Some(i) = kv.rfind('=') {
                if let (Some(t), Ok(c)) = (b.grm.token_idx(&kv[..i]), kv[i + 1..].parse::<u8>()) {
                    costs[usize::from(t)] = c;
                }
            }
        }
        let mut o = dump_grammar(&b.grm);
        o.push_str(" # ");
        o.push_str(&dump_automaton(&b.grm, &b.sg, &b.st));
        o.push_str(" # ");
        o.push_str(&conflicts_dump(&b.st));
        write!(
            o,
            " # KN {} {} {}",
            lrpar::verif_hooks::PARSE_AT_LEAST,
            lrpar::verif_hooks::TRY_PARSE_AT_MOST,
            budget_ms()
        )
        .unwrap();
        o.push_str(" # CO");
        for c in &costs {
            write!(o, " {}", c).unwrap();
        }
        o.push_str(" # AV");
        for t in b.grm.iter_tidxs() {
            if b.grm.avoid_insert(t) {
                write!(o, " {}", usize::from(t)).unwrap();
            }
        }
        for (idx, inp) in parts.enumerate() {
            let mut toks: Vec<u32> = Vec::new();
            let mut ok = true;
            for n in inp.split_whitespace() {
                match b.grm.token_idx(n) {
                    Some(t) => toks.push(u32::from(t)),
                    None => ok = false,
                }
            }
            if !ok {
                continue;
            }
            write!(o, " # I").unwrap();
            for t in &toks {
                write!(o, " {}", t).unwrap();
            }
            let costs_first = (idx + toks.len()) % 2 == 1;
            write!(o, " # BO {}", if costs_first { 1 } else { 0 }).unwrap();
            parse_with_recovery(&b, &toks, &costs, costs_first, &mut o);
        }
        o
    });
}
