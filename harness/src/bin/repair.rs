//! `repair`: parse inputs with RecoveryKind::CPCTPlus and report every error with ALL its
//! repair sequences, plus the final value tree (C05, C07).
//! case:   `<kind> <hexsrc> ; costs <name>=<cost>* ; <tok name>* ; <tok name>* ...`
//! result: `<grammar dump> # <automaton dump> # X… # KN <PARSE_AT_LEAST> <TRY_PARSE_AT_MOST> <budget ms>
//!          # CO <cost of token 0> <cost of token 1> … # AV <avoid_insert tidx>*`
//!   then per input: `# I <tidx>*` `# ER <lexeme idx> <state> <number of sequences>` followed by one
//!   `# RS <step>*` per sequence (steps `I<tidx>`, `D<lexeme idx>`, `S<lexeme idx>`), …, finally
//!   `# VL acc <tree>` | `# VL none` | `# VL panic <msg>` | `# VL lexerr`, and `# TM <wall ms>`.
//!   `# BO <0|1>` (right after `# I`): the order in which the builder's setters were called for this input,
//!   0 = `.recoverer(..).term_costs(..)`, 1 = `.term_costs(..).recoverer(..)`.  The order is an INPUT of the
//!   harness: 1 iff (index of the input within the case line + number of lexemes of the input) is odd.  The
//!   result must not depend on it (the setters are independent; the models know nothing about an order).
//!
//! Determinism (C05/C07, /repo ca69cd1): head options after `<hexsrc>`:
//!   `rep=<n>`    every input that reports at least one error is parsed n times in this process; the sections
//!                of the first parse are printed as usual, followed by `# DT <n> <number of repeats whose
//!                sections (TM apart) differ from the first> <max wall ms of a repeat>` and, if one differs,
//!                `# DX <hex of the sections of the first differing repeat>`
//!   `only=i,j,…` parse only the inputs with these indices (the index of an input within the case line — an
//!                input of the BO rule — is kept)
//!   `nodump=1`   print `G` instead of the grammar / automaton / conflict dumps
//!
//! Deep parse stacks (C07/C05, /repo 4f40408): `repair deep <1|2> <depth n> <stack MiB>` (arguments, no stdin)
//! parses ONE input in this process on a thread with an explicit stack of that size and prints one line:
//!   grammar 1 `S: 'a' S 'b' | 'c';` on a^n c c b^n      grammar 2 `S: 'a' S | 'b' 'c' | ;` on a^n b
//!   `DEEP <g> <n> <MiB> # TK a=<tidx> b=<tidx> c=<tidx> # NL <lexemes> # ER … # RS … # VL some|none # LV <runs> # TM <ms>`
//!   LV: the leaves of the returned value in input order, run-length coded `<tidx>:<faulty>:<len>:<start>:<count>`
//!   (a run = consecutive leaves of one token / flag / length whose starts go up by 2).  A native stack overflow
//!   aborts the process (no line, SIGABRT): that is why this mode is a process of its own.
use gvh::common::*;
use gvh::util::*;
use lrpar::{LexParseError, Lexeme, ParseRepair, RTParserBuilder, RecoveryKind};
use std::collections::VecDeque;
use std::fmt::Write;

fn conflicts_dump(st: &lrtable::StateTable<u32>) -> String {
    let mut o = String::new();
    match st.conflicts() {
        None => o.push_str("X none"),
        Some(c) => {
            write!(o, "X {} {}", c.sr_len(), c.rr_len()).unwrap();
            let mut sr: Vec<(usize, usize, usize)> =
                c.sr_conflicts().map(|(t, p, s)| (usize::from(*s), usize::from(*t), usize::from(*p))).collect();
            sr.sort();
            for (s, t, p) in sr {
                write!(o, " # XS {} {} {}", s, t, p).unwrap();
            }
            let mut rr: Vec<(usize, usize, usize, usize)> = c
                .rr_conflicts()
                .map(|(t, p1, p2, s)| (usize::from(*s), usize::from(*t), usize::from(*p1), usize::from(*p2)))
                .collect();
            rr.sort();
            for (s, t, p1, p2) in rr {
                write!(o, " # XR {} {} {} {}", s, t, p1, p2).unwrap();
            }
        }
    }
    o
}

fn budget_ms() -> u64 {
    std::env::var("GRMTOOLS_VERIF_RECOVERY_BUDGET_MS").ok().and_then(|v| v.parse::<u64>().ok()).unwrap_or(500)
}

fn parse_with_recovery(b: &Built, toks: &[u32], costs: &[u8], costs_first: bool, o: &mut String) {
    let lexer = ReplayLexer::new(toks.to_vec());
    let t0 = std::time::Instant::now();
    // inserted lexemes must be zero-length and faulty, real ones neither
    let odd = std::cell::Cell::new(0usize);
    // an inserted lexeme sits at the START of the next real lexeme (replay lexer: an even offset 2i); only when it is
    // inserted at the end of the input is it at the end of the last lexeme (odd offset 2n-1, or 0 for the empty input)
    let misplaced = std::cell::Cell::new(0usize);
    let nreal = toks.len();
    let r = catch(std::panic::AssertUnwindSafe(|| {
        let cf = |t: cfgrammar::TIdx<u32>| -> u8 { costs[usize::from(t)] };
        let pb = RTParserBuilder::<u32, LT>::new(&b.grm, &b.st);
        let pb = if costs_first {
            pb.term_costs(&cf).recoverer(RecoveryKind::CPCTPlus)
        } else {
            pb.recoverer(RecoveryKind::CPCTPlus).term_costs(&cf)
        };
        pb.parse_map(
            &lexer,
            &|lexeme: Lx| {
                if lexeme.faulty() != (lexeme.span().len() == 0) {
                    odd.set(odd.get() + 1);
                }
                if lexeme.span().len() == 0 && lexeme.span().start() % 2 == 1 && (lexeme.span().start() + 1) / 2 < nreal {
                    misplaced.set(misplaced.get() + 1);
                }
                Tree::Term(lexeme.tok_id(), lexeme.span().start(), lexeme.span().len(), lexeme.faulty())
            },
            &|ridx, nodes| Tree::Nonterm(u32::from(ridx), nodes),
        )
    }));
    let ms = t0.elapsed().as_millis();
    match r {
        Err(m) => write!(o, " # VL panic {}", m.replace('\n', " ").replace('#', "")).unwrap(),
        Ok((val, errs)) => {
            let mut lexerr = false;
            for e in &errs {
                match e {
                    LexParseError::ParseError(e) => {
                        write!(o, " # ER {} {} {}", lexeme_index(e.lexeme()), usize::from(e.stidx()), e.repairs().len()).unwrap();
                        for seq in e.repairs() {
                            o.push_str(" # RS");
                            for st in seq {
                                match st {
                                    ParseRepair::Insert(t) => write!(o, " I{}", usize::from(*t)).unwrap(),
                                    ParseRepair::Delete(l) => write!(o, " D{}", lexeme_index(l)).unwrap(),
                                    ParseRepair::Shift(l) => write!(o, " S{}", lexeme_index(l)).unwrap(),
                                }
                            }
                        }
                    }
                    LexParseError::LexError(_) => lexerr = true,
                }
            }
            if lexerr {
                o.push_str(" # VL lexerr");
            } else {
                match val {
                    Some(t) => {
                        o.push_str(" # VL acc ");
                        t.pp(o);
                    }
                    None => o.push_str(" # VL none"),
                }
            }
        }
    }
    write!(o, " # ZL {}", odd.get()).unwrap();
    write!(o, " # ZP {}", misplaced.get()).unwrap();
    write!(o, " # TM {}", ms).unwrap();
}


type Leaf = (u32, usize, usize, bool);

fn errors_dump(errs: &[LexParseError<u32, LT>], cap: usize, o: &mut String) {
    for e in errs {
        match e {
            LexParseError::ParseError(e) => {
                write!(o, " # ER {} {} {}", lexeme_index(e.lexeme()), usize::from(e.stidx()), e.repairs().len()).unwrap();
                for seq in e.repairs().iter().take(cap) {
                    o.push_str(" # RS");
                    for st in seq {
                        match st {
                            ParseRepair::Insert(t) => write!(o, " I{}", usize::from(*t)).unwrap(),
                            ParseRepair::Delete(l) => write!(o, " D{}", lexeme_index(l)).unwrap(),
                            ParseRepair::Shift(l) => write!(o, " S{}", lexeme_index(l)).unwrap(),
                        }
                    }
                }
            }
            LexParseError::LexError(_) => o.push_str(" # LEXERR"),
        }
    }
}

/// one CPCT+ parse whose value is the sequence of its leaves (a deque per subtree, the largest child reused, so that
/// neither building nor dropping the value recurses: the only deep structure is the parser's own)
fn deep_parse(b: &Built, toks: &[u32]) -> String {
    let lexer = ReplayLexer::new(toks.to_vec());
    let t0 = std::time::Instant::now();
    let (val, errs) = RTParserBuilder::<u32, LT>::new(&b.grm, &b.st).recoverer(RecoveryKind::CPCTPlus).parse_map(
        &lexer,
        &|l: Lx| -> VecDeque<Leaf> {
            let mut d = VecDeque::with_capacity(1);
            d.push_back((l.tok_id(), l.span().start(), l.span().len(), l.faulty()));
            d
        },
        &|_ridx, mut nodes: Vec<VecDeque<Leaf>>| -> VecDeque<Leaf> {
            let mut big = 0;
            for (i, n) in nodes.iter().enumerate() {
                if n.len() > nodes[big].len() {
                    big = i;
                }
            }
            if nodes.is_empty() {
                return VecDeque::new();
            }
            let after: Vec<VecDeque<Leaf>> = nodes.drain(big + 1..).collect();
            let mut base = nodes.pop().unwrap();
            for n in nodes.into_iter().rev() {
                for x in n.into_iter().rev() {
                    base.push_front(x);
                }
            }
            for n in after {
                base.extend(n);
            }
            base
        },
    );
    let ms = t0.elapsed().as_millis();
    let mut o = String::new();
    errors_dump(&errs, 16, &mut o);
    match val {
        None => o.push_str(" # VL none"),
        Some(leaves) => {
            o.push_str(" # VL some # LV");
            let mut run: Option<(Leaf, usize)> = None; // first leaf of the run, count
            for lf in leaves.iter() {
                match run {
                    Some((f, k)) if f.0 == lf.0 && f.3 == lf.3 && f.2 == lf.2 && lf.1 == f.1 + 2 * k => run = Some((f, k + 1)),
                    _ => {
                        if let Some((f, k)) = run {
                            write!(o, " {}:{}:{}:{}:{}", f.0, if f.3 { 1 } else { 0 }, f.2, f.1, k).unwrap();
                        }
                        run = Some((*lf, 1));
                    }
                }
            }
            if let Some((f, k)) = run {
                write!(o, " {}:{}:{}:{}:{}", f.0, if f.3 { 1 } else { 0 }, f.2, f.1, k).unwrap();
            }
        }
    }
    write!(o, " # TM {}", ms).unwrap();
    o
}

fn deep_main(args: &[String]) {
    let which: usize = args.first().and_then(|x| x.parse().ok()).unwrap_or(1);
    let n: usize = args.get(1).and_then(|x| x.parse().ok()).unwrap_or(2000);
    let mib: usize = args.get(2).and_then(|x| x.parse().ok()).unwrap_or(2);
    let src = if which == 1 { "%start S\n%%\nS: 'a' S 'b' | 'c';\n" } else { "%start S\n%%\nS: 'a' S | 'b' 'c' | ;\n" };
    let b = match build("O", src) {
        Ok(b) => b,
        Err(e) => {
            println!("DEEPBUILD {}", e);
            return;
        }
    };
    let tk = |s: &str| u32::from(b.grm.token_idx(s).unwrap());
    let (a, bb, c) = (tk("a"), tk("b"), tk("c"));
    let mut toks: Vec<u32> = vec![a; n];
    if which == 1 {
        toks.push(c);
        toks.push(c);
        toks.extend(std::iter::repeat(bb).take(n));
    } else {
        toks.push(bb);
    }
    let nl = toks.len();
    let conflicts = b.st.conflicts().is_some();
    let bref = &b;
    let tref = &toks;
    let r = std::thread::scope(|s| {
        std::thread::Builder::new()
            .stack_size(mib << 20)
            .spawn_scoped(s, move || catch(std::panic::AssertUnwindSafe(|| deep_parse(bref, tref))))
            .unwrap()
            .join()
    });
    let body = match r {
        Ok(Ok(s)) => s,
        Ok(Err(m)) => format!(" # VL panic {}", m.replace('\n', " ").replace('#', "")),
        Err(_) => " # VL panic (thread)".to_string(),
    };
    println!("DEEP {} {} {} # TK a={} b={} c={} # NL {} # CF {}{}", which, n, mib, a, bb, c, nl, if conflicts { 1 } else { 0 }, body);
}

fn main() {
    gvh::quiet_panics();
    let argv: Vec<String> = std::env::args().collect();
    if argv.get(1).map(|x| x.as_str()) == Some("deep") {
        deep_main(&argv[2..]);
        return;
    }
    for_each_case(move |line| {
        let mut parts = line.split(';');
        let head = parts.next().unwrap();
        let mut hs = head.split_whitespace();
        let kind = hs.next().unwrap().to_string();
        let src = unhex(hs.next().unwrap_or(""));
        let (mut rep, mut only, mut nodump): (usize, Option<Vec<usize>>, bool) = (1, None, false);
        for opt in hs {
            if let Some(v) = opt.strip_prefix("rep=") {
                rep = v.parse().unwrap_or(1).max(1);
            } else if let Some(v) = opt.strip_prefix("only=") {
                only = Some(v.split(',').filter_map(|x| x.parse().ok()).collect());
            } else if opt == "nodump=1" {
                nodump = true;
            }
        }
        let b = match catch(std::panic::AssertUnwindSafe(|| build(&kind, &src))) {
            Err(m) => return format!("BUILDPANIC {}", m.replace('\n', " ")),
            Ok(Err(e)) => return e,
            Ok(Ok(b)) => b,
        };
        let ntoks = usize::from(b.grm.tokens_len());
        let mut costs: Vec<u8> = vec![1; ntoks];
        let cpart = parts.next().unwrap_or("");
        for kv in cpart.split_whitespace().skip(1) {
            if let Some(i) = kv.rfind('=') {
                if let (Some(t), Ok(c)) = (b.grm.token_idx(&kv[..i]), kv[i + 1..].parse::<u8>()) {
                    costs[usize::from(t)] = c;
                }
            }
        }
        let mut o = if nodump { "G".to_string() } else { dump_grammar(&b.grm) };
        if !nodump {
            o.push_str(" # ");
            o.push_str(&dump_automaton(&b.grm, &b.sg, &b.st));
            o.push_str(" # ");
            o.push_str(&conflicts_dump(&b.st));
        }
        write!(
            o,
            " # KN {} {} {}",
            lrpar::verif_hooks::PARSE_AT_LEAST,
            lrpar::verif_hooks::TRY_PARSE_AT_MOST,
            budget_ms()
        )
        .unwrap();
        o.push_str(" # CO");
        for c in &costs {
            write!(o, " {}", c).unwrap();
        }
        o.push_str(" # AV");
        for t in b.grm.iter_tidxs() {
            if b.grm.avoid_insert(t) {
                write!(o, " {}", usize::from(t)).unwrap();
            }
        }
        for (idx, inp) in parts.enumerate() {
            let mut toks: Vec<u32> = Vec::new();
            let mut ok = true;
            for n in inp.split_whitespace() {
                match b.grm.token_idx(n) {
                    Some(t) => toks.push(u32::from(t)),
                    None => ok = false,
                }
            }
            if !ok {
                continue;
            }
            if let Some(sel) = &only {
                if !sel.contains(&idx) {
                    continue;
                }
            }
            write!(o, " # I").unwrap();
            for t in &toks {
                write!(o, " {}", t).unwrap();
            }
            let costs_first = (idx + toks.len()) % 2 == 1;
            write!(o, " # BO {}", if costs_first { 1 } else { 0 }).unwrap();
            let mut first = String::new();
            parse_with_recovery(&b, &toks, &costs, costs_first, &mut first);
            o.push_str(&first);
            if rep > 1 && first.contains(" # ER ") {
                let cut = |s: &str| -> String { s[..s.rfind(" # TM ").unwrap_or(s.len())].to_string() };
                let tm = |s: &str| -> u128 { s.rfind(" # TM ").and_then(|k| s[k + 6..].trim().parse().ok()).unwrap_or(0) };
                let (mut ndiff, mut maxms, mut shown) = (0usize, tm(&first), None);
                for _ in 1..rep {
                    let mut again = String::new();
                    parse_with_recovery(&b, &toks, &costs, costs_first, &mut again);
                    maxms = maxms.max(tm(&again));
                    if cut(&again) != cut(&first) {
                        ndiff += 1;
                        if shown.is_none() {
                            shown = Some(again);
                        }
                    }
                }
                write!(o, " # DT {} {} {}", rep, ndiff, maxms).unwrap();
                if let Some(x) = shown {
                    write!(o, " # DX {}", hex(&x)).unwrap();
                }
            }
        }
        o
    });
}
