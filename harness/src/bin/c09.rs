//! C09: the lexer's scan loop and set_rule_ids, observed through public APIs,
//! next to a reference match table computed directly with the `regex` crate.
//!
//! case line:   `<op> <source> <args>` with
//!   source  `S <hex .l spec> <flags|->`            LRNonStreamingLexerDef::from_str
//!           `T <rule;rule;…|-> <id:excl,…|->`      LRNonStreamingLexerDef::from_rules (what generated code calls)
//!                 rule = `<name hex|->,<tok|->,<s.s.s|->,<N|P<id>|O<id>|R<id>>,<regex hex>`
//!   op      `lex … <omit: hexname,…|-> <hex input|->`
//!           `ids … <map: hexname:id,…|->`
//!   flags   `name=0|1,…` over the boolean %grmtools flags (they must repeat what the
//!           spec's %grmtools section says: the lexer's flags are not observable)
//!
//! result (lex): `RULES r;r;… # STATES id:excl,… # N <len> # BD <boundaries> # MT <row;row;…> # LEX <items>`
//!     r    = `<name hex|->,<tok|->,<s.s|->,<target>` (after set_rule_ids)
//!     row  = `<pos>:<len> …` matches of `\A(?:re_str)` on `&input[pos..]` for every char boundary pos
//!   between MT and LEX two more sections (the look-behind finding):
//!     `# MW row;row;…`  the WHOLE-TEXT table: what re_str (same builder flags, no `\A` wrapper) denotes at
//!                       pos of the input = `find_at(input, pos)` restricted to matches that start at pos
//!     `# LB b b …`      per rule 1 iff the HIR of re_str contains an assertion that looks at the text
//!                       BEFORE the position (Start, StartLF, StartCRLF, every Word* but the two
//!                       WordEndHalf*), else 0 (`E`: the HIR could not be built)
//!     item = `L <tok> <start> <len>` | `E <pos> <lexing state|->`
//! result (ids): `RULES … # MAP … # OUT <tok|-> … ; <missing_from_lexer|NONE> ; <missing_from_parser|NONE> # OUT2 …`
//!     (OUT: set_rule_ids_spanned, OUT2: set_rule_ids, sets sorted)
use gvh::common::{hex, unhex};
use gvh::util::*;
use lrlex::{
    DefaultLexerTypes, LRNonStreamingLexerDef, LexerDef, Rule, StartState, StartStateOperation,
    DEFAULT_LEX_FLAGS,
};
use lrpar::{LexError, Lexeme, Lexer};
use std::collections::HashMap;
use std::fmt::Write;

type LT = DefaultLexerTypes<u32>;
type Def = LRNonStreamingLexerDef<LT>;

#[derive(Default, Clone)]
struct Flags {
    dot_matches_new_line: Option<bool>,
    multi_line: Option<bool>,
    octal: Option<bool>,
    case_insensitive: Option<bool>,
    swap_greed: Option<bool>,
    ignore_whitespace: Option<bool>,
    unicode: Option<bool>,
}

fn parse_flags(s: &str) -> Flags {
    let mut f = Flags::default();
    if s == "-" {
        return f;
    }
    for kv in s.split(',') {
        let (k, v) = kv.split_once('=').expect("flag");
        let v = Some(v == "1");
        match k {
            "dot_matches_new_line" => f.dot_matches_new_line = v,
            "multi_line" => f.multi_line = v,
            "octal" => f.octal = v,
            "case_insensitive" => f.case_insensitive = v,
            "swap_greed" => f.swap_greed = v,
            "ignore_whitespace" => f.ignore_whitespace = v,
            "unicode" => f.unicode = v,
            // these two act on the .l parser only (visible through re_str / accepted syntax)
            "posix_escapes" | "allow_wholeline_comments" => {}
            _ => panic!("unknown flag {}", k),
        }
    }
    f
}

/// The reference regex: built exactly as Rule::new does (lexer.rs:251-279) —
/// octal / multi_line / dot_matches_new_line always set (grmtools defaults
/// true), the others only when given.
fn reference_regex(re_str: &str, f: &Flags) -> Result<regex::Regex, regex::Error> {
    build_regex(&format!("\\A(?:{})", re_str), f)
}

/// What the written regex denotes: the same builder options, no `\A(?:..)` wrapper.
fn written_regex(re_str: &str, f: &Flags) -> Result<regex::Regex, regex::Error> {
    build_regex(re_str, f)
}

/// Does the written regex contain an assertion whose truth depends on the text before the
/// position?  Decided on regex_syntax's HIR (same syntax flags as the regex builder applies).
fn looks_behind(re_str: &str, f: &Flags) -> Option<bool> {
    use regex_syntax::hir::Look;
    let mut b = regex_syntax::ParserBuilder::new();
    b.octal(f.octal.unwrap_or(true))
        .multi_line(f.multi_line.unwrap_or(true))
        .dot_matches_new_line(f.dot_matches_new_line.unwrap_or(true));
    if let Some(x) = f.ignore_whitespace {
        b.ignore_whitespace(x);
    }
    if let Some(x) = f.unicode {
        b.unicode(x);
    }
    if let Some(x) = f.case_insensitive {
        b.case_insensitive(x);
    }
    if let Some(x) = f.swap_greed {
        b.swap_greed(x);
    }
    let hir = b.build().parse(re_str).ok()?;
    Some(hir.properties().look_set().iter().any(|l| {
        !matches!(
            l,
            Look::End | Look::EndLF | Look::EndCRLF | Look::WordEndHalfAscii | Look::WordEndHalfUnicode
        )
    }))
}

fn build_regex(pattern: &str, f: &Flags) -> Result<regex::Regex, regex::Error> {
    let mut b = regex::RegexBuilder::new(pattern);
    b.octal(f.octal.unwrap_or(true))
        .multi_line(f.multi_line.unwrap_or(true))
        .dot_matches_new_line(f.dot_matches_new_line.unwrap_or(true));
    if let Some(x) = f.ignore_whitespace {
        b.ignore_whitespace(x);
    }
    if let Some(x) = f.unicode {
        b.unicode(x);
    }
    if let Some(x) = f.case_insensitive {
        b.case_insensitive(x);
    }
    if let Some(x) = f.swap_greed {
        b.swap_greed(x);
    }
    b.build()
}

fn opt_hex(s: &str) -> String {
    if s == "-" {
        String::new()
    } else {
        unhex(s)
    }
}

fn target_str(t: &Option<(usize, StartStateOperation)>) -> String {
    match t {
        None => "N".to_string(),
        Some((id, StartStateOperation::Push)) => format!("P{}", id),
        Some((id, StartStateOperation::Pop)) => format!("O{}", id),
        Some((id, StartStateOperation::ReplaceStack)) => format!("R{}", id),
    }
}

fn rules_dump(def: &Def) -> String {
    let mut o = String::new();
    for (i, r) in def.iter_rules().enumerate() {
        if i > 0 {
            o.push(';');
        }
        let name = r.name().map(hex).unwrap_or_else(|| "-".to_string());
        // hex("") is empty: an empty name cannot come out of the parser, but keep the field non-empty
        let name = if name.is_empty() { "00".to_string() } else { name };
        let tok = r.tok_id().map(|t| t.to_string()).unwrap_or_else(|| "-".to_string());
        let ss = if r.start_states().is_empty() {
            "-".to_string()
        } else {
            r.start_states().iter().map(|s| s.to_string()).collect::<Vec<_>>().join(".")
        };
        write!(o, "{},{},{},{}", name, tok, ss, target_str(&r.target_state())).unwrap();
    }
    if o.is_empty() {
        o.push('-');
    }
    o
}

/// id and exclusive are not public: read them off the derived Debug output
/// `StartState { id: 1, name: "X", name_span: Span { .. }, exclusive: true }`
fn states_dump(def: &Def) -> String {
    let mut v = Vec::new();
    for s in def.iter_start_states() {
        let d = format!("{:?}", s);
        let a = d.find("id: ").expect("id field") + 4;
        let id: String = d[a..].chars().take_while(|c| c.is_ascii_digit()).collect();
        let b = d.rfind("exclusive: ").expect("exclusive field") + 11;
        let ex = d[b..].starts_with("true");
        v.push(format!("{}:{}", id, if ex { 1 } else { 0 }));
    }
    if v.is_empty() {
        "-".to_string()
    } else {
        v.join(",")
    }
}

fn parse_target(s: &str) -> Option<(usize, StartStateOperation)> {
    match &s[..1] {
        "N" => None,
        "P" => Some((s[1..].parse().unwrap(), StartStateOperation::Push)),
        "O" => Some((s[1..].parse().unwrap(), StartStateOperation::Pop)),
        "R" => Some((s[1..].parse().unwrap(), StartStateOperation::ReplaceStack)),
        _ => panic!("target"),
    }
}

fn build_from_table(rules: &str, states: &str) -> Result<Def, String> {
    let mut rs = Vec::new();
    if rules != "-" {
        for r in rules.split(';') {
            let f: Vec<&str> = r.split(',').collect();
            let name = if f[0] == "-" { None } else { Some(unhex(f[0])) };
            let tok = if f[1] == "-" { None } else { Some(f[1].parse::<u32>().unwrap()) };
            let ss: Vec<usize> =
                if f[2] == "-" { vec![] } else { f[2].split('.').map(|x| x.parse().unwrap()).collect() };
            let tgt = parse_target(f[3]);
            let re = opt_hex(f[4]);
            let rule = Rule::new(
                lrlex::unstable_api::InternalPublicApi,
                tok,
                name,
                cfgrammar::Span::new(0, 0),
                re,
                ss,
                tgt,
                &DEFAULT_LEX_FLAGS,
            )
            .map_err(|e| format!("{}", e))?;
            rs.push(rule);
        }
    }
    let mut sts = Vec::new();
    if states != "-" {
        for s in states.split(',') {
            let (id, ex) = s.split_once(':').unwrap();
            let id: usize = id.parse().unwrap();
            sts.push(StartState::new(id, &format!("S{}", id), ex == "1", cfgrammar::Span::new(0, 0)));
        }
    }
    Ok(Def::from_rules(sts, rs))
}

/// returns (definition, flags of the reference regexes, rest of the fields)
fn build<'a>(f: &[&'a str]) -> Result<(Def, Flags, Vec<&'a str>), String> {
    match f[0] {
        "S" => {
            let src = unhex(f[1]);
            let flags = parse_flags(f[2]);
            let def = Def::from_str(&src).map_err(|es| {
                es.iter().map(|e| format!("{}", e)).collect::<Vec<_>>().join("; ")
            })?;
            Ok((def, flags, f[3..].to_vec()))
        }
        "T" => {
            let def = build_from_table(f[1], f[2])?;
            Ok((def, Flags::default(), f[3..].to_vec()))
        }
        _ => Err("bad source".to_string()),
    }
}

fn sorted_or_none(v: Option<Vec<String>>) -> String {
    match v {
        None => "NONE".to_string(),
        Some(mut l) => {
            l.sort();
            if l.is_empty() {
                "EMPTY".to_string()
            } else {
                l.join(",")
            }
        }
    }
}

fn toks(def: &Def) -> String {
    let v: Vec<String> =
        def.iter_rules().map(|r| r.tok_id().map(|t| t.to_string()).unwrap_or_else(|| "-".to_string())).collect();
    if v.is_empty() {
        "-".to_string()
    } else {
        v.join(" ")
    }
}

fn do_lex(mut def: Def, flags: Flags, rest: &[&str]) -> String {
    let omit: Vec<String> = if rest[0] == "-" { vec![] } else { rest[0].split(',').map(unhex).collect() };
    let input = opt_hex(rest[1]);
    // ids: rule index of the first rule with that name, times 2 plus 7 (so that
    // the ids differ from the parser-assigned defaults)
    let names: Vec<Option<String>> = def.iter_rules().map(|r| r.name().map(|s| s.to_string())).collect();
    let mut owned: Vec<(String, u32)> = Vec::new();
    for (i, n) in names.iter().enumerate() {
        if let Some(n) = n {
            if !omit.contains(n) && !owned.iter().any(|(m, _)| m == n) {
                owned.push((n.clone(), 2 * i as u32 + 7));
            }
        }
    }
    {
        let map: HashMap<&str, u32> = owned.iter().map(|(n, i)| (n.as_str(), *i)).collect();
        let _ = def.set_rule_ids(&map);
    }
    let mut o = String::new();
    write!(o, "RULES {} # STATES {} # N {}", rules_dump(&def), states_dump(&def), input.len()).unwrap();
    let mut bounds: Vec<usize> = input.char_indices().map(|(i, _)| i).collect();
    bounds.push(input.len());
    o.push_str(" # BD");
    for b in &bounds {
        write!(o, " {}", b).unwrap();
    }
    // the reference match table, straight from the regex crate
    o.push_str(" # MT ");
    for (i, r) in def.iter_rules().enumerate() {
        if i > 0 {
            o.push(';');
        }
        let re = match reference_regex(r.re_str(), &flags) {
            Ok(re) => re,
            Err(_) => {
                o.push_str("REFERR");
                continue;
            }
        };
        let mut first = true;
        for &p in &bounds {
            if let Some(m) = re.find(&input[p..]) {
                if !first {
                    o.push(' ');
                }
                first = false;
                if m.start() != 0 {
                    write!(o, "ANOM{}:{}", p, m.end()).unwrap();
                } else {
                    write!(o, "{}:{}", p, m.end()).unwrap();
                }
            }
        }
        if first {
            o.push('-');
        }
    }
    if def.iter_rules().next().is_none() {
        o.push('-');
    }
    // the whole-text table: the written regex searched in the WHOLE input from pos on; leftmost-first
    // semantics make a match that starts at pos the anchored match at pos
    o.push_str(" # MW ");
    for (i, r) in def.iter_rules().enumerate() {
        if i > 0 {
            o.push(';');
        }
        let re = match written_regex(r.re_str(), &flags) {
            Ok(re) => re,
            Err(_) => {
                o.push_str("REFERR");
                continue;
            }
        };
        let mut first = true;
        for &p in &bounds {
            if let Some(m) = re.find_at(&input, p) {
                if m.start() == p {
                    if !first {
                        o.push(' ');
                    }
                    first = false;
                    write!(o, "{}:{}", p, m.end() - p).unwrap();
                }
            }
        }
        if first {
            o.push('-');
        }
    }
    if def.iter_rules().next().is_none() {
        o.push('-');
    }
    o.push_str(" # LB");
    for r in def.iter_rules() {
        o.push_str(match looks_behind(r.re_str(), &flags) {
            Some(true) => " 1",
            Some(false) => " 0",
            None => " E",
        });
    }
    if def.iter_rules().next().is_none() {
        o.push_str(" -");
    }
    // the implementation
    let r = catch(std::panic::AssertUnwindSafe(|| {
        let lexer = def.lexer(&input);
        let mut items = Vec::new();
        for x in lexer.iter() {
            match x {
                Ok(l) => items.push(format!("L {} {} {}", l.tok_id(), l.span().start(), l.span().len())),
                Err(e) => {
                    let st = match e.lexing_state() {
                        None => "-".to_string(),
                        Some(id) => {
                            // StartStateId { _id: 3 }
                            let d = format!("{:?}", id);
                            d.chars().filter(|c| c.is_ascii_digit()).collect()
                        }
                    };
                    if e.span().start() != e.span().end() {
                        items.push(format!("E {}..{} {}", e.span().start(), e.span().end(), st));
                    } else {
                        items.push(format!("E {} {}", e.span().start(), st));
                    }
                }
            }
        }
        items
    }));
    match r {
        Ok(items) => write!(o, " # LEX {}", if items.is_empty() { "-".to_string() } else { items.join(",") }).unwrap(),
        Err(msg) => write!(o, " # LEX PANIC {}", msg.replace('\n', " ").replace('#', "")).unwrap(),
    }
    o
}

fn do_ids(mut def: Def, rest: &[&str]) -> String {
    let owned: Vec<(String, u32)> = if rest[0] == "-" {
        vec![]
    } else {
        rest[0]
            .split(',')
            .map(|kv| {
                let (k, v) = kv.split_once(':').unwrap();
                (unhex(k), v.parse().unwrap())
            })
            .collect()
    };
    let mut o = String::new();
    write!(o, "RULES {} # MAP {}", rules_dump(&def), rest[0]).unwrap();
    let mut def2 = def.clone();
    let map: HashMap<&str, u32> = owned.iter().map(|(n, i)| (n.as_str(), *i)).collect();
    let r = catch(std::panic::AssertUnwindSafe(|| {
        let (mfl, mfp) = def.set_rule_ids_spanned(&map);
        let mfl: Option<Vec<String>> = mfl.map(|s| s.iter().map(|x| hex(x)).collect());
        let mfp: Option<Vec<String>> = mfp.map(|s| s.iter().map(|(x, _)| hex(x)).collect());
        (sorted_or_none(mfl), sorted_or_none(mfp))
    }));
    match r {
        Ok((a, b)) => write!(o, " # OUT {} ; {} ; {}", toks(&def), a, b).unwrap(),
        Err(m) => write!(o, " # OUT PANIC {}", m.replace('#', "")).unwrap(),
    }
    let r = catch(std::panic::AssertUnwindSafe(|| {
        let (mfl, mfp) = def2.set_rule_ids(&map);
        let mfl: Option<Vec<String>> = mfl.map(|s| s.iter().map(|x| hex(x)).collect());
        let mfp: Option<Vec<String>> = mfp.map(|s| s.iter().map(|x| hex(x)).collect());
        (sorted_or_none(mfl), sorted_or_none(mfp))
    }));
    match r {
        Ok((a, b)) => write!(o, " # OUT2 {} ; {} ; {}", toks(&def2), a, b).unwrap(),
        Err(m) => write!(o, " # OUT2 PANIC {}", m.replace('#', "")).unwrap(),
    }
    o
}

fn main() {
    gvh::quiet_panics();
    for_each_case(|line| {
        let f: Vec<&str> = line.split_whitespace().collect();
        if f.len() < 4 {
            return "BADCASE".to_string();
        }
        let op = f[0];
        let built = catch(std::panic::AssertUnwindSafe(|| build(&f[1..])));
        let (def, flags, rest) = match built {
            Ok(Ok(x)) => x,
            Ok(Err(e)) => return format!("BUILDERR {}", e.replace('\n', " ")),
            Err(m) => return format!("BUILDPANIC {}", m.replace('\n', " ")),
        };
        match op {
            "lex" if rest.len() == 2 => do_lex(def, flags, &rest),
            "ids" if rest.len() == 1 => do_ids(def, &rest),
            _ => "BADCASE".to_string(),
        }
    });
}
