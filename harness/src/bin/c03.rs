//! `c03`: run the compile-time parser generation (CTParserBuilder::build —
//! source generation only, nothing is compiled) for a grammar with its
//! `%expect` / `%expect-rr` declarations and report whether the build fails.
//! case:   `<kind> <hexsrc> [api=build|pf] [wae=0|1] [eoc=0|1]`
//!         api=pf goes through the deprecated but public `CTParserBuilder::process_file(&mut self, in, out)`
//!         (which copies the builder field by field); wae = warnings_are_errors (default 0 here),
//!         eoc = error_on_conflicts (default 1, the builder's default).  `warn=` in the result is the
//!         number of grammar warnings (public `ASTWithValidityInfo::ast().warnings()`): with wae=1 a
//!         build fails on them whatever the conflicts are.
//! result: `CT <ok|err|panic> sr=<n> rr=<n> expect=<n|-> expectrr=<n|-> conflicts=<some|none> msg=<hex of the start of the error text>`
//!         or the grammar/table construction error (`GRMERR …` / `TBLERR … # <grammar dump>`) when the grammar does not build at all.
//! sr/rr are the lengths of StateTable::conflicts() of an independently built
//! table (public API); expect/expectrr are YaccGrammar::expect()/expectrr().
//! CTParserBuilder keeps a process-global set of generated paths, so every
//! case writes to a fresh path under /verif/.work/c03/<pid>/.
#![allow(deprecated)]
use gvh::common::*;
use gvh::util::*;
use lrpar::CTParserBuilder;
use std::path::PathBuf;

fn main() {
    gvh::quiet_panics();
    let base: PathBuf = [
        std::env::var("GVH_WORK").unwrap_or_else(|_| "/verif/.work".to_string()),
        "c03".to_string(),
        format!("{}", std::process::id()),
    ]
    .iter()
    .collect();
    std::fs::create_dir_all(&base).expect("work dir");
    let mut n: usize = 0;
    let base2 = base.clone();
    for_each_case(move |line| {
        let head = line.split(';').next().unwrap();
        let mut hs = head.split_whitespace();
        let kind = hs.next().unwrap().to_string();
        let src = unhex(hs.next().unwrap_or(""));
        let (mut api_pf, mut wae, mut eoc) = (false, false, true);
        for o in hs {
            match o {
                "api=pf" => api_pf = true,
                "api=build" => api_pf = false,
                "wae=1" => wae = true,
                "wae=0" => wae = false,
                "eoc=1" => eoc = true,
                "eoc=0" => eoc = false,
                _ => return format!("BADOPT {}", o),
            }
        }
        let b = match catch(std::panic::AssertUnwindSafe(|| build(&kind, &src))) {
            Err(m) => return format!("BUILDPANIC {}", m.replace('\n', " ")),
            Ok(Err(e)) => {
                // the table could not be built: still dump the grammar (if it parses) so that the
                // accept/reduce oracle can be run on it
                return match cfgrammar::yacc::YaccGrammar::<u32>::new_with_storaget(yacckind(&kind), &src) {
                    Ok(grm) => format!("{} # {}", e, dump_grammar(&grm)),
                    Err(_) => e,
                };
            }
            Ok(Ok(b)) => b,
        };
        let (sr, rr, some) = match b.st.conflicts() {
            None => (0, 0, "none"),
            Some(c) => (c.sr_len(), c.rr_len(), "some"),
        };
        let ex = b.grm.expect().map(|x| x.to_string()).unwrap_or_else(|| "-".to_string());
        let exrr = b.grm.expectrr().map(|x| x.to_string()).unwrap_or_else(|| "-".to_string());
        n += 1;
        let yp = base2.join(format!("g{}.y", n));
        let op = base2.join(format!("g{}.y.rs", n));
        std::fs::write(&yp, &src).expect("write grammar");
        let yk = yacckind(&kind);
        let nwarn = catch(std::panic::AssertUnwindSafe(|| {
            cfgrammar::yacc::ast::ASTWithValidityInfo::new(yk, &src).ast().warnings().len()
        }))
        .map(|n| n.to_string())
        .unwrap_or_else(|_| "?".to_string());
        let yp2 = yp.clone();
        let op2 = op.clone();
        let r = catch(std::panic::AssertUnwindSafe(move || {
            let b = CTParserBuilder::<LT>::new()
                .yacckind(yk)
                .warnings_are_errors(wae)
                .error_on_conflicts(eoc)
                .show_warnings(false)
                .mod_name("gen_y");
            if api_pf {
                let mut b = b;
                b.process_file(&yp2, &op2).map(|_| ()).map_err(|e| format!("{}", e))
            } else {
                b.grammar_path(&yp2)
                    .output_path(&op2)
                    .build()
                    .map(|_| ())
                    .map_err(|e| format!("{}", e))
            }
        }));
        let generated = op.exists();
        std::fs::remove_file(&yp).ok();
        std::fs::remove_file(&op).ok();
        let (verdict, msg) = match r {
            Err(m) => ("panic", m),
            Ok(Ok(())) => ("ok", String::new()),
            Ok(Err(m)) => ("err", m),
        };
        let msg: String = msg.chars().take(120).collect();
        format!(
            "CT {} sr={} rr={} expect={} expectrr={} conflicts={} generated={} api={} wae={} eoc={} warn={} msg={}",
            verdict,
            sr,
            rr,
            ex,
            exrr,
            some,
            if generated { 1 } else { 0 },
            if api_pf { "pf" } else { "build" },
            wae as u8,
            eoc as u8,
            nwarn,
            hex(&msg)
        )
    });
    std::fs::remove_dir_all(&base).ok();
}
