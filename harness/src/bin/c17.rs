//! C17: grammar analyses of cfgrammar observed through the public API.
//! case:   `<kind> <hexsrc> [ord=<n>] ; <tokname>=<cost> <tokname>=<cost> …`   (unlisted tokens cost 1)
//!         ord=0 / absent: every group of cost queries on its OWN fresh generator (min; min_sentence(s); max);
//!         ord=1..7: ALL queries on ONE generator in one thread, in the order of `order_steps` (the caches of a
//!         SentenceGenerator are filled by its first queries: the answers must not depend on the order);
//!         the same sections are printed in query order, a repeated query prints its section again
//!         (the reader checks that repeated sections agree); ` # ORD n` is appended.
//! args:   `nocost` (skip every sentence_generator query), `nomss` (skip min_sentences),
//!         `noms` (skip min_sentence and min_sentences)
//! result: `<grammar dump> # NUL r… # FI r tok… # FO r tok… # HP a b … # COST t c …`
//!         then, from the cost queries (each group in its own thread, own timeout
//!         GVH_COST_TIMEOUT_MS, default 1500):
//!         ` # MIN r c` …  | ` # MINHANG` | ` # MINPANIC msg`
//!         ` # MS r tok…` ` # MSS r ; tok… ; tok…` | ` # MSSBIG r n` | ` # MSHANG` | ` # MSPANIC msg`
//!         ` # MAX r c|inf` … | ` # MAXHANG` | ` # MAXPANIC msg`
//! A hang cannot be interrupted: the line of such a case is prefixed with `HANGCOST # ` and the
//! process exits (status 3) when the next case arrives; the orchestrator restarts it on the rest.
use cfgrammar::yacc::YaccGrammar;
use cfgrammar::{RIdx, TIdx};
use gvh::common::*;
use gvh::util::*;
use std::fmt::Write;
use std::sync::atomic::{AtomicBool, Ordering};
use std::sync::mpsc;
use std::time::Duration;

static POISONED: AtomicBool = AtomicBool::new(false);

/// the steps of a query order on one generator: m = min_sentence_cost, s = min_sentence, S = min_sentences,
/// x = max_sentence_cost (each for every rule); i = min, max, min_sentence interleaved per rule, twice per rule
fn order_steps(ord: u32) -> &'static str {
    match ord {
        1 => "xmsS",       // max first
        2 => "mxsS",       // min, then max
        3 => "sxmS",       // min_sentence, then max
        4 => "Sxms",       // min_sentences, then max, then min
        5 => "mmxxssSSxm", // every query twice
        6 => "ixSm",       // per rule: min max min_sentence min max min_sentence
        7 => "xSsmx",      // max first and last
        _ => "",
    }
}

fn one_generator(
    grm: &YaccGrammar<u32>,
    costs: &[u8],
    steps: &str,
    noms: bool,
    nomss: bool,
    progress: &std::sync::Mutex<(String, char)>,
) {
    let costs = costs.to_vec();
    let sg = grm.sentence_generator(move |t: TIdx<u32>| costs[usize::from(t)]);
    let maxs = |o: &mut String, r: RIdx<u32>| match sg.max_sentence_cost(r) {
        Some(c) => write!(o, " # MAX {} {}", usize::from(r), c).unwrap(),
        None => write!(o, " # MAX {} inf", usize::from(r)).unwrap(),
    };
    let mins = |o: &mut String, r: RIdx<u32>| write!(o, " # MIN {} {}", usize::from(r), sg.min_sentence_cost(r)).unwrap();
    let ms = |o: &mut String, r: RIdx<u32>| {
        write!(o, " # MS {}", usize::from(r)).unwrap();
        for t in sg.min_sentence(r) {
            write!(o, " {}", usize::from(t)).unwrap();
        }
    };
    for step in steps.chars() {
        if (step == 's' && noms) || (step == 'S' && nomss) {
            continue;
        }
        progress.lock().unwrap().1 = step;
        let r = catch(std::panic::AssertUnwindSafe(|| {
            let mut o = String::new();
            for r in grm.iter_rules() {
                match step {
                    'm' => mins(&mut o, r),
                    'x' => maxs(&mut o, r),
                    's' => ms(&mut o, r),
                    'i' => {
                        for _ in 0..2 {
                            mins(&mut o, r);
                            maxs(&mut o, r);
                            if !noms {
                                ms(&mut o, r);
                            }
                        }
                    }
                    _ => {
                        let ss = sg.min_sentences(r);
                        if ss.len() > 400 {
                            write!(o, " # MSSBIG {} {}", usize::from(r), ss.len()).unwrap();
                            continue;
                        }
                        write!(o, " # MSS {}", usize::from(r)).unwrap();
                        for s in ss {
                            write!(o, " ;").unwrap();
                            for t in s {
                                write!(o, " {}", usize::from(t)).unwrap();
                            }
                        }
                    }
                }
            }
            o
        }));
        let mut p = progress.lock().unwrap();
        match r {
            Ok(s) => p.0.push_str(&s),
            Err(m) => {
                let k = match step {
                    'm' | 'i' => "MIN",
                    'x' => "MAX",
                    _ => "MS",
                };
                write!(p.0, " # {}PANIC {}", k, clean(&m)).unwrap()
            }
        }
    }
}

fn grammar(kind: &str, src: &str) -> Result<YaccGrammar<u32>, String> {
    YaccGrammar::<u32>::new_with_storaget(yacckind(kind), src).map_err(|e| {
        format!(
            "GRMERR {}",
            e.iter().map(|x| format!("{}", x)).collect::<Vec<_>>().join("; ").replace('\n', " ")
        )
    })
}

fn clean(m: &str) -> String {
    m.replace('\n', " ").replace('#', "")
}

/// run `f` in its own thread on its own copy of the grammar; None = no answer in time
fn timed<F>(kind: &str, src: &str, costs: &[u8], ms: u64, f: F) -> Option<Result<String, String>>
where
    F: FnOnce(&YaccGrammar<u32>, &[u8]) -> String + Send + 'static,
{
    let (tx, rx) = mpsc::channel();
    let (kind, src, costs) = (kind.to_string(), src.to_string(), costs.to_vec());
    std::thread::Builder::new()
        .stack_size(512 * 1024 * 1024)
        .spawn(move || {
            let r = catch(std::panic::AssertUnwindSafe(|| {
                let grm = grammar(&kind, &src).expect("grammar");
                f(&grm, &costs)
            }));
            let _ = tx.send(r);
        })
        .unwrap();
    match rx.recv_timeout(Duration::from_millis(ms)) {
        Ok(r) => Some(r),
        Err(_) => None,
    }
}

fn main() {
    gvh::quiet_panics();
    let args: Vec<String> = std::env::args().skip(1).collect();
    let nocost = args.iter().any(|a| a == "nocost");
    let noms = args.iter().any(|a| a == "noms");
    let nomss = noms || args.iter().any(|a| a == "nomss");
    let ms: u64 = std::env::var("GVH_COST_TIMEOUT_MS").ok().and_then(|v| v.parse().ok()).unwrap_or(1500);
    for_each_case(move |line| {
        if POISONED.load(Ordering::SeqCst) {
            // a cost query of the previous case is still spinning in its thread
            std::process::exit(3);
        }
        let (head, tail) = match line.split_once(';') {
            Some((h, t)) => (h, t),
            None => (line, ""),
        };
        let mut hs = head.split_whitespace();
        let kind = hs.next().unwrap().to_string();
        let src = unhex(hs.next().unwrap_or(""));
        let ord: u32 = hs.next().and_then(|x| x.strip_prefix("ord=")).and_then(|x| x.parse().ok()).unwrap_or(0);
        let grm = match catch(std::panic::AssertUnwindSafe(|| grammar(&kind, &src))) {
            Err(m) => return format!("BUILDPANIC {}", clean(&m)),
            Ok(Err(e)) => return e,
            Ok(Ok(g)) => g,
        };
        let ntoks = usize::from(grm.tokens_len());
        let mut costs: Vec<u8> = vec![1; ntoks];
        for kv in tail.split_whitespace() {
            if let Some((n, c)) = kv.rsplit_once('=') {
                if let (Some(t), Ok(c)) = (grm.token_idx(n), c.parse::<u8>()) {
                    costs[usize::from(t)] = c;
                }
            }
        }
        let mut o = dump_grammar(&grm);
        // ---- nullable / FIRST / FOLLOW / has_path ----
        let r = catch(std::panic::AssertUnwindSafe(|| {
            let mut o = String::new();
            let firsts = grm.firsts();
            write!(o, " # NUL").unwrap();
            for r in grm.iter_rules() {
                if firsts.is_epsilon_set(r) {
                    write!(o, " {}", usize::from(r)).unwrap();
                }
            }
            for r in grm.iter_rules() {
                write!(o, " # FI {}", usize::from(r)).unwrap();
                for t in grm.iter_tidxs() {
                    if firsts.is_set(r, t) {
                        write!(o, " {}", usize::from(t)).unwrap();
                    }
                }
            }
            o
        }));
        match r {
            Ok(s) => o.push_str(&s),
            Err(m) => write!(o, " # FIRSTPANIC {}", clean(&m)).unwrap(),
        }
        let r = catch(std::panic::AssertUnwindSafe(|| {
            let mut o = String::new();
            let follows = grm.follows();
            for r in grm.iter_rules() {
                write!(o, " # FO {}", usize::from(r)).unwrap();
                for t in grm.iter_tidxs() {
                    if follows.is_set(r, t) {
                        write!(o, " {}", usize::from(t)).unwrap();
                    }
                }
            }
            o
        }));
        match r {
            Ok(s) => o.push_str(&s),
            Err(m) => write!(o, " # FOLLOWPANIC {}", clean(&m)).unwrap(),
        }
        let r = catch(std::panic::AssertUnwindSafe(|| {
            let mut o = String::new();
            write!(o, " # HP").unwrap();
            for a in grm.iter_rules() {
                for b in grm.iter_rules() {
                    if grm.has_path(a, b) {
                        write!(o, " {} {}", usize::from(a), usize::from(b)).unwrap();
                    }
                }
            }
            o
        }));
        match r {
            Ok(s) => o.push_str(&s),
            Err(m) => write!(o, " # HPPANIC {}", clean(&m)).unwrap(),
        }
        write!(o, " # COST").unwrap();
        for (t, c) in costs.iter().enumerate() {
            write!(o, " {} {}", t, c).unwrap();
        }
        if nocost {
            return o;
        }
        // ---- sentence generator: one generator, queries in the order `ord` ----
        if !order_steps(ord).is_empty() {
            let progress = std::sync::Arc::new(std::sync::Mutex::new((String::new(), ' ')));
            let p2 = progress.clone();
            let steps = order_steps(ord);
            // the whole sequence gets the time of the three separate groups
            let r = timed(&kind, &src, &costs, 3 * ms, move |grm, costs| {
                one_generator(grm, costs, steps, noms, nomss, &p2);
                String::new()
            });
            let p = progress.lock().unwrap();
            o.push_str(&p.0);
            write!(o, " # ORD {}", ord).unwrap();
            match r {
                Some(Ok(_)) => return o,
                Some(Err(m)) => {
                    write!(o, " # MINPANIC outside the queries: {}", clean(&m)).unwrap();
                    return o;
                }
                None => {
                    let k = match p.1 {
                        'm' | 'i' | ' ' => "MIN",
                        'x' => "MAX",
                        _ => "MS",
                    };
                    write!(o, " # {}HANG", k).unwrap();
                    POISONED.store(true, Ordering::SeqCst);
                    return format!("HANGCOST # {}", o);
                }
            }
        }
        // ---- sentence generator: every group of queries on its own generator ----
        let mut hung = false;
        let mut min_ok = false;
        match timed(&kind, &src, &costs, ms, |grm, costs| {
            let costs = costs.to_vec();
            let sg = grm.sentence_generator(move |t: TIdx<u32>| costs[usize::from(t)]);
            let mut o = String::new();
            for r in grm.iter_rules() {
                write!(o, " # MIN {} {}", usize::from(r), sg.min_sentence_cost(r)).unwrap();
            }
            o
        }) {
            None => {
                hung = true;
                o.push_str(" # MINHANG");
            }
            Some(Err(m)) => write!(o, " # MINPANIC {}", clean(&m)).unwrap(),
            Some(Ok(s)) => {
                min_ok = true;
                o.push_str(&s)
            }
        }
        if min_ok && !noms {
            match timed(&kind, &src, &costs, ms, move |grm, costs| {
                let costs = costs.to_vec();
                let sg = grm.sentence_generator(move |t: TIdx<u32>| costs[usize::from(t)]);
                let mut o = String::new();
                for r in grm.iter_rules() {
                    write!(o, " # MS {}", usize::from(r)).unwrap();
                    for t in sg.min_sentence(r) {
                        write!(o, " {}", usize::from(t)).unwrap();
                    }
                }
                if !nomss {
                    for r in grm.iter_rules() {
                        let ss = sg.min_sentences(r);
                        if ss.len() > 400 {
                            write!(o, " # MSSBIG {} {}", usize::from(r), ss.len()).unwrap();
                            continue;
                        }
                        write!(o, " # MSS {}", usize::from(r)).unwrap();
                        for s in ss {
                            write!(o, " ;").unwrap();
                            for t in s {
                                write!(o, " {}", usize::from(t)).unwrap();
                            }
                        }
                    }
                }
                o
            }) {
                None => {
                    hung = true;
                    o.push_str(" # MSHANG");
                }
                Some(Err(m)) => write!(o, " # MSPANIC {}", clean(&m)).unwrap(),
                Some(Ok(s)) => o.push_str(&s),
            }
        }
        match timed(&kind, &src, &costs, ms, |grm, costs| {
            let costs = costs.to_vec();
            let sg = grm.sentence_generator(move |t: TIdx<u32>| costs[usize::from(t)]);
            let mut o = String::new();
            for r in grm.iter_rules() {
                let r: RIdx<u32> = r;
                match sg.max_sentence_cost(r) {
                    Some(c) => write!(o, " # MAX {} {}", usize::from(r), c).unwrap(),
                    None => write!(o, " # MAX {} inf", usize::from(r)).unwrap(),
                }
            }
            o
        }) {
            None => {
                hung = true;
                o.push_str(" # MAXHANG");
            }
            Some(Err(m)) => write!(o, " # MAXPANIC {}", clean(&m)).unwrap(),
            Some(Ok(s)) => o.push_str(&s),
        }
        if hung {
            POISONED.store(true, Ordering::SeqCst);
            return format!("HANGCOST # {}", o);
        }
        o
    });
}
