//! C15: reproducibility observations (one process = one set of hash seeds).
//!
//! `c15 digest`   case `<kind> <hexsrc> <hexlex|-> ; <tok names> ; ...`
//!     prints ONE line: ` # `-separated transcript of all YaccGrammar / StateGraph /
//!     StateTable queries + parse outcomes (recovery off) + (if the case has a lexer) the run-time lexer definition built from
//!     the lexer source (`LQ` start states, `LU` rules with token id, name, regex, `start_states()` IN ORDER, target
//!     state).  Sections whose tag starts
//!     with `I` are informational (documented freedoms: order of the conflict lists,
//!     which of several equivalent core reduces is kept, pretty-printer hashes) and are
//!     not part of the verdict.
//! `c15 gen`      same case line; runs CTLexerBuilder(+CTParserBuilder), a standalone
//!     CTParserBuilder (fixed-int serialisation) and CTTokenMapBuilder into a fresh
//!     `/verif/.work/c15/<pid>-<n>/` and prints for each generated file
//!     `F <name> <len> <hash>` where the hash is taken over the bytes with the build
//!     timestamp and the (per-process) directory name removed.  The directory is
//!     removed afterwards unless `C15_KEEP` is set (then `DIR <path>` is printed too).
//!     An optional 4th head field `k=v,k=v,…` sets rarely used knobs of the builders of (1)/(2):
//!     pvis/lvis=0..4 (+5 = PublicIn("crate")) ped/led=15|18|21 pmod/lmod=<ident> rec=C|N lk=1 (lexerkind set
//!     explicitly) amtl/amtp/lsw/psw=0|1 (allow_missing_terms_in_lexer, allow_missing_tokens_in_parser, show_warnings).
//! `c15 lexgen`   case `L <hexlex> <NAME=id,NAME=id,…|-> <k=v,k=v,…|->`: a lexer built ALONE (no parser) with a
//!     user-supplied `CTLexerBuilder::rule_ids_map()` (names are hex; several names may share one id), `reps=<n>`
//!     times in this process, every time with a freshly constructed map (own hash keys) into its own directory;
//!     prints `LGEN <ok|err …|panic>` and `F g.l.rs <len> <hash>` per repetition.  Further knobs: st=u8|u16|u32,
//!     api=build|pf (deprecated `process_file`), mod, vis, ed, lk, amtl, amtp, sw, wae, ci.
//!     Per repetition a third section `RS <start states of rule 0>;<of rule 1>;…` gives `Rule::start_states()` of every rule of
//!     the run-time definition (`LRNonStreamingLexerDef::from_str`) of the same source, built afresh in that repetition.
//! `c15 tokmap`   case `M <NAME=id,…> <NAME=NEWNAME,…|-> <k=v,…|->` (names hex): `CTTokenMapBuilder::new("tokmap", map)
//!     [.rename_map(..)] [.allow_dead_code(..)].build()` `reps` times, every time from a freshly constructed HashMap, into its
//!     own OUT_DIR; prints `TGEN <ok|err …|panic …>` and `F tokmap.rs <len> <hash>` per repetition.  Knobs: st=u8|u16|u32,
//!     adc=0|1, fn=1 (the deprecated free function `ct_token_map`), reps.
//! `c15 fail`     outcomes of FAILING builds (one line per case; before every case `@@C15CASE` is written to stderr so that the
//!     caller can cut the diagnostics the builders print there into per-case pieces):
//!     `Y <kind> <hexsrc>`  the complete error transcript of a yacc source: `FY <valid|invalid>`, per error of
//!         `ASTWithValidityInfo::errors()` a section `E <hex Debug> <hex Display>` (Debug = kind with its arguments and all spans, in
//!         order), per warning of `ast().warnings()` a section `W <hex Debug>`, then `G ok | G err <n>` with sections `GE <hex Debug>`
//!         for what `YaccGrammar::new_with_storaget` returns.
//!     `X <hexlex>`  a lexer source: `FX ok | FX err <n>` with sections `E <hex Debug> <hex Display>` (LexBuildError: kind + spans).
//!     `B <kind> <hexsrc> <hexlex|-> <k=v,…|->`  the error STRING of the compile-time builders: `FB ok | FB err <hex text> | FB panic
//!         <hex msg>` (directory name replaced) and `FILES <names>` = the .rs files left in the output directory.  Knobs: via=l
//!         (CTLexerBuilder with lrpar_config; default) | p (CTParserBuilder alone), eoc (error_on_conflicts, default 1), wae
//!         (warnings_are_errors, default 0), sw (show_warnings, default 1), amtl / amtp (allow_missing_*, default 0 / 1).
//!     `M <hexlex> <NAME=id,…> <k=v,…|->`  a lexer built ALONE from a `rule_ids_map` (names hex) with the same knobs: `FB …` as above.
//! `c15 threads`  same case line; serialises grammar+table as the generated code does,
//!     8 threads first-use one `OnceLock`-guarded `_reconstitute` at the same time and
//!     each parses all inputs on the shared data; every thread must print what the
//!     sequential run prints and the initialiser must have run exactly once.
#![allow(deprecated)]
use cfgrammar::yacc::YaccKind;
use gvh::common::*;
use gvh::util::*;
use lrpar::ctbuilder::{wincode, ParserData, _reconstitute};
use lrpar::{CTParserBuilder, LexParseError, Lexeme, RTParserBuilder, RecoveryKind};
use lrtable::{Action, StateGraph, StateTable};
use std::fmt::Write;
use std::sync::atomic::{AtomicUsize, Ordering};
use std::sync::{Arc, Barrier, OnceLock};

fn fnv(bytes: &[u8]) -> u64 {
    let mut h: u64 = 0xcbf29ce484222325;
    for b in bytes {
        h ^= *b as u64;
        h = h.wrapping_mul(0x100000001b3);
    }
    h
}

/// second, independent 64-bit hash (polynomial, different multiplier/seed)
fn poly(bytes: &[u8]) -> u64 {
    let mut h: u64 = 0x9e3779b97f4a7c15;
    for b in bytes {
        h = h.rotate_left(5) ^ (*b as u64);
        h = h.wrapping_mul(0xff51afd7ed558ccd).wrapping_add(0x2545F4914F6CDD1D);
    }
    h
}

fn span_s(s: cfgrammar::Span) -> String {
    format!("{}-{}", s.start(), s.end())
}

fn opt_hex(s: &Option<String>) -> String {
    match s {
        Some(x) => format!("s{}", hex(x)),
        None => "-".to_string(),
    }
}

/// everything of the grammar that dump_grammar does not print
fn dump_grammar_extra(grm: &cfgrammar::yacc::YaccGrammar<u32>) -> String {
    let mut o = String::new();
    write!(
        o,
        "GX {} {} {} {}",
        usize::from(grm.prods_len()),
        usize::from(grm.start_rule_idx()),
        match grm.implicit_rule() {
            Some(r) => usize::from(r).to_string(),
            None => "-".into(),
        },
        match (grm.expect(), grm.expectrr()) {
            (a, b) => format!("{:?}/{:?}", a, b).replace(' ', ""),
        }
    )
    .unwrap();
    for ridx in grm.iter_rules() {
        write!(o, " # RP {}", usize::from(ridx)).unwrap();
        for p in grm.rule_to_prods(ridx) {
            write!(o, " {}", usize::from(*p)).unwrap();
        }
        write!(o, " # RS {} {} {}", usize::from(ridx), span_s(grm.rule_name_span(ridx)), opt_hex(grm.actiontype(ridx))).unwrap();
    }
    let mut ai = Vec::new();
    for tidx in grm.iter_tidxs() {
        write!(
            o,
            " # TX {} {} {}",
            usize::from(tidx),
            match grm.token_epp(tidx) {
                Some(e) => format!("s{}", hex(e)),
                None => "-".into(),
            },
            match grm.token_span(tidx) {
                Some(s) => span_s(s),
                None => "-".into(),
            }
        )
        .unwrap();
        if grm.avoid_insert(tidx) {
            ai.push(usize::from(tidx));
        }
    }
    write!(o, " # AI").unwrap();
    for t in ai {
        write!(o, " {}", t).unwrap();
    }
    // name -> index lookups (tokens_map is a HashMap: sorted here)
    let mut tm: Vec<(String, usize)> = grm.tokens_map().iter().map(|(n, t)| (n.to_string(), usize::from(*t))).collect();
    tm.sort();
    write!(o, " # TM").unwrap();
    for (n, t) in tm {
        write!(o, " {}={}", hex(&n), t).unwrap();
        let back = grm.token_idx(&n).map(usize::from);
        if back != Some(t) {
            write!(o, "!{:?}", back).unwrap();
        }
    }
    for pidx in grm.iter_pidxs() {
        // prod_span / action of productions inserted by the grammar builder are known to
        // panic (a C10 finding); a panic is a (deterministic) outcome here
        let ps = catch(std::panic::AssertUnwindSafe(|| span_s(grm.prod_span(pidx)))).unwrap_or_else(|_| "P".into());
        let ac = catch(std::panic::AssertUnwindSafe(|| opt_hex(grm.action(pidx)))).unwrap_or_else(|_| "P".into());
        let asp = catch(std::panic::AssertUnwindSafe(|| match grm.action_span(pidx) {
            Some(s) => span_s(s),
            None => "-".into(),
        }))
        .unwrap_or_else(|_| "P".into());
        write!(o, " # PX {} {} {} {} {}", usize::from(pidx), usize::from(grm.prod_len(pidx)), ps, ac, asp).unwrap();
        write!(o, " # PN {} {}", usize::from(pidx), hex(&grm.pp_prod(pidx))).unwrap();
    }
    write!(
        o,
        " # GP {} {} {}",
        match grm.parse_param() {
            Some((a, b)) => format!("s{}:{}", hex(a), hex(b)),
            None => "-".into(),
        },
        opt_hex(grm.parse_generics()),
        opt_hex(grm.programs())
    )
    .unwrap();
    o
}

fn conflicts_dump(st: &StateTable<u32>) -> String {
    let mut o = String::new();
    match st.conflicts() {
        None => o.push_str("X none"),
        Some(c) => {
            write!(o, "X {} {}", c.sr_len(), c.rr_len()).unwrap();
            let raw_sr: Vec<(usize, usize, usize)> =
                c.sr_conflicts().map(|(t, p, s)| (usize::from(*s), usize::from(*t), usize::from(*p))).collect();
            let raw_rr: Vec<(usize, usize, usize, usize)> = c
                .rr_conflicts()
                .map(|(t, p1, p2, s)| (usize::from(*s), usize::from(*t), usize::from(*p1), usize::from(*p2)))
                .collect();
            let mut sr = raw_sr.clone();
            sr.sort();
            for (s, t, p) in &sr {
                write!(o, " # XS {} {} {}", s, t, p).unwrap();
            }
            let mut rr = raw_rr.clone();
            rr.sort();
            for (s, t, p1, p2) in &rr {
                write!(o, " # XR {} {} {} {}", s, t, p1, p2).unwrap();
            }
            // informational: the order in which the lists are reported (unspecified)
            write!(o, " # IXO").unwrap();
            for (s, t, p) in &raw_sr {
                write!(o, " {}.{}.{}", s, t, p).unwrap();
            }
            write!(o, " /").unwrap();
            for (s, t, p1, p2) in &raw_rr {
                write!(o, " {}.{}.{}.{}", s, t, p1, p2).unwrap();
            }
        }
    }
    o
}

fn dump_views(grm: &cfgrammar::yacc::YaccGrammar<u32>, sg: &StateGraph<u32>, st: &StateTable<u32>) -> String {
    let mut o = String::new();
    write!(o, "V {}", sg.all_edges_len()).unwrap();
    for stidx in sg.iter_stidxs() {
        let s = usize::from(stidx);
        write!(o, " # SA {}", s).unwrap();
        for t in st.state_actions(stidx) {
            write!(o, " {}", usize::from(t)).unwrap();
        }
        write!(o, " # SS {}", s).unwrap();
        for t in st.state_shifts(stidx) {
            write!(o, " {}", usize::from(t)).unwrap();
        }
        // core reduces: which member of a (rule, length) class is kept is documented as
        // unspecified, so the verdict sees the classes and the members are informational
        let mut classes: Vec<(usize, usize)> = Vec::new();
        let mut members: Vec<usize> = Vec::new();
        for p in st.core_reduces(stidx) {
            members.push(usize::from(p));
            classes.push((usize::from(grm.prod_to_rule(p)), usize::from(grm.prod_len(p))));
        }
        classes.sort();
        write!(o, " # CR {} {}", s, if st.reduce_only_state(stidx) { 1 } else { 0 }).unwrap();
        for (r, l) in classes {
            write!(o, " {}.{}", r, l).unwrap();
        }
        write!(o, " # ICR {}", s).unwrap();
        for p in members {
            write!(o, " {}", p).unwrap();
        }
        // edge() lookups agree with the edges() map
        for (sym, t) in sg.edges(stidx).iter() {
            if sg.edge(stidx, *sym) != Some(*t) {
                write!(o, " # EDGEMISMATCH {} {}", s, sym_code(sym)).unwrap();
            }
        }
    }
    write!(o, " # IPP {:016x} {:016x}", fnv(sg.pp_core_states(grm).as_bytes()), fnv(sg.pp_closed_states(grm).as_bytes())).unwrap();
    o
}

fn parse_outcome_with(grm: &cfgrammar::yacc::YaccGrammar<u32>, st: &StateTable<u32>, toks: &[u32], rk: RecoveryKind) -> String {
    let lexer = ReplayLexer::new(toks.to_vec());
    let r = catch(std::panic::AssertUnwindSafe(|| {
        let pb = RTParserBuilder::<u32, LT>::new(grm, st).recoverer(rk);
        pb.parse_map(
            &lexer,
            &|lexeme: Lx| Tree::Term(lexeme.tok_id(), lexeme.span().start(), lexeme.span().len(), lexeme.faulty()),
            &|ridx, nodes| Tree::Nonterm(u32::from(ridx), nodes),
        )
    }));
    match r {
        Err(m) => format!("panic {}", m.replace('\n', " ").replace('#', "")),
        Ok((val, errs)) => {
            let mut o = String::new();
            if errs.is_empty() {
                match val {
                    Some(t) => {
                        o.push_str("acc ");
                        t.pp(&mut o);
                    }
                    None => o.push_str("noval-noerr"),
                }
            } else {
                match &errs[0] {
                    LexParseError::ParseError(e) => {
                        write!(
                            o,
                            "rej {} {} nerr={} val={}",
                            lexeme_index(e.lexeme()),
                            usize::from(e.stidx()),
                            errs.len(),
                            if val.is_some() { 1 } else { 0 }
                        )
                        .unwrap();
                    }
                    LexParseError::LexError(_) => o.push_str("lexerr"),
                }
            }
            o
        }
    }
}

/// `Rule::start_states()` of every rule, in order (rules separated by `;`)
fn rule_start_states(lex: &str) -> String {
    use lrlex::LexerDef;
    match catch(std::panic::AssertUnwindSafe(|| lrlex::LRNonStreamingLexerDef::<LT>::from_str(lex))) {
        Err(_) => "panic".to_string(),
        Ok(Err(es)) => format!("err{}", es.len()),
        Ok(Ok(ld)) => ld
            .iter_rules()
            .map(|r| if r.start_states().is_empty() { "-".to_string() } else { r.start_states().iter().map(|x| x.to_string()).collect::<Vec<_>>().join(".") })
            .collect::<Vec<_>>()
            .join(";"),
    }
}

/// the run-time lexer definition of a lexer source (rule ids set from the grammar's token map)
fn lexer_transcript(lex: &str, grm: &cfgrammar::yacc::YaccGrammar<u32>) -> String {
    use lrlex::LexerDef;
    let r = catch(std::panic::AssertUnwindSafe(|| lrlex::LRNonStreamingLexerDef::<LT>::from_str(lex)));
    let mut ld = match r {
        Err(_) => return "LX panic".to_string(),
        Ok(Err(es)) => return format!("LX err {}", es.len()),
        Ok(Ok(ld)) => ld,
    };
    let map: std::collections::HashMap<&str, u32> = grm.tokens_map().iter().map(|(n, t)| (*n, u32::from(*t))).collect();
    let (mfl, mfp) = ld.set_rule_ids(&map);
    let sorted = |x: Option<std::collections::HashSet<&str>>| -> String {
        let mut v: Vec<String> = x.map(|s| s.iter().map(|n| hex(n)).collect()).unwrap_or_default();
        v.sort();
        v.join(",")
    };
    let mut o = format!("LX ok mfl={} mfp={}", sorted(mfl), sorted(mfp));
    for (i, ss) in ld.iter_start_states().enumerate() {
        write!(o, " # LQ {} {}", i, hex(&format!("{:?}", ss))).unwrap();
    }
    for (i, r) in ld.iter_rules().enumerate() {
        write!(
            o,
            " # LU {} {} {} {} {} {}",
            i,
            r.tok_id().map(|t| t.to_string()).unwrap_or_else(|| "-".into()),
            r.name().map(|n| format!("s{}", hex(n))).unwrap_or_else(|| "-".into()),
            hex(r.re_str()),
            if r.start_states().is_empty() { "-".to_string() } else { r.start_states().iter().map(|x| x.to_string()).collect::<Vec<_>>().join(".") },
            hex(&format!("{:?}", r.target_state()))
        )
        .unwrap();
    }
    o
}

struct Case {
    kind: String,
    src: String,
    lex: Option<String>,
    opts: std::collections::HashMap<String, String>,
    inputs: Vec<String>,
}

fn parse_opts(s: Option<&str>) -> std::collections::HashMap<String, String> {
    match s {
        None | Some("-") => Default::default(),
        Some(x) => x
            .split(',')
            .filter_map(|kv| kv.split_once('=').map(|(a, b)| (a.to_string(), b.to_string())))
            .collect(),
    }
}

fn vis_p(c: &str) -> lrpar::Visibility {
    match c {
        "1" => lrpar::Visibility::Public,
        "2" => lrpar::Visibility::PublicSuper,
        "3" => lrpar::Visibility::PublicSelf,
        "4" => lrpar::Visibility::PublicCrate,
        "5" => lrpar::Visibility::PublicIn("crate".to_string()),
        _ => lrpar::Visibility::Private,
    }
}
fn vis_l(c: &str) -> lrlex::Visibility {
    match c {
        "1" => lrlex::Visibility::Public,
        "2" => lrlex::Visibility::PublicSuper,
        "3" => lrlex::Visibility::PublicSelf,
        "4" => lrlex::Visibility::PublicCrate,
        "5" => lrlex::Visibility::PublicIn("crate".to_string()),
        _ => lrlex::Visibility::Private,
    }
}
fn ed_p(c: &str) -> lrpar::RustEdition {
    match c {
        "15" => lrpar::RustEdition::Rust2015,
        "18" => lrpar::RustEdition::Rust2018,
        _ => lrpar::RustEdition::Rust2021,
    }
}
fn ed_l(c: &str) -> lrlex::RustEdition {
    match c {
        "15" => lrlex::RustEdition::Rust2015,
        "18" => lrlex::RustEdition::Rust2018,
        _ => lrlex::RustEdition::Rust2021,
    }
}

/// the rarely used knobs of the parser builder (4th head field of a case)
fn knobs_p<'a>(
    mut ctp: CTParserBuilder<'a, LT>,
    o: &std::collections::HashMap<String, String>,
    modname: Option<&'static str>,
) -> CTParserBuilder<'a, LT> {
    if let Some(v) = o.get("pvis") {
        ctp = ctp.visibility(vis_p(v));
    }
    if let Some(v) = o.get("ped") {
        ctp = ctp.rust_edition(ed_p(v));
    }
    if let Some(m) = modname {
        ctp = ctp.mod_name(m);
    }
    match o.get("rec").map(|x| x.as_str()) {
        Some("C") => ctp = ctp.recoverer(RecoveryKind::CPCTPlus),
        Some("N") => ctp = ctp.recoverer(RecoveryKind::None),
        _ => (),
    }
    if let Some(v) = o.get("psw") {
        ctp = ctp.show_warnings(v == "1");
    }
    ctp
}

fn parse_case(line: &str) -> Case {
    let mut parts = line.split(';');
    let head = parts.next().unwrap();
    let mut hs = head.split_whitespace();
    let kind = hs.next().unwrap().to_string();
    let src = unhex(hs.next().unwrap_or(""));
    let lex = match hs.next() {
        None | Some("-") => None,
        Some(h) => Some(unhex(h)),
    };
    let opts = parse_opts(hs.next());
    Case { kind, src, lex, opts, inputs: parts.map(|s| s.to_string()).collect() }
}

fn inputs_as_tokens(grm: &cfgrammar::yacc::YaccGrammar<u32>, inputs: &[String]) -> Vec<Vec<u32>> {
    let mut res = Vec::new();
    for inp in inputs {
        let mut toks: Vec<u32> = Vec::new();
        let mut ok = true;
        for n in inp.split_whitespace() {
            match grm.token_idx(n) {
                Some(t) => toks.push(u32::from(t)),
                None => ok = false,
            }
        }
        if ok {
            res.push(toks);
        }
    }
    res
}

fn digest(line: &str) -> String {
    let c = parse_case(line);
    let b = match catch(std::panic::AssertUnwindSafe(|| build(&c.kind, &c.src))) {
        Err(m) => return format!("BUILDPANIC {}", m.replace('\n', " ")),
        Ok(Err(e)) => return e,
        Ok(Ok(b)) => b,
    };
    let mut o = dump_grammar(&b.grm);
    o.push_str(" # ");
    o.push_str(&dump_grammar_extra(&b.grm));
    o.push_str(" # ");
    o.push_str(&dump_automaton(&b.grm, &b.sg, &b.st));
    o.push_str(" # ");
    o.push_str(&dump_views(&b.grm, &b.sg, &b.st));
    o.push_str(" # ");
    o.push_str(&conflicts_dump(&b.st));
    for toks in inputs_as_tokens(&b.grm, &c.inputs) {
        write!(o, " # IN").unwrap();
        for t in &toks {
            write!(o, " {}", t).unwrap();
        }
        write!(o, " # O {}", parse_outcome_with(&b.grm, &b.st, &toks, RecoveryKind::None)).unwrap();
    }
    // the same inputs under CPCT+ (tree, per error the complete ordered repairs() list, later errors) where that is a function
    // of the input; an input that is skipped (clock) is named in an informational section so that the caller can drop it everywhere
    if plain_table(&b.grm, &b.st) {
        for (i, toks) in inputs_as_tokens(&b.grm, &c.inputs).iter().enumerate() {
            match cpct_determined(&b.grm, &b.st, toks) {
                (Some(out), class, _) => write!(o, " # OC {} tied={} {}", i, if class == RecClass::Tied { 1 } else { 0 }, out.replace('#', "")).unwrap(),
                (None, _, _) => write!(o, " # IOCSKIP {}", i).unwrap(),
            }
        }
    }
    if let Some(lex) = &c.lex {
        o.push_str(" # ");
        o.push_str(&lexer_transcript(lex, &b.grm));
    }
    o
}

// ------------------------------------------------------------------ gen mode

static COUNTER: AtomicUsize = AtomicUsize::new(0);

fn normalise(bytes: &[u8], dir: &str) -> Vec<u8> {
    // remove the per-process directory and the embedded build timestamps:
    //   lrlex : first line  `// lrlex build time: "…"`
    //   lrpar : `BUILD_TIME = \"…\"` inside the trailing `/* CACHE INFORMATION … */`
    let s = String::from_utf8_lossy(bytes).replace(dir, "<DIR>");
    let mut out = String::new();
    for l in s.split_inclusive('\n') {
        if l.starts_with("// lrlex build time:") {
            out.push_str("// lrlex build time: <T>\n");
            continue;
        }
        if let Some(i) = l.find("BUILD_TIME = \\\"") {
            let rest = &l[i + 15..];
            if let Some(j) = rest.find("\\\"") {
                out.push_str(&l[..i]);
                out.push_str("BUILD_TIME = <T>");
                out.push_str(&rest[j + 2..]);
                continue;
            }
        }
        out.push_str(l);
    }
    out.into_bytes()
}

fn gen(line: &str) -> String {
    let c = parse_case(line);
    let yk = yacckind(&c.kind);
    if let YaccKind::Eco = yk {
        return "GEN unsupported-kind".to_string();
    }
    let lex = match &c.lex {
        Some(l) => l.clone(),
        None => return "GEN no-lexer".to_string(),
    };
    let n = COUNTER.fetch_add(1, Ordering::SeqCst);
    let dir = format!("/verif/.work/c15/{}-{}", std::process::id(), n);
    std::fs::create_dir_all(&dir).expect("mkdir");
    let yp = format!("{}/g.y", dir);
    let lp = format!("{}/g.l", dir);
    let y2 = format!("{}/h.y", dir);
    std::fs::write(&yp, &c.src).unwrap();
    std::fs::write(&y2, &c.src).unwrap();
    std::fs::write(&lp, &lex).unwrap();
    let mut o = String::new();
    // (1) lexer + parser through CTLexerBuilder (default var-int serialisation)
    let dir1 = dir.clone();
    let leak = |k: &str| -> Option<&'static str> { c.opts.get(k).map(|m| &*Box::leak(m.clone().into_boxed_str())) };
    let (pmod, lmod) = (leak("pmod"), leak("lmod"));
    let opts1 = c.opts.clone();
    let flag = |k: &str, default: bool| c.opts.get(k).map(|v| v == "1").unwrap_or(default);
    let r = catch(std::panic::AssertUnwindSafe(|| {
        let yp = yp.clone();
        let mut ctl = lrlex::CTLexerBuilder::new()
            .lrpar_config(move |ctp| {
                knobs_p(
                    ctp.yacckind(yk).error_on_conflicts(false).warnings_are_errors(false).show_warnings(false),
                    &opts1,
                    pmod,
                )
                .grammar_path(yp.clone())
                .output_path(format!("{}/g.y.rs", dir1))
            })
            .lexer_path(lp.clone())
            .output_path(format!("{}/g.l.rs", dir))
            .show_warnings(flag("lsw", false))
            .allow_missing_terms_in_lexer(flag("amtl", true))
            .allow_missing_tokens_in_parser(flag("amtp", true));
        if let Some(v) = c.opts.get("lvis") {
            ctl = ctl.visibility(vis_l(v));
        }
        if let Some(v) = c.opts.get("led") {
            ctl = ctl.rust_edition(ed_l(v));
        }
        if let Some(m) = lmod {
            ctl = ctl.mod_name(m);
        }
        if c.opts.get("lk").map(|v| v == "1").unwrap_or(false) {
            ctl = ctl.lexerkind(lrlex::LexerKind::LRNonStreamingLexer);
        }
        let res = ctl.build();
        res.map(|_| ()).map_err(|e| format!("{}", e))
    }));
    match r {
        Err(m) => write!(o, "GEN1 panic {}", m.replace('\n', " ").replace('#', "")).unwrap(),
        Ok(Err(e)) => write!(o, "GEN1 err {}", e.replace('\n', " ").replace('#', "").replace(&dir, "<DIR>")).unwrap(),
        Ok(Ok(())) => write!(o, "GEN1 ok").unwrap(),
    }
    // (2) parser alone, fixed-int serialisation, other module name
    let r = catch(std::panic::AssertUnwindSafe(|| {
        let res = knobs_p(
            CTParserBuilder::<LT>::new().yacckind(yk).error_on_conflicts(false).warnings_are_errors(false).show_warnings(false),
            &c.opts,
            pmod,
        )
            .serialisation_format(lrpar::ctbuilder::SerialisationFormat::FixedSizeInteger)
            .grammar_path(y2.clone())
            .output_path(format!("{}/h.y.rs", dir))
            .build();
        match res {
            Ok(ctp) => {
                let mut tm: Vec<(String, u32)> = ctp.token_map().iter().map(|(k, v)| (k.clone(), *v)).collect();
                tm.sort();
                // (3) token map module (needs OUT_DIR)
                std::env::set_var("OUT_DIR", &dir);
                // tokens whose names are not Rust identifiers get a deterministic replacement name
                let renames: Vec<(String, String)> = tm
                    .iter()
                    .filter(|(k, _)| !k.chars().all(|c| c.is_ascii_alphanumeric() || c == '_') || k.chars().next().map_or(true, |c| c.is_ascii_digit()))
                    .map(|(k, _)| (k.clone(), format!("X{}", hex(k))))
                    .collect();
                let r3 = lrlex::CTTokenMapBuilder::<u32>::new("tokmap", ctp.token_map())
                    .rename_map(Some(renames))
                    .allow_dead_code(true)
                    .build();
                std::env::remove_var("OUT_DIR");
                Ok((tm, r3.map_err(|e| format!("{}", e))))
            }
            Err(e) => Err(format!("{}", e)),
        }
    }));
    match r {
        Err(m) => write!(o, " # GEN2 panic {}", m.replace('\n', " ").replace('#', "")).unwrap(),
        Ok(Err(e)) => write!(o, " # GEN2 err {}", e.replace('\n', " ").replace('#', "").replace(&dir, "<DIR>")).unwrap(),
        Ok(Ok((tm, r3))) => {
            write!(o, " # GEN2 ok").unwrap();
            for (k, v) in tm {
                write!(o, " {}={}", hex(&k), v).unwrap();
            }
            match r3 {
                Ok(()) => write!(o, " # GEN3 ok").unwrap(),
                Err(e) => write!(o, " # GEN3 err {}", e.replace('\n', " ").replace('#', "")).unwrap(),
            }
        }
    }
    let mut names: Vec<String> = std::fs::read_dir(&dir)
        .unwrap()
        .filter_map(|e| e.ok())
        .map(|e| e.file_name().to_string_lossy().to_string())
        .filter(|n| n.ends_with(".rs"))
        .collect();
    names.sort();
    for nme in names {
        let bytes = std::fs::read(format!("{}/{}", dir, nme)).unwrap();
        let nb = normalise(&bytes, &dir);
        write!(o, " # F {} {} {:016x}{:016x}", nme, nb.len(), fnv(&nb), poly(&nb)).unwrap();
    }
    if std::env::var("C15_KEEP").is_ok() {
        write!(o, " # DIR {}", dir).unwrap();
    } else {
        std::fs::remove_dir_all(&dir).ok();
    }
    o
}

// -------------------------------------------------------------- lexgen mode

macro_rules! lexgen_for {
    ($name:ident, $t:ty) => {
        fn $name(lex: &str, map: &[(String, u64)], has_map: bool, o: &std::collections::HashMap<String, String>) -> String {
            let n = COUNTER.fetch_add(1, Ordering::SeqCst);
            let dir = format!("/verif/.work/c15/{}-L{}", std::process::id(), n);
            std::fs::create_dir_all(&dir).expect("mkdir");
            let lp = format!("{}/g.l", dir);
            std::fs::write(&lp, lex).unwrap();
            let reps: usize = o.get("reps").and_then(|x| x.parse().ok()).unwrap_or(1);
            let modname: Option<&'static str> = o.get("mod").map(|m| &*Box::leak(m.clone().into_boxed_str()));
            let mut out = String::new();
            for rep in 0..reps {
                let rdir = format!("{}/r{}", dir, rep);
                std::fs::create_dir_all(&rdir).expect("mkdir");
                let outp = format!("{}/g.l.rs", rdir);
                // a FRESH map per repetition: equal to all the others, own hash keys; insertion order rotated
                let mut m: std::collections::HashMap<String, $t> = std::collections::HashMap::new();
                for i in 0..map.len() {
                    let (k, v) = &map[(i + rep * 3) % map.len()];
                    m.insert(k.clone(), *v as $t);
                }
                let r = catch(std::panic::AssertUnwindSafe(|| {
                    let mut ctl = lrlex::CTLexerBuilder::<lrlex::DefaultLexerTypes<$t>>::new_with_lexemet();
                    if has_map {
                        ctl = ctl.rule_ids_map(&m);
                    }
                    if let Some(v) = o.get("vis") {
                        ctl = ctl.visibility(vis_l(v));
                    }
                    if let Some(v) = o.get("ed") {
                        ctl = ctl.rust_edition(ed_l(v));
                    }
                    if let Some(mn) = modname {
                        ctl = ctl.mod_name(mn);
                    }
                    if o.get("lk").map(|v| v == "1").unwrap_or(false) {
                        ctl = ctl.lexerkind(lrlex::LexerKind::LRNonStreamingLexer);
                    }
                    for (k, f) in [("amtl", 0), ("amtp", 1), ("sw", 2), ("wae", 3), ("ci", 4)] {
                        if let Some(v) = o.get(k) {
                            let b = v == "1";
                            ctl = match f {
                                0 => ctl.allow_missing_terms_in_lexer(b),
                                1 => ctl.allow_missing_tokens_in_parser(b),
                                2 => ctl.show_warnings(b),
                                3 => ctl.warnings_are_errors(b),
                                _ => ctl.case_insensitive(b),
                            };
                        }
                    }
                    if o.get("api").map(|v| v == "pf").unwrap_or(false) {
                        ctl.process_file(&lp, &outp).map(|_| ()).map_err(|e| format!("{}", e))
                    } else {
                        ctl.lexer_path(&lp).output_path(&outp).build().map(|_| ()).map_err(|e| format!("{}", e))
                    }
                }));
                if rep > 0 {
                    out.push_str(" # ");
                }
                match r {
                    Err(mm) => write!(out, "LGEN panic {}", mm.replace('\n', " ").replace('#', "")).unwrap(),
                    Ok(Err(e)) => write!(out, "LGEN err {}", e.replace('\n', " ").replace('#', "").replace(&dir, "<DIR>")).unwrap(),
                    Ok(Ok(())) => write!(out, "LGEN ok").unwrap(),
                }
                match std::fs::read(&outp) {
                    Ok(bytes) => {
                        let nb = normalise(&bytes, &dir);
                        write!(out, " # F g.l.rs {} {:016x}{:016x}", nb.len(), fnv(&nb), poly(&nb)).unwrap();
                    }
                    Err(_) => write!(out, " # F g.l.rs - -").unwrap(),
                }
                write!(out, " # RS {}", rule_start_states(lex)).unwrap();
            }
            if std::env::var("C15_KEEP").is_ok() {
                write!(out, " # DIR {}", dir).unwrap();
            } else {
                std::fs::remove_dir_all(&dir).ok();
            }
            out
        }
    };
}
lexgen_for!(lexgen_u8, u8);
lexgen_for!(lexgen_u16, u16);
lexgen_for!(lexgen_u32, u32);

fn lexgen(line: &str) -> String {
    let mut hs = line.split_whitespace();
    if hs.next() != Some("L") {
        return "BADCASE".to_string();
    }
    let lex = unhex(hs.next().unwrap_or(""));
    let maps = hs.next().unwrap_or("-");
    let o = parse_opts(hs.next());
    let has_map = maps != "-";
    let mut map: Vec<(String, u64)> = Vec::new();
    if has_map && maps != "=" {
        for kv in maps.split(',') {
            match kv.split_once('=') {
                Some((k, v)) => map.push((unhex(k), v.parse().unwrap_or(0))),
                None => return "BADCASE".to_string(),
            }
        }
    }
    match o.get("st").map(|x| x.as_str()) {
        Some("u8") => lexgen_u8(&lex, &map, has_map, &o),
        Some("u16") => lexgen_u16(&lex, &map, has_map, &o),
        _ => lexgen_u32(&lex, &map, has_map, &o),
    }
}

// -------------------------------------------------------------- tokmap mode

macro_rules! tokmap_for {
    ($name:ident, $t:ty) => {
        fn $name(map: &[(String, u64)], ren: &Option<Vec<(String, String)>>, o: &std::collections::HashMap<String, String>) -> String {
            let n = COUNTER.fetch_add(1, Ordering::SeqCst);
            let dir = format!("/verif/.work/c15/{}-M{}", std::process::id(), n);
            std::fs::create_dir_all(&dir).expect("mkdir");
            let reps: usize = o.get("reps").and_then(|x| x.parse().ok()).unwrap_or(1);
            let mut out = String::new();
            for rep in 0..reps {
                let rdir = format!("{}/r{}", dir, rep);
                std::fs::create_dir_all(&rdir).expect("mkdir");
                // a FRESH map per repetition: equal to all the others, own hash keys; insertion order rotated
                let mut m: std::collections::HashMap<String, $t> = std::collections::HashMap::new();
                for i in 0..map.len() {
                    let (k, v) = &map[(i + rep * 3) % map.len()];
                    m.insert(k.clone(), *v as $t);
                }
                std::env::set_var("OUT_DIR", &rdir);
                let r = catch(std::panic::AssertUnwindSafe(|| {
                    if o.get("fn").map(|v| v == "1").unwrap_or(false) {
                        let rm: Option<std::collections::HashMap<&str, &str>> =
                            ren.as_ref().map(|v| v.iter().map(|(a, b)| (a.as_str(), b.as_str())).collect());
                        lrlex::ct_token_map::<$t>("tokmap", &m, rm.as_ref()).map_err(|e| format!("{}", e))
                    } else {
                        let mut b = lrlex::CTTokenMapBuilder::<$t>::new("tokmap", &m);
                        if let Some(v) = ren {
                            b = b.rename_map(Some(v.clone()));
                        }
                        if let Some(v) = o.get("adc") {
                            b = b.allow_dead_code(v == "1");
                        }
                        b.build().map_err(|e| format!("{}", e))
                    }
                }));
                std::env::remove_var("OUT_DIR");
                if rep > 0 {
                    out.push_str(" # ");
                }
                match r {
                    Err(mm) => write!(out, "TGEN panic {}", mm.replace('\n', " ").replace('#', "")).unwrap(),
                    Ok(Err(e)) => write!(out, "TGEN err {}", e.replace('\n', " ").replace('#', "").replace(&dir, "<DIR>")).unwrap(),
                    Ok(Ok(())) => write!(out, "TGEN ok").unwrap(),
                }
                match std::fs::read(format!("{}/tokmap.rs", rdir)) {
                    Ok(bytes) => {
                        let nb = normalise(&bytes, &dir);
                        write!(out, " # F tokmap.rs {} {:016x}{:016x}", nb.len(), fnv(&nb), poly(&nb)).unwrap();
                    }
                    Err(_) => write!(out, " # F tokmap.rs - -").unwrap(),
                }
            }
            if std::env::var("C15_KEEP").is_ok() {
                write!(out, " # DIR {}", dir).unwrap();
            } else {
                std::fs::remove_dir_all(&dir).ok();
            }
            out
        }
    };
}
tokmap_for!(tokmap_u8, u8);
tokmap_for!(tokmap_u16, u16);
tokmap_for!(tokmap_u32, u32);

fn tokmap(line: &str) -> String {
    let mut hs = line.split_whitespace();
    if hs.next() != Some("M") {
        return "BADCASE".to_string();
    }
    let mut map: Vec<(String, u64)> = Vec::new();
    for kv in hs.next().unwrap_or("").split(',').filter(|x| !x.is_empty()) {
        match kv.split_once('=') {
            Some((k, v)) => map.push((unhex(k), v.parse().unwrap_or(0))),
            None => return "BADCASE".to_string(),
        }
    }
    let ren = match hs.next() {
        None | Some("-") => None,
        Some(x) => {
            let mut v = Vec::new();
            for kv in x.split(',').filter(|x| !x.is_empty()) {
                match kv.split_once('=') {
                    Some((a, b)) => v.push((unhex(a), unhex(b))),
                    None => return "BADCASE".to_string(),
                }
            }
            Some(v)
        }
    };
    let o = parse_opts(hs.next());
    if map.is_empty() {
        return "BADCASE".to_string();
    }
    match o.get("st").map(|x| x.as_str()) {
        Some("u8") => tokmap_u8(&map, &ren, &o),
        Some("u16") => tokmap_u16(&map, &ren, &o),
        _ => tokmap_u32(&map, &ren, &o),
    }
}

// ---------------------------------------------------------------- fail mode

fn dbg_hex<T: std::fmt::Debug>(x: &T) -> String {
    hex(&format!("{:?}", x))
}

fn fail_yacc(kind: &str, src: &str) -> String {
    use cfgrammar::yacc::ast::ASTWithValidityInfo;
    let yk = yacckind(kind);
    let r = catch(std::panic::AssertUnwindSafe(|| {
        let av = ASTWithValidityInfo::new(yk, src);
        let mut o = format!("FY {}", if av.is_valid() { "valid" } else { "invalid" });
        for e in av.errors() {
            write!(o, " # E {} {}", dbg_hex(e), hex(&format!("{}", e))).unwrap();
        }
        match catch(std::panic::AssertUnwindSafe(|| av.ast().warnings())) {
            Ok(ws) => {
                for w in ws {
                    write!(o, " # W {}", dbg_hex(&w)).unwrap();
                }
            }
            Err(_) => o.push_str(" # WPANIC"),
        }
        o
    }));
    let mut o = match r {
        Ok(o) => o,
        Err(m) => format!("FY panic {}", hex(&m)),
    };
    match catch(std::panic::AssertUnwindSafe(|| cfgrammar::yacc::YaccGrammar::<u32>::new_with_storaget(yk, src))) {
        Err(m) => write!(o, " # G panic {}", hex(&m)).unwrap(),
        Ok(Ok(_)) => o.push_str(" # G ok"),
        Ok(Err(es)) => {
            write!(o, " # G err {}", es.len()).unwrap();
            for e in &es {
                write!(o, " # GE {}", dbg_hex(e)).unwrap();
            }
        }
    }
    o
}

fn fail_lex(lex: &str) -> String {
    use lrlex::LexerDef;
    match catch(std::panic::AssertUnwindSafe(|| lrlex::LRNonStreamingLexerDef::<LT>::from_str(lex))) {
        Err(m) => format!("FX panic {}", hex(&m)),
        Ok(Ok(_)) => "FX ok".to_string(),
        Ok(Err(es)) => {
            let mut o = format!("FX err {}", es.len());
            for e in &es {
                write!(o, " # E {} {}", dbg_hex(e), hex(&format!("{}", e))).unwrap();
            }
            o
        }
    }
}

fn fail_build(kind: &str, src: &str, lex: Option<&str>, o: &std::collections::HashMap<String, String>) -> String {
    let yk = yacckind(kind);
    let n = COUNTER.fetch_add(1, Ordering::SeqCst);
    let dir = format!("/verif/.work/c15/{}-B{}", std::process::id(), n);
    std::fs::create_dir_all(&dir).expect("mkdir");
    let yp = format!("{}/g.y", dir);
    let lp = format!("{}/g.l", dir);
    std::fs::write(&yp, src).unwrap();
    if let Some(l) = lex {
        std::fs::write(&lp, l).unwrap();
    }
    let flag = |k: &str, default: bool| o.get(k).map(|v| v == "1").unwrap_or(default);
    let (eoc, wae, sw) = (flag("eoc", true), flag("wae", false), flag("sw", true));
    let via_parser = lex.is_none() || o.get("via").map(|v| v == "p").unwrap_or(false);
    let r = catch(std::panic::AssertUnwindSafe(|| {
        if via_parser {
            CTParserBuilder::<LT>::new()
                .yacckind(yk)
                .error_on_conflicts(eoc)
                .warnings_are_errors(wae)
                .show_warnings(sw)
                .grammar_path(yp.clone())
                .output_path(format!("{}/g.y.rs", dir))
                .build()
                .map(|_| ())
                .map_err(|e| format!("{}", e))
        } else {
            let (yp2, dir2) = (yp.clone(), dir.clone());
            lrlex::CTLexerBuilder::new()
                .lrpar_config(move |ctp| {
                    ctp.yacckind(yk)
                        .error_on_conflicts(eoc)
                        .warnings_are_errors(wae)
                        .show_warnings(sw)
                        .grammar_path(yp2.clone())
                        .output_path(format!("{}/g.y.rs", dir2))
                })
                .lexer_path(lp.clone())
                .output_path(format!("{}/g.l.rs", dir))
                .show_warnings(sw)
                .warnings_are_errors(wae)
                .allow_missing_terms_in_lexer(flag("amtl", false))
                .allow_missing_tokens_in_parser(flag("amtp", true))
                .build()
                .map(|_| ())
                .map_err(|e| format!("{}", e))
        }
    }));
    let mut out = match r {
        Err(m) => format!("FB panic {}", hex(&m.replace(&dir, "<DIR>"))),
        Ok(Err(e)) => format!("FB err {}", hex(&e.replace(&dir, "<DIR>"))),
        Ok(Ok(())) => "FB ok".to_string(),
    };
    let mut names: Vec<String> = std::fs::read_dir(&dir)
        .map(|d| d.filter_map(|e| e.ok()).map(|e| e.file_name().to_string_lossy().to_string()).filter(|n| n.ends_with(".rs")).collect())
        .unwrap_or_default();
    names.sort();
    write!(out, " # FILES {}", if names.is_empty() { "-".to_string() } else { names.join(",") }).unwrap();
    write!(out, " # DIRNAME {}", hex(&dir)).unwrap();
    std::fs::remove_dir_all(&dir).ok();
    out
}

fn fail_lexer_alone(lex: &str, map: &[(String, u32)], o: &std::collections::HashMap<String, String>) -> String {
    let n = COUNTER.fetch_add(1, Ordering::SeqCst);
    let dir = format!("/verif/.work/c15/{}-B{}", std::process::id(), n);
    std::fs::create_dir_all(&dir).expect("mkdir");
    let lp = format!("{}/g.l", dir);
    std::fs::write(&lp, lex).unwrap();
    let flag = |k: &str, default: bool| o.get(k).map(|v| v == "1").unwrap_or(default);
    let m: std::collections::HashMap<String, u32> = map.iter().cloned().collect();
    let r = catch(std::panic::AssertUnwindSafe(|| {
        lrlex::CTLexerBuilder::<LT>::new_with_lexemet()
            .rule_ids_map(&m)
            .lexer_path(&lp)
            .output_path(format!("{}/g.l.rs", dir))
            .show_warnings(flag("sw", true))
            .warnings_are_errors(flag("wae", false))
            .allow_missing_terms_in_lexer(flag("amtl", false))
            .allow_missing_tokens_in_parser(flag("amtp", true))
            .build()
            .map(|_| ())
            .map_err(|e| format!("{}", e))
    }));
    let mut out = match r {
        Err(m) => format!("FB panic {}", hex(&m.replace(&dir, "<DIR>"))),
        Ok(Err(e)) => format!("FB err {}", hex(&e.replace(&dir, "<DIR>"))),
        Ok(Ok(())) => "FB ok".to_string(),
    };
    let mut names: Vec<String> = std::fs::read_dir(&dir)
        .map(|d| d.filter_map(|e| e.ok()).map(|e| e.file_name().to_string_lossy().to_string()).filter(|n| n.ends_with(".rs")).collect())
        .unwrap_or_default();
    names.sort();
    write!(out, " # FILES {}", if names.is_empty() { "-".to_string() } else { names.join(",") }).unwrap();
    write!(out, " # DIRNAME {}", hex(&dir)).unwrap();
    std::fs::remove_dir_all(&dir).ok();
    out
}

fn fail(line: &str) -> String {
    eprintln!("@@C15CASE");
    let mut hs = line.split_whitespace();
    match hs.next() {
        Some("Y") => {
            let kind = hs.next().unwrap_or("O").to_string();
            fail_yacc(&kind, &unhex(hs.next().unwrap_or("")))
        }
        Some("X") => fail_lex(&unhex(hs.next().unwrap_or(""))),
        Some("B") => {
            let kind = hs.next().unwrap_or("O").to_string();
            let src = unhex(hs.next().unwrap_or(""));
            let lex = match hs.next() {
                None | Some("-") => None,
                Some(h) => Some(unhex(h)),
            };
            let o = parse_opts(hs.next());
            fail_build(&kind, &src, lex.as_deref(), &o)
        }
        Some("M") => {
            let lex = unhex(hs.next().unwrap_or(""));
            let mut map: Vec<(String, u32)> = Vec::new();
            for kv in hs.next().unwrap_or("").split(',').filter(|x| !x.is_empty()) {
                match kv.split_once('=') {
                    Some((k, v)) => map.push((unhex(k), v.parse().unwrap_or(0))),
                    None => return "BADCASE".to_string(),
                }
            }
            let o = parse_opts(hs.next());
            fail_lexer_alone(&lex, &map, &o)
        }
        _ => "BADCASE".to_string(),
    }
}

// -------------------------------------------------------------- threads mode

const NTHREADS: usize = 8;

/// What CPCT+ makes of an input.  `Tied`: some error has >= 2 repair sequences of the first rank (rank = (contains an
/// %avoid_insert insertion, length): `simplify_repairs`).  Up to /repo ca69cd1^ the applied one among them was chosen by the
/// iteration order of a randomly seeded HashSet; since ca69cd1 they stay in the order in which the search found them.
#[derive(Clone, Copy, PartialEq, Eq, Debug)]
enum RecClass {
    NoError,
    UniqueFirst,
    Tied,
    NoRepairs,
    Other,
}

fn repair_s(r: &lrpar::ParseRepair<Lx, u32>) -> String {
    match r {
        lrpar::ParseRepair::Insert(t) => format!("I{}", usize::from(*t)),
        lrpar::ParseRepair::Delete(l) => format!("D{}", lexeme_index(l)),
        lrpar::ParseRepair::Shift(l) => format!("S{}", lexeme_index(l)),
    }
}

/// parse with CPCT+; the outcome is the tree and per error its position, state and the complete `repairs()` list in order
fn parse_outcome_cpct(grm: &cfgrammar::yacc::YaccGrammar<u32>, st: &StateTable<u32>, toks: &[u32]) -> (String, RecClass) {
    let lexer = ReplayLexer::new(toks.to_vec());
    let r = catch(std::panic::AssertUnwindSafe(|| {
        let pb = RTParserBuilder::<u32, LT>::new(grm, st).recoverer(RecoveryKind::CPCTPlus);
        pb.parse_map(
            &lexer,
            &|lexeme: Lx| Tree::Term(lexeme.tok_id(), lexeme.span().start(), lexeme.span().len(), lexeme.faulty()),
            &|ridx, nodes| Tree::Nonterm(u32::from(ridx), nodes),
        )
    }));
    match r {
        Err(m) => (format!("panic {}", m.replace('\n', " ").replace('#', "")), RecClass::Other),
        Ok((val, errs)) => {
            let mut o = String::new();
            let mut class = if errs.is_empty() { RecClass::NoError } else { RecClass::UniqueFirst };
            match &val {
                Some(t) => {
                    o.push_str("val ");
                    t.pp(&mut o);
                }
                None => o.push_str("noval"),
            }
            for e in &errs {
                match e {
                    LexParseError::ParseError(e) => {
                        let rs = e.repairs();
                        let key = |r: &Vec<lrpar::ParseRepair<Lx, u32>>| {
                            (r.iter().any(|x| matches!(x, lrpar::ParseRepair::Insert(t) if grm.avoid_insert(*t))), r.len())
                        };
                        if rs.is_empty() {
                            if class != RecClass::Tied {
                                class = RecClass::NoRepairs;
                            }
                        } else if rs.len() >= 2 && key(&rs[0]) == key(&rs[1]) {
                            class = RecClass::Tied;
                        }
                        // the complete repairs() list IN ORDER (the first sequence is the one that was applied)
                        write!(o, " / err {} {} repairs=", lexeme_index(e.lexeme()), usize::from(e.stidx())).unwrap();
                        let all: Vec<String> = rs.iter().map(|r| r.iter().map(repair_s).collect::<Vec<_>>().join(".")).collect();
                        o.push_str(&all.join(","));
                    }
                    LexParseError::LexError(_) => {
                        o.push_str(" / lexerr");
                        class = RecClass::Other;
                    }
                }
            }
            (o, class)
        }
    }
}

const BUDGET_VAR: &str = "GRMTOOLS_VERIF_RECOVERY_BUDGET_MS";

/// CPCT+ on a table with conflicts, or with cells settled by precedence, can run without end (recorded findings of the
/// recovery properties C05-C07): there the comparisons stay with recovery off
fn plain_table(grm: &cfgrammar::yacc::YaccGrammar<u32>, st: &StateTable<u32>) -> bool {
    st.conflicts().is_none() && grm.iter_tidxs().all(|t| grm.token_precedence(t).is_none())
}

/// One CPCT+ parse under a 40 ms budget.  `Some` iff the result is a function of the input: no panic / lex error and the parse
/// ended within 20 ms, i.e. every recovery ended by itself (exhaustive search), not because the clock ran out.
fn cpct_determined(grm: &cfgrammar::yacc::YaccGrammar<u32>, st: &StateTable<u32>, toks: &[u32]) -> (Option<String>, RecClass, bool) {
    std::env::set_var(BUDGET_VAR, "40");
    let t0 = std::time::Instant::now();
    let (out, class) = parse_outcome_cpct(grm, st, toks);
    let fast = t0.elapsed().as_millis() < 20;
    if class == RecClass::Other || !fast {
        (None, class, fast)
    } else {
        (Some(out), class, fast)
    }
}

/// recovery off for every input; CPCT+ in addition for the inputs whose sequential result is determined (`cpct[i]`)
fn outcomes(d: &ParserData<u32>, inputs: &[Vec<u32>], cpct: &[bool]) -> Vec<String> {
    let mut v: Vec<String> = inputs
        .iter()
        .map(|t| parse_outcome_with(d.grm(), d.stable(), t, RecoveryKind::None))
        .collect();
    for (t, c) in inputs.iter().zip(cpct.iter()) {
        if *c {
            v.push(parse_outcome_cpct(d.grm(), d.stable(), t).0);
        }
    }
    v
}

fn threads(line: &str) -> String {
    let c = parse_case(line);
    let b = match catch(std::panic::AssertUnwindSafe(|| build(&c.kind, &c.src))) {
        Err(m) => return format!("BUILDPANIC {}", m.replace('\n', " ")),
        Ok(Err(e)) => return e,
        Ok(Ok(b)) => b,
    };
    let inputs = inputs_as_tokens(&b.grm, &c.inputs);
    let config = wincode::config::Configuration::default().with_varint_encoding();
    let grm_data: Vec<u8> = match wincode::config::serialize(&b.grm, config) {
        Ok(d) => d,
        Err(e) => return format!("SERERR {}", e),
    };
    let st_data: Vec<u8> = match wincode::config::serialize(&b.st, config) {
        Ok(d) => d,
        Err(e) => return format!("SERERR {}", e),
    };
    // the sequential result: a private reconstitution, parsed in this thread; it must
    // also equal what the original (never serialised) grammar and table give
    let seq_data: ParserData<u32> = _reconstitute(&grm_data, &st_data, config);
    // Which inputs have a DETERMINED sequential result under CPCT+?  On a plain table: those whose parse (40 ms budget) ended by
    // itself — without an error, with errors that have one first-ranked repair sequence, with several (`tied`: since /repo
    // ca69cd1 the order in which the search found them decides; `C15_TIED=exclude` leaves them out, the setting for the code
    // before), or without any repair.  The others are counted and left to the recovery-off comparison.
    let (mut n_noerr, mut n_unique, mut n_tied, mut n_norep, mut n_slow, mut n_other, mut n_notplain) = (0, 0, 0, 0, 0, 0, 0);
    let mut cpct: Vec<bool> = Vec::new();
    let mut cpct_first: Vec<String> = Vec::new();
    let plain = plain_table(&b.grm, &b.st);
    let no_cpct = std::env::var("C15_NO_CPCT").is_ok(); // development aid: timing without the CPCT+ part
    let exclude_tied = std::env::var("C15_TIED").map(|v| v == "exclude").unwrap_or(false);
    for t in &inputs {
        if !plain || no_cpct {
            n_notplain += 1;
            cpct.push(false);
            continue;
        }
        let (out, class, fast) = cpct_determined(&b.grm, &b.st, t);
        let mut det = out.is_some();
        match class {
            RecClass::Other => n_other += 1,
            _ if !fast => n_slow += 1,
            RecClass::NoError => n_noerr += 1,
            RecClass::UniqueFirst => n_unique += 1,
            RecClass::NoRepairs => n_norep += 1,
            RecClass::Tied => {
                n_tied += 1;
                if exclude_tied {
                    det = false;
                }
            }
        }
        cpct.push(det);
        if det {
            cpct_first.push(out.unwrap());
        }
    }
    // a budget far above what the determined inputs needed: the clock cannot decide anything in the runs below
    std::env::set_var(BUDGET_VAR, "8000");
    let seq = outcomes(&seq_data, &inputs, &cpct);
    let mut orig: Vec<String> = inputs.iter().map(|t| parse_outcome_with(&b.grm, &b.st, t, RecoveryKind::None)).collect();
    orig.extend(cpct_first);
    let mut o = String::new();
    write!(o, "THREADS {} inputs={}", NTHREADS, inputs.len()).unwrap();
    write!(
        o,
        " # RC noerr={} unique={} tied={} norepair={} slow={} other={} notplain={}",
        n_noerr, n_unique, n_tied, n_norep, n_slow, n_other, n_notplain
    )
    .unwrap();
    if seq != orig {
        let i = seq.iter().zip(orig.iter()).position(|(a, b)| a != b).unwrap_or(0);
        write!(
            o,
            " # SEQ-DIFFERS-FROM-ORIGINAL input={} a=[{}] b=[{}]",
            i,
            seq.get(i).cloned().unwrap_or_default().replace('#', ""),
            orig.get(i).cloned().unwrap_or_default().replace('#', "")
        )
        .unwrap();
    }
    let rounds = 4;
    let mut bad = 0usize;
    for round in 0..rounds {
        // mimics `static DATA: OnceLock<ParserData<_>>` + `DATA.get_or_init(|| _reconstitute(..))`
        let data: Arc<OnceLock<ParserData<u32>>> = Arc::new(OnceLock::new());
        let inits = Arc::new(AtomicUsize::new(0));
        let barrier = Arc::new(Barrier::new(NTHREADS));
        let gd = Arc::new(grm_data.clone());
        let sd = Arc::new(st_data.clone());
        let inp = Arc::new(inputs.clone());
        let cp = Arc::new(cpct.clone());
        let mut hs = Vec::new();
        for _ in 0..NTHREADS {
            let (data, inits, barrier, gd, sd, inp, cp) =
                (data.clone(), inits.clone(), barrier.clone(), gd.clone(), sd.clone(), inp.clone(), cp.clone());
            hs.push(
                std::thread::Builder::new()
                    .stack_size(64 * 1024 * 1024)
                    .spawn(move || {
                        barrier.wait();
                        let d = data.get_or_init(|| {
                            inits.fetch_add(1, Ordering::SeqCst);
                            _reconstitute(&gd, &sd, config)
                        });
                        let addr = d as *const ParserData<u32> as usize;
                        (addr, outcomes(d, &inp, &cp))
                    })
                    .unwrap(),
            );
        }
        let mut addrs = Vec::new();
        for (k, h) in hs.into_iter().enumerate() {
            match h.join() {
                Ok((addr, res)) => {
                    addrs.push(addr);
                    if res != seq {
                        bad += 1;
                        let i = res.iter().zip(seq.iter()).position(|(a, b)| a != b).unwrap_or(0);
                        write!(
                            o,
                            " # TDIFF round={} thread={} input={} seq=[{}] got=[{}]",
                            round,
                            k,
                            i,
                            seq.get(i).cloned().unwrap_or_default(),
                            res.get(i).cloned().unwrap_or_default()
                        )
                        .unwrap();
                    }
                }
                Err(_) => {
                    bad += 1;
                    write!(o, " # TPANIC round={} thread={}", round, k).unwrap();
                }
            }
        }
        let n_init = inits.load(Ordering::SeqCst);
        addrs.dedup();
        if n_init != 1 || addrs.len() != 1 {
            bad += 1;
            write!(o, " # TINIT round={} inits={} distinct_values={}", round, n_init, addrs.len()).unwrap();
        }
    }
    write!(o, " # {}", if bad == 0 { "TOK" } else { "TBAD" }).unwrap();
    let mut h = String::new();
    for s in &seq {
        h.push_str(s);
        h.push('|');
    }
    write!(o, " # SEQ {:016x}", fnv(h.as_bytes())).unwrap();
    o
}

fn main() {
    gvh::quiet_panics();
    // under OUT_DIR the builders print warnings as `cargo:warning=…` to stdout (our result channel)
    std::env::remove_var("OUT_DIR");
    let mode = std::env::args().nth(1).unwrap_or_else(|| "digest".to_string());
    for_each_case(move |line| match mode.as_str() {
        "digest" => digest(line),
        "gen" => gen(line),
        "threads" => threads(line),
        "lexgen" => lexgen(line),
        "tokmap" => tokmap(line),
        "fail" => fail(line),
        _ => "BADMODE".to_string(),
    });
}

#[allow(dead_code)]
fn _unused(_: Action<u32>) {}
