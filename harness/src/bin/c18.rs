//! C18: ONE compile-time build step per process (the builders keep a process
//! global set of generated paths and refuse a second build to the same output).
//!
//! case line: space separated `key=value` (paths hex encoded):
//!   mode=P|C|S      P: CTParserBuilder alone; C: CTLexerBuilder with lrpar_config
//!                   (combined); S: CTParserBuilder, then CTLexerBuilder.rule_ids_map
//!   y= yout= l= lout=   hex paths (grammar, parser output, lexer, lexer output)
//!   st=u8|u16|u32   StorageT
//!   yk=G|N|O|U|-    yacckind (- : not set, taken from the %grmtools section)
//!   rec=C|N|-       recoverer (CPCTPlus | None | not set)
//!   vis=0..4 lvis=0..4   Private Public PublicSuper PublicSelf PublicCrate
//!   ed=15|18|21 led=15|18|21   rust edition (parser / lexer builder)
//!   eoc=0|1 wae=0|1 sw=0|1     error_on_conflicts warnings_are_errors show_warnings
//!   ser=F|V|-       serialisation format
//!   mod=<name>|- lmod=<name>|-   module names
//!   lci=0|1|-       lexer builder case_insensitive flag
//!   api=build|pf    (mode P only) build(): grammar_path/output_path/build; pf: the deprecated but public
//!                   `CTParserBuilder::process_file(&mut self, y, yout)` (paths are NOT set on the builder; its
//!                   result is the token map, so `regenerated` is reported as `?`)
//!   lt=-|A|B       (mode P only) the parser builder's type parameter: `-` DefaultLexerTypes<StorageT>; A / B: a
//!                   user-owned `MyLexerTypes` whose `impl LexerTypes` says `type LexemeT = LexA<StorageT>` /
//!                   `LexB<StorageT>` — the two states of ONE type before and after the user edits the impl:
//!                   `type_name::<MyLexerTypes>()` and StorageT are the same, only LexemeT differs
//!   mode=M         the manual-lexer flow (lrlex/examples/calc_manual_lex/build.rs): CTParserBuilder::build, then
//!                   CTTokenMapBuilder::<StorageT>::new(tmod, ctp.token_map()) [.rename_map(..)] [.allow_dead_code(..)]
//!                   .build(), which writes $OUT_DIR/<tmod>.rs (OUT_DIR is set by the caller of this process)
//!     tmod=<hex>      module name (= output file name)
//!     tren=-|<hex k>:<hex v>,...   rename map (- : rename_map not called)
//!     tadc=-|0|1      allow_dead_code
//!     tapi=b|f        b: the builder; f: the deprecated wrapper ct_token_map(mod, map, rename_map)
//!   result `P:<res> T:<res>`
//! result:  `P:<res> L:<res>` with <res> = `ok:<regenerated 0|1|?>` | `err:<hex msg prefix>` |
//!   `panic` | `-` (not run)
#![allow(deprecated)]
use gvh::common::{hex, unhex};
use gvh::util::*;
use lrlex::{CTLexerBuilder, CTTokenMapBuilder, DefaultLexerTypes};
use lrpar::{CTParserBuilder, LexerTypes, RecoveryKind};
use std::collections::HashMap;

// two lexeme types a user-owned `impl LexerTypes` may name
macro_rules! lexeme {
    ($n:ident) => {
        #[derive(Clone, Copy, Debug, Eq, Hash, PartialEq)]
        pub struct $n<S> {
            start: usize,
            len: usize,
            faulty: bool,
            tok_id: S,
        }
        impl<S: Copy + std::fmt::Debug + Eq + std::hash::Hash> lrpar::Lexeme<S> for $n<S> {
            fn new(tok_id: S, start: usize, len: usize) -> Self {
                $n { start, len, faulty: false, tok_id }
            }
            fn new_faulty(tok_id: S, start: usize, len: usize) -> Self {
                $n { start, len, faulty: true, tok_id }
            }
            fn tok_id(&self) -> S {
                self.tok_id
            }
            fn span(&self) -> cfgrammar::Span {
                cfgrammar::Span::new(self.start, self.start + self.len)
            }
            fn faulty(&self) -> bool {
                self.faulty
            }
        }
        impl<S> std::fmt::Display for $n<S> {
            fn fmt(&self, f: &mut std::fmt::Formatter) -> std::fmt::Result {
                write!(f, "{}..{}", self.start, self.start + self.len)
            }
        }
    };
}
lexeme!(LexA);
lexeme!(LexB);

#[derive(Debug)]
pub struct MyLexError;
impl lrpar::LexError for MyLexError {
    fn span(&self) -> cfgrammar::Span {
        cfgrammar::Span::new(0, 0)
    }
}
impl std::error::Error for MyLexError {}
impl std::fmt::Display for MyLexError {
    fn fmt(&self, f: &mut std::fmt::Formatter) -> std::fmt::Result {
        write!(f, "lex error")
    }
}

fn vis_p(c: &str) -> lrpar::Visibility {
    match c {
        "0" => lrpar::Visibility::Private,
        "1" => lrpar::Visibility::Public,
        "2" => lrpar::Visibility::PublicSuper,
        "3" => lrpar::Visibility::PublicSelf,
        "4" => lrpar::Visibility::PublicCrate,
        _ => panic!("vis"),
    }
}
fn vis_l(c: &str) -> lrlex::Visibility {
    match c {
        "0" => lrlex::Visibility::Private,
        "1" => lrlex::Visibility::Public,
        "2" => lrlex::Visibility::PublicSuper,
        "3" => lrlex::Visibility::PublicSelf,
        "4" => lrlex::Visibility::PublicCrate,
        _ => panic!("lvis"),
    }
}
fn ed_p(c: &str) -> lrpar::RustEdition {
    match c {
        "15" => lrpar::RustEdition::Rust2015,
        "18" => lrpar::RustEdition::Rust2018,
        "21" => lrpar::RustEdition::Rust2021,
        _ => panic!("ed"),
    }
}
fn ed_l(c: &str) -> lrlex::RustEdition {
    match c {
        "15" => lrlex::RustEdition::Rust2015,
        "18" => lrlex::RustEdition::Rust2018,
        "21" => lrlex::RustEdition::Rust2021,
        _ => panic!("led"),
    }
}

fn short(e: &str) -> String {
    let s: String = e.chars().filter(|c| !c.is_control()).take(160).collect();
    hex(&s)
}

macro_rules! gen_run {
    ($name:ident, $t:ty) => {
        fn $name(kv: &HashMap<String, String>) -> String {
            let g = |k: &str| kv.get(k).cloned().unwrap_or_else(|| "-".to_string());
            let mode = g("mode");
            let ypath = unhex(&g("y"));
            let yout = unhex(&g("yout"));
            let lpath = if g("l") == "-" { String::new() } else { unhex(&g("l")) };
            let lout = if g("lout") == "-" { String::new() } else { unhex(&g("lout")) };
            let modname = g("mod");
            let lmodname = g("lmod");
            fn cfg_p<'a, LT: LexerTypes<StorageT = $t>>(
                mut ctp: CTParserBuilder<'a, LT>,
                kv: &HashMap<String, String>,
                modname: &'static str,
            ) -> CTParserBuilder<'a, LT> {
                let g = |k: &str| kv.get(k).cloned().unwrap_or_else(|| "-".to_string());
                if g("yk") != "-" {
                    ctp = ctp.yacckind(gvh::common::yacckind(&g("yk")));
                }
                match g("rec").as_str() {
                    "C" => ctp = ctp.recoverer(RecoveryKind::CPCTPlus),
                    "N" => ctp = ctp.recoverer(RecoveryKind::None),
                    _ => (),
                }
                if g("vis") != "-" {
                    ctp = ctp.visibility(vis_p(&g("vis")));
                }
                if g("ed") != "-" {
                    ctp = ctp.rust_edition(ed_p(&g("ed")));
                }
                if g("eoc") != "-" {
                    ctp = ctp.error_on_conflicts(g("eoc") == "1");
                }
                if g("wae") != "-" {
                    ctp = ctp.warnings_are_errors(g("wae") == "1");
                }
                if g("sw") != "-" {
                    ctp = ctp.show_warnings(g("sw") == "1");
                }
                match g("ser").as_str() {
                    "F" => {
                        ctp = ctp.serialisation_format(
                            lrpar::ctbuilder::SerialisationFormat::FixedSizeInteger,
                        )
                    }
                    "V" => {
                        ctp = ctp.serialisation_format(
                            lrpar::ctbuilder::SerialisationFormat::VariableSizedInteger,
                        )
                    }
                    _ => (),
                }
                if modname != "-" {
                    ctp = ctp.mod_name(modname);
                }
                if g("api") == "pf" {
                    // process_file() is handed the paths
                    ctp
                } else {
                    ctp.grammar_path(unhex(&g("y"))).output_path(unhex(&g("yout")))
                }
            }
            let _ = (&ypath, &yout);
            // module names must outlive the builders
            let modname: &'static str = Box::leak(modname.into_boxed_str());
            let lmodname: &'static str = Box::leak(lmodname.into_boxed_str());
            let cfg_l = |mut ctl: CTLexerBuilder<'static, DefaultLexerTypes<$t>>|
             -> CTLexerBuilder<'static, DefaultLexerTypes<$t>> {
                if g("lvis") != "-" {
                    ctl = ctl.visibility(vis_l(&g("lvis")));
                }
                if g("led") != "-" {
                    ctl = ctl.rust_edition(ed_l(&g("led")));
                }
                if g("lci") != "-" {
                    ctl = ctl.case_insensitive(g("lci") == "1");
                }
                if lmodname != "-" {
                    ctl = ctl.mod_name(lmodname);
                }
                ctl.lexer_path(&lpath).output_path(&lout)
            };
            // mode P with the parser builder's type parameter LT
            fn mode_p<LT: LexerTypes<StorageT = $t> + 'static>(
                kv: &HashMap<String, String>,
                modname: &'static str,
                ypath: &str,
                yout: &str,
            ) -> String {
                let pf = kv.get("api").map(|s| s == "pf").unwrap_or(false);
                let kv2 = kv.clone();
                let (yp, yo) = (ypath.to_string(), yout.to_string());
                let r = catch(std::panic::AssertUnwindSafe(move || {
                    if pf {
                        let mut b = cfg_p(CTParserBuilder::<LT>::new(), &kv2, modname);
                        match b.process_file(&yp, &yo) {
                            Ok(_) => "ok:?".to_string(),
                            Err(e) => format!("err:{}", short(&e.to_string())),
                        }
                    } else {
                        match cfg_p(CTParserBuilder::<LT>::new(), &kv2, modname).build() {
                            Ok(p) => format!("ok:{}", if p.regenerated() { 1 } else { 0 }),
                            Err(e) => format!("err:{}", short(&e.to_string())),
                        }
                    }
                }));
                format!("P:{} L:-", r.unwrap_or_else(|_| "panic".to_string()))
            }
            match mode.as_str() {
                "P" if g("lt") == "A" => {
                    #[derive(Debug, Clone)]
                    struct MyLexerTypes;
                    impl LexerTypes for MyLexerTypes {
                        type LexemeT = LexA<$t>;
                        type StorageT = $t;
                        type LexErrorT = MyLexError;
                    }
                    mode_p::<MyLexerTypes>(kv, modname, &ypath, &yout)
                }
                "P" if g("lt") == "B" => {
                    #[derive(Debug, Clone)]
                    struct MyLexerTypes;
                    impl LexerTypes for MyLexerTypes {
                        type LexemeT = LexB<$t>; // <- the user's edit
                        type StorageT = $t;
                        type LexErrorT = MyLexError;
                    }
                    mode_p::<MyLexerTypes>(kv, modname, &ypath, &yout)
                }
                "P" => mode_p::<DefaultLexerTypes<$t>>(kv, modname, &ypath, &yout),
                "S" => {
                    let kv2 = kv.clone();
                    let r = catch(std::panic::AssertUnwindSafe(move || {
                        match cfg_p(CTParserBuilder::<DefaultLexerTypes<$t>>::new(), &kv2, modname)
                            .build()
                        {
                            Ok(p) => Ok((p.regenerated(), p.token_map().clone())),
                            Err(e) => Err(e.to_string()),
                        }
                    }));
                    match r {
                        Err(_) => "P:panic L:-".to_string(),
                        Ok(Err(e)) => format!("P:err:{} L:-", short(&e)),
                        Ok(Ok((regen, map))) => {
                            let r2 = catch(std::panic::AssertUnwindSafe(|| {
                                match cfg_l(
                                    CTLexerBuilder::<DefaultLexerTypes<$t>>::new_with_lexemet(),
                                )
                                .rule_ids_map(&map)
                                .build()
                                {
                                    Ok(_) => "ok:?".to_string(),
                                    Err(e) => format!("err:{}", short(&e.to_string())),
                                }
                            }));
                            format!(
                                "P:ok:{} L:{}",
                                if regen { 1 } else { 0 },
                                r2.unwrap_or_else(|_| "panic".to_string())
                            )
                        }
                    }
                }
                "M" => {
                    let kv2 = kv.clone();
                    let r = catch(std::panic::AssertUnwindSafe(move || {
                        match cfg_p(CTParserBuilder::<DefaultLexerTypes<$t>>::new(), &kv2, modname)
                            .build()
                        {
                            Ok(p) => Ok((p.regenerated(), p.token_map().clone())),
                            Err(e) => Err(e.to_string()),
                        }
                    }));
                    match r {
                        Err(_) => "P:panic T:-".to_string(),
                        Ok(Err(e)) => format!("P:err:{} T:-", short(&e)),
                        Ok(Ok((regen, map))) => {
                            let tmod = unhex(&g("tmod"));
                            let ren: Option<Vec<(String, String)>> = if g("tren") == "-" {
                                None
                            } else {
                                Some(
                                    g("tren")
                                        .split(',')
                                        .filter(|p| !p.is_empty())
                                        .map(|p| {
                                            let (k, v) = p.split_once(':').unwrap();
                                            (unhex(k), unhex(v))
                                        })
                                        .collect(),
                                )
                            };
                            let adc = g("tadc");
                            let tapi = g("tapi");
                            let r2 = catch(std::panic::AssertUnwindSafe(|| {
                                let res = if tapi == "f" {
                                    let rm: Option<HashMap<&str, &str>> = ren.as_ref().map(|v| {
                                        v.iter().map(|(k, v)| (k.as_str(), v.as_str())).collect()
                                    });
                                    lrlex::ct_token_map::<$t>(&tmod, &map, rm.as_ref())
                                } else {
                                    let mut b = CTTokenMapBuilder::<$t>::new(tmod.clone(), &map);
                                    if let Some(v) = &ren {
                                        b = b.rename_map(Some(v.clone()));
                                    }
                                    if adc != "-" {
                                        b = b.allow_dead_code(adc == "1");
                                    }
                                    b.build()
                                };
                                match res {
                                    Ok(()) => "ok".to_string(),
                                    Err(e) => format!("err:{}", short(&e.to_string())),
                                }
                            }));
                            format!(
                                "P:ok:{} T:{}",
                                if regen { 1 } else { 0 },
                                r2.unwrap_or_else(|_| "panic".to_string())
                            )
                        }
                    }
                }
                "C" => {
                    let kv2 = kv.clone();
                    let r = catch(std::panic::AssertUnwindSafe(|| {
                        match cfg_l(CTLexerBuilder::<DefaultLexerTypes<$t>>::new_with_lexemet())
                            .lrpar_config(move |ctp| cfg_p(ctp, &kv2, modname))
                            .build()
                        {
                            Ok(_) => "ok:?".to_string(),
                            Err(e) => format!("err:{}", short(&e.to_string())),
                        }
                    }));
                    format!("P:- L:{}", r.unwrap_or_else(|_| "panic".to_string()))
                }
                _ => "BADMODE".to_string(),
            }
        }
    };
}

gen_run!(run_u8, u8);
gen_run!(run_u16, u16);
gen_run!(run_u32, u32);

fn main() {
    gvh::quiet_panics();
    for_each_case(|line| {
        let kv: HashMap<String, String> = line
            .split_whitespace()
            .filter_map(|t| t.split_once('=').map(|(a, b)| (a.to_string(), b.to_string())))
            .collect();
        match kv.get("st").map(|s| s.as_str()).unwrap_or("u32") {
            "u8" => run_u8(&kv),
            "u16" => run_u16(&kv),
            _ => run_u32(&kv),
        }
    });
}
