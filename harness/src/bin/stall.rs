//! `stall`: as `repair` (parse with RecoveryKind::CPCTPlus, report every error with all its
//! repair sequences and the value), but over a lexeme type whose `Lexeme::new_faulty` counts its
//! calls per parse and SLEEPS once, at the n-th call, for longer than the remaining recovery
//! budget.  `new_faulty` is called by the search (`CPCTPlus::insert`), by `apply_repairs` while
//! candidates are ranked (`rank_cnds`), by the final replay of the chosen sequence, and by
//! `Parser::next_lexeme` whenever the lookahead is the synthetic end-of-input lexeme: the position
//! at which the shared recovery deadline (`finish_by`) passes becomes a controlled input (C07).
//!
//! case:   `<kind> <hexsrc> [stall=<n>:<ms>] [trace=1] ; costs <name>=<cost>* ; <tok name>* ; ...`
//!         (n = 0 or no `stall=`: never stall)
//! result: exactly the line of `repair` (grammar dump, automaton dump, X, KN, CO, AV, then per input
//!         I / BO / ER / RS / VL / ZL / TM; BO = order of the builder's setter calls, chosen as in `repair`:
//!         `.term_costs(..)` before `.recoverer(..)` iff input index + input length is odd) and additionally per
//!         input, after TM:
//!   `# NF <new_faulty calls in this parse> <1 if the stall happened else 0> <ms into the parse at which it began>`
//!   `# TR <run-length coded event trace>` (with trace=1), events in call order:
//!         f = new_faulty of an ordinary token      e = new_faulty of the end-of-input token
//!         c = the token-cost callback (only the search calls it)
//!         S = span() of a faulty ordinary lexeme asked by the parser (only the FINAL replay shifts an inserted
//!             lexeme onto the real stacks)          a = a reduce action ran (driver or final replay)
//!   The n of `stall=` counts f and e events together (1-based).
use cfgrammar::Span;
use gvh::common::*;
use gvh::util::*;
use lrlex::LRLexError;
use lrpar::{LexParseError, Lexeme, Lexer, LexerTypes, NonStreamingLexer, ParseRepair, RTParserBuilder, RecoveryKind};
use std::cell::{Cell, RefCell};
use std::fmt::{self, Write};
use std::time::{Duration, Instant};

const TRACE_CAP: usize = 400_000;

thread_local! {
    static CALLS: Cell<usize> = Cell::new(0);
    static STALL_AT: Cell<usize> = Cell::new(0);
    static STALL_MS: Cell<u64> = Cell::new(0);
    static STALLED: Cell<bool> = Cell::new(false);
    static STALLED_AT_MS: Cell<u128> = Cell::new(0);
    static T0: Cell<Option<Instant>> = Cell::new(None);
    static EOF_TOK: Cell<u32> = Cell::new(u32::MAX);
    static TRACING: Cell<bool> = Cell::new(false);
    static EVENTS: RefCell<Vec<u8>> = RefCell::new(Vec::new());
}

fn event(c: u8) {
    if TRACING.with(|t| t.get()) {
        EVENTS.with(|e| {
            let mut e = e.borrow_mut();
            if e.len() < TRACE_CAP {
                e.push(c);
            }
        });
    }
}

fn reset(stall_at: usize, stall_ms: u64, eof: u32, tracing: bool) {
    CALLS.with(|c| c.set(0));
    STALL_AT.with(|c| c.set(stall_at));
    STALL_MS.with(|c| c.set(stall_ms));
    STALLED.with(|c| c.set(false));
    STALLED_AT_MS.with(|c| c.set(0));
    T0.with(|c| c.set(Some(Instant::now())));
    EOF_TOK.with(|c| c.set(eof));
    TRACING.with(|c| c.set(tracing));
    EVENTS.with(|e| e.borrow_mut().clear());
}

#[derive(Clone, Copy, Debug, Eq, Hash, PartialEq)]
pub struct StallLexeme {
    tok_id: u32,
    start: usize,
    len: usize,
    faulty: bool,
}

impl Lexeme<u32> for StallLexeme {
    fn new(tok_id: u32, start: usize, len: usize) -> Self {
        StallLexeme { tok_id, start, len, faulty: false }
    }

    fn new_faulty(tok_id: u32, start: usize, len: usize) -> Self {
        let n = CALLS.with(|c| {
            c.set(c.get() + 1);
            c.get()
        });
        event(if tok_id == EOF_TOK.with(|c| c.get()) { b'e' } else { b'f' });
        if n == STALL_AT.with(|c| c.get()) && !STALLED.with(|c| c.replace(true)) {
            let since = T0.with(|c| c.get()).map(|t| t.elapsed().as_millis()).unwrap_or(0);
            STALLED_AT_MS.with(|c| c.set(since));
            std::thread::sleep(Duration::from_millis(STALL_MS.with(|c| c.get())));
        }
        StallLexeme { tok_id, start, len, faulty: true }
    }

    fn tok_id(&self) -> u32 {
        self.tok_id
    }

    fn span(&self) -> Span {
        if self.faulty && self.tok_id != EOF_TOK.with(|c| c.get()) {
            event(b'S');
        }
        Span::new(self.start, self.start + self.len)
    }

    fn faulty(&self) -> bool {
        self.faulty
    }
}

impl fmt::Display for StallLexeme {
    fn fmt(&self, f: &mut fmt::Formatter) -> fmt::Result {
        write!(f, "StallLexeme[{}..{}]", self.start, self.start + self.len)
    }
}

#[derive(Clone, Debug)]
pub struct StallLexerTypes;

impl LexerTypes for StallLexerTypes {
    type LexemeT = StallLexeme;
    type StorageT = u32;
    type LexErrorT = LRLexError;
}

/// replays a token list: lexeme i has span (2i, 2i+1) (as gvh::common::ReplayLexer); single-shot as that one:
/// a second `iter()` call on one lexer object panics (Lexer::iter gives no guarantees on a second call)
struct StallReplayLexer {
    toks: Vec<u32>,
    iterated: Cell<bool>,
}

impl Lexer<StallLexerTypes> for StallReplayLexer {
    fn iter<'a>(&'a self) -> Box<dyn Iterator<Item = Result<StallLexeme, LRLexError>> + 'a> {
        if self.iterated.replace(true) {
            panic!("{}", ITER_TWICE_MSG);
        }
        Box::new(self.toks.iter().enumerate().map(|(i, t)| Ok(StallLexeme::new(*t, 2 * i, 1))))
    }
}

impl<'input> NonStreamingLexer<'input, StallLexerTypes> for StallReplayLexer {
    fn span_str(&self, _span: Span) -> &'input str {
        ""
    }
    fn span_lines_str(&self, _span: Span) -> &'input str {
        ""
    }
    fn line_col(&self, span: Span) -> ((usize, usize), (usize, usize)) {
        ((1, span.start() + 1), (1, span.end() + 1))
    }
}

/// (no trait calls: the harness' own look at a lexeme must not show up in the trace)
fn lx_index(l: &StallLexeme) -> usize {
    if l.len == 0 {
        (l.start + 1) / 2
    } else {
        l.start / 2
    }
}

fn conflicts_dump(st: &lrtable::StateTable<u32>) -> String {
    let mut o = String::new();
    match st.conflicts() {
        None => o.push_str("X none"),
        Some(c) => {
            write!(o, "X {} {}", c.sr_len(), c.rr_len()).unwrap();
            let mut sr: Vec<(usize, usize, usize)> =
                c.sr_conflicts().map(|(t, p, s)| (usize::from(*s), usize::from(*t), usize::from(*p))).collect();
            sr.sort();
            for (s, t, p) in sr {
                write!(o, " # XS {} {} {}", s, t, p).unwrap();
            }
            let mut rr: Vec<(usize, usize, usize, usize)> = c
                .rr_conflicts()
                .map(|(t, p1, p2, s)| (usize::from(*s), usize::from(*t), usize::from(*p1), usize::from(*p2)))
                .collect();
            rr.sort();
            for (s, t, p1, p2) in rr {
                write!(o, " # XR {} {} {} {}", s, t, p1, p2).unwrap();
            }
        }
    }
    o
}

fn budget_ms() -> u64 {
    std::env::var("GRMTOOLS_VERIF_RECOVERY_BUDGET_MS").ok().and_then(|v| v.parse::<u64>().ok()).unwrap_or(500)
}

fn rle(ev: &[u8]) -> String {
    let mut o = String::new();
    let mut i = 0;
    while i < ev.len() {
        let mut j = i;
        while j < ev.len() && ev[j] == ev[i] {
            j += 1;
        }
        o.push(ev[i] as char);
        if j - i > 1 {
            write!(o, "{}", j - i).unwrap();
        }
        i = j;
    }
    if o.is_empty() {
        o.push('-');
    }
    o
}

fn parse_with_recovery(b: &Built, toks: &[u32], costs: &[u8], costs_first: bool, stall: (usize, u64), tracing: bool, o: &mut String) {
    let lexer = StallReplayLexer { toks: toks.to_vec(), iterated: Cell::new(false) };
    let odd = Cell::new(0usize);
    reset(stall.0, stall.1, u32::from(b.grm.eof_token_idx()), tracing);
    let t0 = Instant::now();
    let r = catch(std::panic::AssertUnwindSafe(|| {
        let cf = |t: cfgrammar::TIdx<u32>| -> u8 {
            event(b'c');
            costs[usize::from(t)]
        };
        let pb = RTParserBuilder::<u32, StallLexerTypes>::new(&b.grm, &b.st);
        let pb = if costs_first {
            pb.term_costs(&cf).recoverer(RecoveryKind::CPCTPlus)
        } else {
            pb.recoverer(RecoveryKind::CPCTPlus).term_costs(&cf)
        };
        pb.parse_map(
            &lexer,
            &|l: StallLexeme| {
                if l.faulty != (l.len == 0) {
                    odd.set(odd.get() + 1);
                }
                Tree::Term(l.tok_id, l.start, l.len, l.faulty)
            },
            &|ridx, nodes| {
                event(b'a');
                Tree::Nonterm(u32::from(ridx), nodes)
            },
        )
    }));
    let ms = t0.elapsed().as_millis();
    // nothing below may count as a call made by the parse
    let calls = CALLS.with(|c| c.get());
    let stalled = STALLED.with(|c| c.get());
    let stalled_at = STALLED_AT_MS.with(|c| c.get());
    TRACING.with(|c| c.set(false));
    STALL_AT.with(|c| c.set(0));
    match r {
        Err(m) => write!(o, " # VL panic {}", m.replace('\n', " ").replace('#', "")).unwrap(),
        Ok((val, errs)) => {
            let mut lexerr = false;
            for e in &errs {
                match e {
                    LexParseError::ParseError(e) => {
                        write!(o, " # ER {} {} {}", lx_index(e.lexeme()), usize::from(e.stidx()), e.repairs().len()).unwrap();
                        for seq in e.repairs() {
                            o.push_str(" # RS");
                            for st in seq {
                                match st {
                                    ParseRepair::Insert(t) => write!(o, " I{}", usize::from(*t)).unwrap(),
                                    ParseRepair::Delete(l) => write!(o, " D{}", lx_index(l)).unwrap(),
                                    ParseRepair::Shift(l) => write!(o, " S{}", lx_index(l)).unwrap(),
                                }
                            }
                        }
                    }
                    LexParseError::LexError(_) => lexerr = true,
                }
            }
            if lexerr {
                o.push_str(" # VL lexerr");
            } else {
                match val {
                    Some(t) => {
                        o.push_str(" # VL acc ");
                        t.pp(o);
                    }
                    None => o.push_str(" # VL none"),
                }
            }
        }
    }
    write!(o, " # ZL {}", odd.get()).unwrap();
    write!(o, " # TM {}", ms).unwrap();
    write!(o, " # NF {} {} {}", calls, if stalled { 1 } else { 0 }, stalled_at).unwrap();
    if tracing {
        let ev = EVENTS.with(|e| e.borrow().clone());
        write!(o, " # TR {}", rle(&ev)).unwrap();
        if ev.len() >= TRACE_CAP {
            o.push_str(" # TRCUT");
        }
    }
}

fn main() {
    gvh::quiet_panics();
    for_each_case(move |line| {
        let mut parts = line.split(';');
        let head = parts.next().unwrap();
        let mut hs = head.split_whitespace();
        let kind = hs.next().unwrap().to_string();
        let src = unhex(hs.next().unwrap_or(""));
        let mut stall: (usize, u64) = (0, 0);
        let mut tracing = false;
        for opt in hs {
            if let Some(v) = opt.strip_prefix("stall=") {
                let mut it = v.split(':');
                let n = it.next().and_then(|x| x.parse::<usize>().ok());
                let ms = it.next().and_then(|x| x.parse::<u64>().ok());
                match (n, ms) {
                    (Some(n), Some(ms)) => stall = (n, ms),
                    _ => return format!("BADCASE {}", opt),
                }
            } else if opt == "trace=1" {
                tracing = true;
            } else {
                return format!("BADCASE {}", opt);
            }
        }
        let b = match catch(std::panic::AssertUnwindSafe(|| build(&kind, &src))) {
            Err(m) => return format!("BUILDPANIC {}", m.replace('\n', " ")),
            Ok(Err(e)) => return e,
            Ok(Ok(b)) => b,
        };
        let ntoks = usize::from(b.grm.tokens_len());
        let mut costs: Vec<u8> = vec![1; ntoks];
        let cpart = parts.next().unwrap_or("");
        for kv in cpart.split_whitespace().skip(1) {
            if let Some(i) = kv.rfind('=') {
                if let (Some(t), Ok(c)) = (b.grm.token_idx(&kv[..i]), kv[i + 1..].parse::<u8>()) {
                    costs[usize::from(t)] = c;
                }
            }
        }
        let mut o = dump_grammar(&b.grm);
        o.push_str(" # ");
        o.push_str(&dump_automaton(&b.grm, &b.sg, &b.st));
        o.push_str(" # ");
        o.push_str(&conflicts_dump(&b.st));
        write!(
            o,
            " # KN {} {} {}",
            lrpar::verif_hooks::PARSE_AT_LEAST,
            lrpar::verif_hooks::TRY_PARSE_AT_MOST,
            budget_ms()
        )
        .unwrap();
        o.push_str(" # CO");
        for c in &costs {
            write!(o, " {}", c).unwrap();
        }
        o.push_str(" # AV");
        for t in b.grm.iter_tidxs() {
            if b.grm.avoid_insert(t) {
                write!(o, " {}", usize::from(t)).unwrap();
            }
        }
        for (idx, inp) in parts.enumerate() {
            let mut toks: Vec<u32> = Vec::new();
            let mut ok = true;
            for n in inp.split_whitespace() {
                match b.grm.token_idx(n) {
                    Some(t) => toks.push(u32::from(t)),
                    None => ok = false,
                }
            }
            if !ok {
                continue;
            }
            write!(o, " # I").unwrap();
            for t in &toks {
                write!(o, " {}", t).unwrap();
            }
            let costs_first = (idx + toks.len()) % 2 == 1;
            write!(o, " # BO {}", if costs_first { 1 } else { 0 }).unwrap();
            parse_with_recovery(&b, &toks, &costs, costs_first, stall, tracing, &mut o);
        }
        o
    });
}
