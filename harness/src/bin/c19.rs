//! C19: NewlineCache observations.
//! case line:  `<chunk> ; <chunk> ; ...` each chunk a list of decimal code points.
//! result: `N <feedlen> | L <off> <line|-> <col|-> ... | S <s> <e> <st> <en>|P ...`
//! over all char-boundary offsets / spans of the concatenated text, plus
//! one out-of-range offset.
use gvh::util::*;
use cfgrammar::{NewlineCache, Span};
use std::fmt::Write;

fn main() {
    gvh::quiet_panics();
    for_each_case(|line| {
        let chunks: Vec<String> = line.split(';').map(cps_to_string).collect();
        let text: String = chunks.concat();
        let r = catch(|| {
            let cache: NewlineCache = chunks.iter().map(|s| s.as_str()).collect();
            cache
        });
        let cache = match r {
            Ok(c) => c,
            Err(_) => return "FEEDPANIC".to_string(),
        };
        let mut out = String::new();
        let mut bounds: Vec<usize> = text.char_indices().map(|(i, _)| i).collect();
        bounds.push(text.len());
        write!(out, "N {}", text.len()).unwrap();
        // all byte offsets up to len+1 for line numbers (byte_to_line_num does not need boundaries)
        for off in 0..=text.len() + 1 {
            let r = catch(std::panic::AssertUnwindSafe(|| cache.byte_to_line_num(off)));
            match r {
                Ok(Some(l)) => write!(out, " | B {} {}", off, l).unwrap(),
                Ok(None) => write!(out, " | B {} -", off).unwrap(),
                Err(_) => write!(out, " | B {} P", off).unwrap(),
            }
        }
        for &off in bounds.iter().chain(std::iter::once(&(text.len() + 1))) {
            let r = catch(std::panic::AssertUnwindSafe(|| {
                cache.byte_to_line_num_and_col_num(&text, off)
            }));
            match r {
                Ok(Some((l, c))) => write!(out, " | L {} {} {}", off, l, c).unwrap(),
                Ok(None) => write!(out, " | L {} - -", off).unwrap(),
                Err(_) => write!(out, " | L {} P P", off).unwrap(),
            }
        }
        for (i, &s) in bounds.iter().enumerate() {
            for &e in &bounds[i..] {
                let r = catch(std::panic::AssertUnwindSafe(|| {
                    cache.span_line_bytes(Span::new(s, e))
                }));
                match r {
                    Ok((st, en)) => write!(out, " | S {} {} {} {}", s, e, st, en).unwrap(),
                    Err(_) => write!(out, " | S {} {} P", s, e).unwrap(),
                }
            }
        }
        out
    });
}
