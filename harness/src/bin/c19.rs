//! C19: NewlineCache observations.
//! case line:  `T <chunk> ; <chunk> ; ...` each chunk a list of decimal code points.
//! result: `N <feedlen> | L <off> <line|-> <col|-> ... | S <s> <e> <st> <en>|P ...`
//! over all char-boundary offsets / spans of the concatenated text, plus
//! one out-of-range offset.
//! `Q <chunk> ; <chunk> ... @ s e s e ...`: the same for LONG texts: line / line-byte at every byte offset, line-col at
//! every boundary, but span_line_bytes / line_col / span_lines_str only for the listed spans (the reader looks the
//! expected answers up in the model's answer for the `T` line of the same chunks).
//! `D<flags> <plen> ; <code points>` and `G<flags> <code points> ; <spans>`: SpannedDiagnosticFormatter
//! (lrpar/src/lib/diagnostics.rs), see `diag_case` / `spanned_case`; `C <hex grammar>`: `conflicts_case`;
//! `E <code points>`: `LexParseError::pp` of errors that COVER text (hand-built lexers), see `errpp_case`;
//! `N <code points> ; <fed code points>`: lexer-level positions when the cache was fed another text, see `unfed_case`;
//! `I <hex grammar>`: `format_conflicts` on Eco grammars whose conflicts name added productions, see `conflicts_added_case`.
use gvh::util::*;
use cfgrammar::{NewlineCache, Span};
use lrlex::{DefaultLexerTypes, LRNonStreamingLexerDef, LexerDef};
use lrpar::{LexError, LexParseError, Lexer, NonStreamingLexer};
use lrpar::diagnostics::{DiagnosticFormatter, SpannedDiagnosticFormatter};
use std::fmt::Write;

/// A warning with caller-chosen spans, to reach the private `format_spanned`
/// through the public `DiagnosticFormatter::format_warning`.
struct Dup(Vec<Span>);
impl std::fmt::Display for Dup {
    fn fmt(&self, f: &mut std::fmt::Formatter<'_>) -> std::fmt::Result {
        write!(f, "msg")
    }
}
impl cfgrammar::Spanned for Dup {
    fn spans(&self) -> &[Span] {
        &self.0
    }
    fn spanskind(&self) -> cfgrammar::yacc::parser::SpansKind {
        cfgrammar::yacc::parser::SpansKind::DuplicationError
    }
}

fn res_hex(out: &mut String, tag: &str, key: &str, r: Result<String, String>) {
    match r {
        Ok(t) => write!(out, " | {} {} x{}", tag, key, gvh::common::hex(&t)).unwrap(),
        Err(_) => write!(out, " | {} {} P", tag, key).unwrap(),
    }
}

/// `D<flags> <plen> ; <code points>`: SpannedDiagnosticFormatter over the whole text:
/// `prefixed_underline_span_with_text(prefix of plen dots, span, "msg", '^')` for every
/// boundary span (plen = 0: `underline_span_with_text`), `file_location_msg` for every
/// boundary and one offset past the end.
fn diag_case(line: &str) -> String {
    let mut it = line.splitn(2, ';');
    let plen: usize = it.next().unwrap().trim().parse().expect("plen");
    let text = cps_to_string(it.next().unwrap_or(""));
    let path = std::path::PathBuf::from("f");
    let mut out = String::new();
    let mut bounds: Vec<usize> = text.char_indices().map(|(i, _)| i).collect();
    bounds.push(text.len());
    write!(out, "N {}", text.len()).unwrap();
    let prefix = ".".repeat(plen);
    for (i, &s) in bounds.iter().enumerate() {
        for &e in &bounds[i..] {
            let r = catch(std::panic::AssertUnwindSafe(|| {
                let fmt = SpannedDiagnosticFormatter::new(&text, &path);
                if plen == 0 {
                    fmt.underline_span_with_text(Span::new(s, e), "msg".into(), '^')
                } else {
                    fmt.prefixed_underline_span_with_text(&prefix, Span::new(s, e), "msg".into(), '^')
                }
            }));
            res_hex(&mut out, "U", &format!("{} {}", s, e), r);
        }
    }
    for &off in bounds.iter().chain(std::iter::once(&(text.len() + 1))) {
        let r = catch(std::panic::AssertUnwindSafe(|| {
            let fmt = SpannedDiagnosticFormatter::new(&text, &path);
            fmt.file_location_msg("m", Some(Span::new(off, off)))
        }));
        res_hex(&mut out, "F", &format!("{}", off), r);
    }
    out
}

/// `G<flags> <code points> ; s1 e1 s2 e2 ...`: `format_warning` (= the private `format_spanned`) of a
/// DuplicationError-kind warning carrying these spans.
fn spanned_case(line: &str) -> String {
    let mut it = line.splitn(2, ';');
    let text = cps_to_string(it.next().unwrap());
    let nums: Vec<usize> = it
        .next()
        .unwrap_or("")
        .split_whitespace()
        .map(|t| t.parse().expect("offset"))
        .collect();
    let path = std::path::PathBuf::from("f");
    let r = catch(std::panic::AssertUnwindSafe(|| {
        let spans: Vec<Span> = nums.chunks(2).map(|p| Span::new(p[0], p[1])).collect();
        let fmt = SpannedDiagnosticFormatter::new(&text, &path);
        fmt.format_warning(Dup(spans))
    }));
    let mut out = String::new();
    res_hex(&mut out, "W", "0", r);
    out[3..].to_string()
}

/// NonStreamingLexer::{line_col, span_lines_str} and LexParseError::pp on the same
/// text: every character lexes except 'X' (no rule) and 'Y' (rule without token id).
fn lexer_queries(out: &mut String, text: &str, bounds: &[usize], only: Option<&[(usize, usize)]>) {
    // 'X' is matched by no rule; 'Y' is matched by a named rule that has no token id
    // (a token "missing from the parser"): two different error paths of the scan loop.
    let mut def = LRNonStreamingLexerDef::<DefaultLexerTypes<u32>>::from_str("%%\n[^XY] 'c'\nY 'M'\n").unwrap();
    let ids: std::collections::HashMap<&str, u32> = [("c", 0u32)].into_iter().collect();
    let _ = def.set_rule_ids(&ids);
    let lexer = def.lexer(text);
    let all: Vec<(usize, usize)>;
    let spans: &[(usize, usize)] = match only {
        Some(v) => v,
        None => {
            all = bounds.iter().enumerate().flat_map(|(i, &s)| bounds[i..].iter().map(move |&e| (s, e))).collect();
            &all
        }
    };
    {
        for &(s, e) in spans {
            let r = catch(std::panic::AssertUnwindSafe(|| lexer.line_col(Span::new(s, e))));
            match r {
                Ok(((l1, c1), (l2, c2))) => write!(out, " | LC {} {} {} {} {} {}", s, e, l1, c1, l2, c2).unwrap(),
                Err(_) => write!(out, " | LC {} {} P", s, e).unwrap(),
            }
            let r = catch(std::panic::AssertUnwindSafe(|| lexer.span_lines_str(Span::new(s, e)).to_string()));
            match r {
                Ok(t) => write!(out, " | SL {} {} {}", s, e, gvh::common::hex(&t)).unwrap(),
                Err(_) => write!(out, " | SL {} {} P", s, e).unwrap(),
            }
        }
    }
    for r in lexer.iter() {
        if let Err(e) = r {
            let off = e.span().start();
            let lpe: LexParseError<u32, DefaultLexerTypes<u32>> = e.into();
            let r = catch(std::panic::AssertUnwindSafe(|| lpe.pp(&lexer, &|_| None)));
            match r {
                Ok(m) => write!(out, " | PP {} {}", off, gvh::common::hex(&m)).unwrap(),
                Err(_) => write!(out, " | PP {} P", off).unwrap(),
            }
        }
    }
}

/// `E <code points>`: for every boundary span (a, b), a <= b, of the text
/// * ` | PE a b x<hex>`: a lexer built through the public `LRNonStreamingLexer::new(text, lexemes, newlines)`
///   whose only "lexeme" is ONE lexing error `LRLexError::new(Span::new(a, b))` (what a hand-written lexer
///   reports e.g. for an unterminated comment): `LexParseError::LexError(e).pp(&lexer, ..)`, the error taken
///   from the lexer's own `iter()`;
/// * ` | PQ a b x<hex>`: the same lexer with ONE lexeme of span (a, b) of a token the grammar
///   `S: 'A' 'B';` cannot start with ('B'), parsed without recovery: `pp` of the resulting
///   `LexParseError::ParseError` (its lexeme is that lexeme); `PQ a b -` when the parse does not
///   end in exactly one parse error;
/// * ` | PR a b x<hex>`: the lexing-error lexer run through the same parser (`parse_map` hands the
///   lexing error back as `LexParseError::LexError`), then `pp`.
fn errpp_case(line: &str) -> String {
    use cfgrammar::yacc::{YaccGrammar, YaccKind, YaccOriginalActionKind};
    use lrlex::{DefaultLexeme, LRLexError, LRNonStreamingLexer};
    use lrpar::{Lexeme, RTParserBuilder, RecoveryKind};
    type LT = DefaultLexerTypes<u32>;
    let text = cps_to_string(line);
    let grm = YaccGrammar::<u32>::new_with_storaget(
        YaccKind::Original(YaccOriginalActionKind::GenericParseTree),
        "%start S\n%%\nS: 'A' 'B';\n",
    )
    .unwrap();
    let (_, stable) = lrtable::from_yacc(&grm, lrtable::Minimiser::Pager).unwrap();
    let btok = u32::from(grm.token_idx("B").unwrap());
    let mut bounds: Vec<usize> = text.char_indices().map(|(i, _)| i).collect();
    bounds.push(text.len());
    let mut out = String::new();
    write!(out, "N {}", text.len()).unwrap();
    for (i, &a) in bounds.iter().enumerate() {
        for &b in &bounds[i..] {
            // ---- one lexing error covering (a, b) ----
            let r = catch(std::panic::AssertUnwindSafe(|| {
                let cache: NewlineCache = std::iter::once(text.as_str()).collect();
                let lexer: LRNonStreamingLexer<LT> =
                    LRNonStreamingLexer::new(&text, vec![Err(LRLexError::new(Span::new(a, b)))], cache);
                let e = lexer.iter().next().unwrap().unwrap_err();
                let lpe: LexParseError<u32, LT> = LexParseError::LexError(e);
                lpe.pp(&lexer, &|_| None)
            }));
            res_hex(&mut out, "PE", &format!("{} {}", a, b), r);
            let r = catch(std::panic::AssertUnwindSafe(|| {
                let cache: NewlineCache = std::iter::once(text.as_str()).collect();
                let lexer: LRNonStreamingLexer<LT> =
                    LRNonStreamingLexer::new(&text, vec![Err(LRLexError::new(Span::new(a, b)))], cache);
                let pb = RTParserBuilder::<u32, LT>::new(&grm, &stable).recoverer(RecoveryKind::None);
                let (_, errs) = pb.parse_map(&lexer, &|_| (), &|_, _| ());
                match errs.as_slice() {
                    [e @ LexParseError::LexError(_)] => Some(e.pp(&lexer, &|t| grm.token_epp(t))),
                    _ => None,
                }
            }));
            match r {
                Ok(None) => write!(out, " | PR {} {} -", a, b).unwrap(),
                Ok(Some(m)) => res_hex(&mut out, "PR", &format!("{} {}", a, b), Ok(m)),
                Err(m) => res_hex(&mut out, "PR", &format!("{} {}", a, b), Err(m)),
            }
            // ---- one unexpected lexeme covering (a, b) ----
            let r = catch(std::panic::AssertUnwindSafe(|| {
                let cache: NewlineCache = std::iter::once(text.as_str()).collect();
                let lexer: LRNonStreamingLexer<LT> =
                    LRNonStreamingLexer::new(&text, vec![Ok(DefaultLexeme::new(btok, a, b - a))], cache);
                let pb = RTParserBuilder::<u32, LT>::new(&grm, &stable).recoverer(RecoveryKind::None);
                let (_, errs) = pb.parse_map(&lexer, &|_| (), &|_, _| ());
                match errs.as_slice() {
                    [e @ LexParseError::ParseError(_)] => Some(e.pp(&lexer, &|t| grm.token_epp(t))),
                    _ => None,
                }
            }));
            match r {
                Ok(None) => write!(out, " | PQ {} {} -", a, b).unwrap(),
                Ok(Some(m)) => res_hex(&mut out, "PQ", &format!("{} {}", a, b), Ok(m)),
                Err(m) => res_hex(&mut out, "PQ", &format!("{} {}", a, b), Err(m)),
            }
        }
    }
    out
}

/// `C <hex of a yacc grammar source (Original, NoAction)>`: `format_conflicts` on the grammar's own
/// text, to reach the private `underline_spans_on_line_with_text`.  Result: `K x<hex of the output>`
/// then, per shift/reduce conflict in the order they are formatted, ` | Q s e s e ...` = the spans of
/// the reduced production's symbols (or its `prod_span` when it has none), i.e. the spans
/// `format_conflicts` hands to `underline_spans_on_line_with_text` line by line.
fn conflicts_case(line: &str) -> String {
    use cfgrammar::yacc::{ast::{ASTWithValidityInfo, Symbol}, YaccGrammar, YaccKind, YaccOriginalActionKind};
    let src = gvh::common::unhex(line.trim());
    let astv = ASTWithValidityInfo::new(YaccKind::Original(YaccOriginalActionKind::NoAction), &src);
    let grm = match YaccGrammar::<u32>::new_from_ast_with_validity_info(&astv) {
        Ok(g) => g,
        Err(_) => return "GRMERR".to_string(),
    };
    let (sg, st) = match lrtable::from_yacc(&grm, lrtable::Minimiser::Pager) {
        Ok(x) => x,
        Err(_) => return "TBLERR".to_string(),
    };
    let c = match st.conflicts() {
        Some(c) => c,
        None => return "NOCONFLICT".to_string(),
    };
    let path = std::path::PathBuf::from("f");
    let r = catch(std::panic::AssertUnwindSafe(|| {
        let fmt = SpannedDiagnosticFormatter::new(&src, &path);
        fmt.format_conflicts::<DefaultLexerTypes<u32>>(&grm, astv.ast(), c, &sg, &st)
    }));
    let mut out = String::new();
    res_hex(&mut out, "K", "0", r);
    let mut out = out[3..].to_string();
    for (_, pidx, _) in c.sr_conflicts() {
        let prod = &astv.ast().prods[usize::from(*pidx)];
        let mut spans: Vec<Span> = prod
            .symbols
            .iter()
            .map(|sym| match sym {
                Symbol::Rule(_, sp) => *sp,
                Symbol::Token(_, sp) => *sp,
            })
            .collect();
        if spans.is_empty() {
            spans.push(prod.prod_span);
        }
        out.push_str(" | Q");
        for sp in spans {
            write!(out, " {} {}", sp.start(), sp.end()).unwrap();
        }
    }
    out
}

/// `I <hex of a yacc grammar source (YaccKind::Eco)>`: `format_conflicts` on grammars whose conflicts may name
/// productions the grammar ADDS (`~`, `^~` for `%implicit_tokens`; `^`), which have no counterpart in the AST.
/// Result: `K x<hex of the output>` (or `K P`), then per conflict, in the order they are formatted
/// (reduce/reduce first), the spans THE GRAMMAR reports through its public accessors:
/// ` | RR <a> <r1s> <r1e> <r2s> <r2e> <ts|-> <te|->` (rule_name_span of both rules, token_span of the lookahead)
/// ` | SR <a> <rs> <re> <ts> <te> ; s e s e ...` (rule_name_span, token_span of the shifted token, then the spans
/// of the reduced production's symbols in the AST, or `prod_span` when it has none / is an added production);
/// `<a>` = 1 when a production of the conflict lies beyond the AST's production list.
fn conflicts_added_case(line: &str) -> String {
    use cfgrammar::yacc::{ast::{ASTWithValidityInfo, Symbol}, YaccGrammar, YaccKind};
    let src = gvh::common::unhex(line.trim());
    let astv = ASTWithValidityInfo::new(YaccKind::Eco, &src);
    let grm = match YaccGrammar::<u32>::new_from_ast_with_validity_info(&astv) {
        Ok(g) => g,
        Err(_) => return "GRMERR".to_string(),
    };
    let (sg, st) = match lrtable::from_yacc(&grm, lrtable::Minimiser::Pager) {
        Ok(x) => x,
        Err(_) => return "TBLERR".to_string(),
    };
    let c = match st.conflicts() {
        Some(c) => c,
        None => return "NOCONFLICT".to_string(),
    };
    let path = std::path::PathBuf::from("f");
    let r = catch(std::panic::AssertUnwindSafe(|| {
        let fmt = SpannedDiagnosticFormatter::new(&src, &path);
        fmt.format_conflicts::<DefaultLexerTypes<u32>>(&grm, astv.ast(), c, &sg, &st)
    }));
    let mut out = String::new();
    res_hex(&mut out, "K", "0", r);
    let mut out = out[3..].to_string();
    let nast = astv.ast().prods.len();
    let r = catch(std::panic::AssertUnwindSafe(|| {
        let mut out = String::new();
        for (tidx, p1, p2, _) in c.rr_conflicts() {
            let a = usize::from(*p1) >= nast || usize::from(*p2) >= nast;
            let s1 = grm.rule_name_span(grm.prod_to_rule(*p1));
            let s2 = grm.rule_name_span(grm.prod_to_rule(*p2));
            let ts = if grm.token_name(*tidx).is_some() {
                grm.token_span(*tidx)
            } else {
                grm.token_idx("$").and_then(|t| grm.token_span(t))
            };
            write!(out, " | RR {} {} {} {} {}", a as u8, s1.start(), s1.end(), s2.start(), s2.end()).unwrap();
            match ts {
                Some(t) => write!(out, " {} {}", t.start(), t.end()).unwrap(),
                None => out.push_str(" - -"),
            }
        }
        for (tidx, pidx, _) in c.sr_conflicts() {
            let a = usize::from(*pidx) >= nast;
            let rs = grm.rule_name_span(grm.prod_to_rule(*pidx));
            let ts = grm.token_span(*tidx).unwrap();
            write!(out, " | SR {} {} {} {} {} ;", a as u8, rs.start(), rs.end(), ts.start(), ts.end()).unwrap();
            let mut spans: Vec<Span> = match astv.ast().prods.get(usize::from(*pidx)) {
                Some(prod) => prod
                    .symbols
                    .iter()
                    .map(|sym| match sym {
                        Symbol::Rule(_, sp) => *sp,
                        Symbol::Token(_, sp) => *sp,
                    })
                    .collect(),
                None => Vec::new(),
            };
            if spans.is_empty() {
                spans.push(grm.prod_span(*pidx));
            }
            for sp in spans {
                write!(out, " {} {}", sp.start(), sp.end()).unwrap();
            }
        }
        out
    }));
    match r {
        Ok(t) => out.push_str(&t),
        Err(_) => out.push_str(" | ACCESSORPANIC"),
    }
    out
}

/// `N <code points> ; <fed code points>`: a lexer built through the public `LRNonStreamingLexer::new(text, lexemes, cache)`
/// whose cache was fed the SECOND text (the shipped manual-lexer example fed nothing).  For every boundary span (s, e) of
/// the text: ` | s e l c l1 c1 l2 c2` = the position `LexParseError::pp` prints for a lexing error of that span and the two
/// pairs `NonStreamingLexer::line_col` returns; ` | s e P` when both panic.
fn unfed_case(line: &str) -> String {
    use lrlex::{LRLexError, LRNonStreamingLexer};
    type LT = DefaultLexerTypes<u32>;
    let mut it = line.splitn(2, ';');
    let text = cps_to_string(it.next().unwrap());
    let fed = cps_to_string(it.next().unwrap_or(""));
    let mut bounds: Vec<usize> = text.char_indices().map(|(i, _)| i).collect();
    bounds.push(text.len());
    let mut out = String::from("P");
    for (i, &a) in bounds.iter().enumerate() {
        for &b in &bounds[i..] {
            let mk = || {
                let mut cache = NewlineCache::new();
                if !fed.is_empty() {
                    cache.feed(&fed);
                }
                let lexer: LRNonStreamingLexer<LT> =
                    LRNonStreamingLexer::new(&text, vec![Err(LRLexError::new(Span::new(a, b)))], cache);
                lexer
            };
            let r1 = catch(std::panic::AssertUnwindSafe(|| {
                let lexer = mk();
                let e = lexer.iter().next().unwrap().unwrap_err();
                let lpe: LexParseError<u32, LT> = LexParseError::LexError(e);
                lpe.pp(&lexer, &|_| None)
            }));
            let r2 = catch(std::panic::AssertUnwindSafe(|| mk().line_col(Span::new(a, b))));
            match (r1, r2) {
                (Err(_), Err(_)) => write!(out, " | {} {} P", a, b).unwrap(),
                (r1, r2) => {
                    let p1 = match r1 {
                        Ok(m) => {
                            // "Lexing error at line L column C."
                            let nums: Vec<&str> = m
                                .split(|ch: char| !ch.is_ascii_digit())
                                .filter(|t| !t.is_empty())
                                .collect();
                            nums.join(" ")
                        }
                        Err(_) => "P P".to_string(),
                    };
                    let p2 = match r2 {
                        Ok(((l1, c1), (l2, c2))) => format!("{} {} {} {}", l1, c1, l2, c2),
                        Err(_) => "P P P P".to_string(),
                    };
                    write!(out, " | {} {} {} {}", a, b, p1, p2).unwrap()
                }
            }
        }
    }
    out
}

fn main() {
    gvh::quiet_panics();
    for_each_case(|line| {
        // the characters between the kind letter and the first blank select the model
        // variant; they mean nothing here
        if let Some(rest) = line.strip_prefix("D") {
            return diag_case(rest.trim_start_matches(|ch: char| !ch.is_whitespace()));
        }
        if let Some(rest) = line.strip_prefix("C") {
            return conflicts_case(rest);
        }
        if let Some(rest) = line.strip_prefix("N") {
            return unfed_case(rest);
        }
        if let Some(rest) = line.strip_prefix("I") {
            return conflicts_added_case(rest);
        }
        if let Some(rest) = line.strip_prefix("E") {
            return errpp_case(rest);
        }
        if let Some(rest) = line.strip_prefix("G") {
            return spanned_case(rest.trim_start_matches(|ch: char| !ch.is_whitespace()));
        }
        let (line, only): (&str, Option<Vec<(usize, usize)>>) = match line.strip_prefix("Q") {
            Some(rest) => {
                let (a, b) = rest.split_once('@').unwrap_or((rest, ""));
                let v: Vec<usize> = b.split_whitespace().map(|t| t.parse().expect("offset")).collect();
                (a, Some(v.chunks(2).filter(|p| p.len() == 2).map(|p| (p[0], p[1])).collect()))
            }
            None => (line, None),
        };
        let line = line.strip_prefix("T").unwrap_or(line);
        let chunks: Vec<String> = line.split(';').map(cps_to_string).collect();
        let text: String = chunks.concat();
        let r = catch(|| {
            let cache: NewlineCache = chunks.iter().map(|s| s.as_str()).collect();
            cache
        });
        let cache = match r {
            Ok(c) => c,
            Err(_) => return "FEEDPANIC".to_string(),
        };
        let mut out = String::new();
        let mut bounds: Vec<usize> = text.char_indices().map(|(i, _)| i).collect();
        bounds.push(text.len());
        write!(out, "N {}", text.len()).unwrap();
        // all byte offsets up to len+1 for line numbers (byte_to_line_num does not need boundaries)
        for off in 0..=text.len() + 1 {
            let r = catch(std::panic::AssertUnwindSafe(|| cache.byte_to_line_num(off)));
            match r {
                Ok(Some(l)) => write!(out, " | B {} {}", off, l).unwrap(),
                Ok(None) => write!(out, " | B {} -", off).unwrap(),
                Err(_) => write!(out, " | B {} P", off).unwrap(),
            }
        }
        for off in 0..=text.len() + 1 {
            let r = catch(std::panic::AssertUnwindSafe(|| cache.byte_to_line_byte(off)));
            match r {
                Ok(Some(l)) => write!(out, " | Y {} {}", off, l).unwrap(),
                Ok(None) => write!(out, " | Y {} -", off).unwrap(),
                Err(_) => write!(out, " | Y {} P", off).unwrap(),
            }
        }
        for &off in bounds.iter().chain(std::iter::once(&(text.len() + 1))) {
            let r = catch(std::panic::AssertUnwindSafe(|| {
                cache.byte_to_line_num_and_col_num(&text, off)
            }));
            match r {
                Ok(Some((l, c))) => write!(out, " | L {} {} {}", off, l, c).unwrap(),
                Ok(None) => write!(out, " | L {} - -", off).unwrap(),
                Err(_) => write!(out, " | L {} P P", off).unwrap(),
            }
        }
        let all: Vec<(usize, usize)> = match only {
            Some(ref v) => v.clone(),
            None => bounds.iter().enumerate().flat_map(|(i, &s)| bounds[i..].iter().map(move |&e| (s, e))).collect(),
        };
        {
            for &(s, e) in &all {
                let r = catch(std::panic::AssertUnwindSafe(|| {
                    cache.span_line_bytes(Span::new(s, e))
                }));
                match r {
                    Ok((st, en)) => write!(out, " | S {} {} {} {}", s, e, st, en).unwrap(),
                    Err(_) => write!(out, " | S {} {} P", s, e).unwrap(),
                }
            }
        }
        lexer_queries(&mut out, &text, &bounds, only.as_deref());
        out
    });
}
