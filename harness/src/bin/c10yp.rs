//! C10 half (b) / C12: the yacc text parser observed through
//! `ASTWithValidityInfo::new(kind, src)` (public API, no header handling by the caller).
//! case line:  `<kind> <hexsrc>`   kind in O N U G E (see gvh::common::yacckind); empty text = `-`
//! result line: sections joined by ` # `:
//!   `OK` | `ERRS <n>`                       (first section; `PANIC` alone when the parser panicked)
//!   `E <Kind>[:x<hexarg>] {<s> <e>}*`       errors in order
//!   `START x<name> <s> <e>` | `START -`
//!   `RULE x<name> <s> <e> <x<actiont>|-> <pidx,pidx,..|->`           insertion order
//!   `PROD <x<prec>|-> <x<action> <s> <e>|-> <ps> <pe> {R|T x<name> <s> <e>}*`
//!   `TOK x<name> <s> <e> <D|->`             first-occurrence order, D = named by a %token directive
//!   `PREC x<name> <level> <L|R|N> <s> <e>`  (hash map: sorted by span start = insertion order)
//!   `AVOID <-|+>` then `AI x<name> <s> <e>`;  `IMPL <-|+>` then `IT x<name> <s> <e>`
//!   `EPP x<name> <ks> <ke> x<val> <vs> <ve>`
//!   `EXPECT <hexnum> <s> <e>` `EXPECTRR ..` `PP x<name> x<ty>` `PG x<ty>` `PROGS x<text>`
//!   `EU R|T x<name> <s> <e>`
//!   `W <UnusedRule|UnusedToken> <s> <e>`    warnings (GrammarAST::warnings)
//!   `BADSPAN <s> <e>`                       any span that is not s <= e <= len on char boundaries
//! No canonicalisation of errors: the `UnknownEPP` reported by validation is printed as reported
//! (kind argument and span); of several unknown %epp keys it must be the one declared first.
use cfgrammar::yacc::ast::{ASTWithValidityInfo, GrammarAST, Symbol};
use cfgrammar::yacc::{AssocKind, YaccGrammar, YaccGrammarError, YaccKind, YaccOriginalActionKind};
use cfgrammar::{Span, Spanned};
use std::str::FromStr;
use gvh::common::*;
use gvh::util::*;
use std::fmt::Write;

fn xh(s: &str) -> String {
    format!("x{}", hex(s))
}

fn sym(o: &mut String, s: &Symbol, sp: &mut Vec<Span>) {
    match s {
        Symbol::Rule(n, l) => {
            sp.push(*l);
            write!(o, " R {} {} {}", xh(n), l.start(), l.end()).unwrap()
        }
        Symbol::Token(n, l) => {
            sp.push(*l);
            write!(o, " T {} {} {}", xh(n), l.start(), l.end()).unwrap()
        }
    }
}

/// kind name (from Debug) and payload (from Display) of an error
fn kind_of(dbg: &str, disp: &str) -> String {
    // dbg = `YaccGrammarError { kind: Name(..)?, spans: [..] }`
    let k = dbg.split("kind: ").nth(1).unwrap_or("?");
    let name: String = k.chars().take_while(|c| c.is_ascii_alphanumeric()).collect();
    let arg = |pre: &str, post: &str| -> String {
        let body = disp.strip_prefix(pre).and_then(|r| r.strip_suffix(post)).unwrap_or("?");
        format!("{}:{}", name, xh(body))
    };
    match name.as_str() {
        "InvalidStartRule" => arg("Start rule '", "' does not appear in grammar"),
        "UnknownRuleRef" => arg("Unknown reference to rule '", "'"),
        "UnknownToken" => arg("Unknown token '", "'"),
        "NoPrecForToken" => arg("Token '", "' used in %prec has no precedence attached"),
        "UnknownEPP" => arg("Token '", "' in %epp declaration is not referenced in the grammar"),
        _ => name,
    }
}

fn dump(src: &str, a: &ASTWithValidityInfo) -> String {
    let ast: &GrammarAST = a.ast();
    let mut o = String::new();
    let mut sp: Vec<Span> = Vec::new();
    let errs = a.errors();
    if errs.is_empty() {
        o.push_str("OK");
    } else {
        write!(o, "ERRS {}", errs.len()).unwrap();
    }
    for e in errs {
        // reported as it is: since /repo 3e32e4e the unknown %epp key reported is the one declared first
        // (no hash-order freedom left to canonicalise)
        let k = kind_of(&format!("{:?}", e), &format!("{}", e));
        let spans: Vec<Span> = e.spans().to_vec();
        write!(o, " # E {}", k).unwrap();
        for s in spans {
            sp.push(s);
            write!(o, " {} {}", s.start(), s.end()).unwrap();
        }
    }
    match &ast.start {
        Some((n, l)) => {
            sp.push(*l);
            write!(o, " # START {} {} {}", xh(n), l.start(), l.end()).unwrap()
        }
        None => o.push_str(" # START -"),
    }
    for (_, r) in ast.rules.iter() {
        sp.push(r.name.1);
        write!(o, " # RULE {} {} {} ", xh(&r.name.0), r.name.1.start(), r.name.1.end()).unwrap();
        match &r.actiont {
            Some(t) => o.push_str(&xh(t)),
            None => o.push('-'),
        }
        if r.pidxs.is_empty() {
            o.push_str(" -");
        } else {
            let v: Vec<String> = r.pidxs.iter().map(|p| p.to_string()).collect();
            write!(o, " {}", v.join(",")).unwrap();
        }
    }
    for p in ast.prods.iter() {
        o.push_str(" # PROD ");
        match &p.precedence {
            Some(t) => o.push_str(&xh(t)),
            None => o.push('-'),
        }
        match &p.action {
            Some((t, l)) => {
                sp.push(*l);
                write!(o, " {} {} {}", xh(t), l.start(), l.end()).unwrap()
            }
            None => o.push_str(" -"),
        }
        sp.push(p.prod_span);
        write!(o, " {} {}", p.prod_span.start(), p.prod_span.end()).unwrap();
        for s in &p.symbols {
            sym(&mut o, s, &mut sp);
        }
    }
    for (i, t) in ast.tokens.iter().enumerate() {
        match ast.spans.get(i) {
            Some(l) => {
                sp.push(*l);
                write!(o, " # TOK {} {} {}", xh(t), l.start(), l.end()).unwrap()
            }
            None => write!(o, " # TOK {} ? ?", xh(t)).unwrap(),
        }
        o.push_str(if ast.token_directives.contains(&i) { " D" } else { " -" });
    }
    if ast.spans.len() != ast.tokens.len() {
        write!(o, " # SPANSLEN {} {}", ast.spans.len(), ast.tokens.len()).unwrap();
    }
    let mut bad_td: Vec<usize> = ast.token_directives.iter().copied().filter(|i| *i >= ast.tokens.len()).collect();
    bad_td.sort();
    for i in bad_td {
        write!(o, " # BADTOKDIR {}", i).unwrap();
    }
    let mut precs: Vec<_> = ast.precs.iter().collect();
    precs.sort_by_key(|(_, (_, l))| l.start());
    for (n, (p, l)) in precs {
        sp.push(*l);
        let k = match p.kind {
            AssocKind::Left => "L",
            AssocKind::Right => "R",
            AssocKind::Nonassoc => "N",
        };
        write!(o, " # PREC {} {} {} {} {}", xh(n), p.level, k, l.start(), l.end()).unwrap();
    }
    for (tag, item, m) in [("AVOID", "AI", &ast.avoid_insert), ("IMPL", "IT", &ast.implicit_tokens)] {
        match m {
            None => write!(o, " # {} -", tag).unwrap(),
            Some(m) => {
                write!(o, " # {} +", tag).unwrap();
                let mut v: Vec<_> = m.iter().collect();
                v.sort_by_key(|(_, l)| l.start());
                for (n, l) in v {
                    sp.push(*l);
                    write!(o, " # {} {} {} {}", item, xh(n), l.start(), l.end()).unwrap();
                }
            }
        }
    }
    let mut epp: Vec<_> = ast.epp.iter().collect();
    epp.sort_by_key(|(_, (l, _))| l.start());
    for (n, (kl, (v, vl))) in epp {
        sp.push(*kl);
        sp.push(*vl);
        write!(o, " # EPP {} {} {} {} {} {}", xh(n), kl.start(), kl.end(), xh(v), vl.start(), vl.end()).unwrap();
    }
    if let Some((n, l)) = &ast.expect {
        sp.push(*l);
        write!(o, " # EXPECT {:x} {} {}", n, l.start(), l.end()).unwrap();
    }
    if let Some((n, l)) = &ast.expectrr {
        sp.push(*l);
        write!(o, " # EXPECTRR {:x} {} {}", n, l.start(), l.end()).unwrap();
    }
    if let Some((n, t)) = &ast.parse_param {
        write!(o, " # PP {} {}", xh(n), xh(t)).unwrap();
    }
    if let Some(t) = &ast.parse_generics {
        write!(o, " # PG {}", xh(t)).unwrap();
    }
    if let Some(t) = &ast.programs {
        write!(o, " # PROGS {}", xh(t)).unwrap();
    }
    for s in &ast.expect_unused {
        o.push_str(" # EU");
        sym(&mut o, s, &mut sp);
    }
    let ws = catch(std::panic::AssertUnwindSafe(|| ast.warnings()));
    match ws {
        Ok(ws) => {
            for w in ws {
                let k = format!("{:?}", w);
                let name = if k.contains("UnusedRule") { "UnusedRule" } else { "UnusedToken" };
                write!(o, " # W {}", name).unwrap();
                for s in w.spans() {
                    sp.push(*s);
                    write!(o, " {} {}", s.start(), s.end()).unwrap();
                }
            }
        }
        Err(_) => o.push_str(" # W PANIC"),
    }
    for s in sp {
        if !(s.start() <= s.end() && s.end() <= src.len() && src.is_char_boundary(s.start()) && src.is_char_boundary(s.end())) {
            write!(o, " # BADSPAN {} {}", s.start(), s.end()).unwrap();
        }
    }
    o
}

fn kind_code(k: YaccKind) -> &'static str {
    match k {
        YaccKind::Original(YaccOriginalActionKind::GenericParseTree) => "O",
        YaccKind::Original(YaccOriginalActionKind::NoAction) => "N",
        YaccKind::Original(YaccOriginalActionKind::UserAction) => "U",
        YaccKind::Grmtools => "G",
        YaccKind::Eco => "E",
        #[allow(unreachable_patterns)]
        _ => "?",
    }
}

fn errs_line(tag: &str, es: &[YaccGrammarError]) -> String {
    let mut o = format!("{} {}", tag, es.len());
    for e in es {
        let dbg = format!("{:?}", e);
        let k = dbg.split("kind: ").nth(1).unwrap_or("?");
        let name: String = k.chars().take_while(|c| c.is_ascii_alphanumeric()).collect();
        write!(o, " # E {}:{}", name, xh(&format!("{}", e))).unwrap();
        for s in e.spans() {
            write!(o, " {} {}", s.start(), s.end()).unwrap();
        }
    }
    o
}

fn osp(s: Option<Span>) -> String {
    match s {
        Some(s) => format!("{} {}", s.start(), s.end()),
        None => "- -".to_string(),
    }
}
fn ostr(s: Option<&str>) -> String {
    match s {
        Some(s) => xh(s),
        None => "-".to_string(),
    }
}

/// Grammar-level transcript (names, structure and every span accessor of `YaccGrammar`), used by the
/// `FG` / `NG` cases to compare the two construction routes.
fn gdump(r: Result<YaccGrammar<u32>, Vec<YaccGrammarError>>) -> String {
    let g = match r {
        Ok(g) => g,
        Err(es) => return errs_line("GERR", &es),
    };
    let mut o = String::from("GOK");
    write!(o, " {} {} {} start {} {}", usize::from(g.rules_len()), usize::from(g.prods_len()), usize::from(g.tokens_len()),
           usize::from(g.start_rule_idx()), usize::from(g.start_prod())).unwrap();
    for r in g.iter_rules() {
        let sp = g.rule_name_span(r);
        write!(o, " # R {} {} {} {}", xh(g.rule_name_str(r)), sp.start(), sp.end(), ostr(g.actiontype(r).as_deref())).unwrap();
        for p in g.rule_to_prods(r) {
            write!(o, " {}", usize::from(*p)).unwrap();
        }
    }
    for p in g.iter_pidxs() {
        let sp = g.prod_span(p);
        write!(o, " # P {} {} {} {} {}", usize::from(g.prod_to_rule(p)), sp.start(), sp.end(), ostr(g.action(p).as_deref()), osp(g.action_span(p))).unwrap();
        match g.prod_precedence(p) {
            Some(pr) => write!(o, " {}:{}", pr.level, assoc_code(pr.kind)).unwrap(),
            None => o.push_str(" -"),
        }
        for s in g.prod(p) {
            write!(o, " {}", sym_code(s)).unwrap();
        }
    }
    for t in g.iter_tidxs() {
        write!(o, " # T {} {} {} {}", ostr(g.token_name(t)), osp(g.token_span(t)), ostr(g.token_epp(t)), if g.avoid_insert(t) { "A" } else { "-" }).unwrap();
        match g.token_precedence(t) {
            Some(pr) => write!(o, " {}:{}", pr.level, assoc_code(pr.kind)).unwrap(),
            None => o.push_str(" -"),
        }
    }
    write!(o, " # X {:?} {:?} {}", g.expect(), g.expectrr(), ostr(g.programs().as_deref())).unwrap();
    match g.parse_param() {
        Some((n, t)) => write!(o, " {} {}", xh(n), xh(t)).unwrap(),
        None => o.push_str(" - -"),
    }
    write!(o, " {}", ostr(g.parse_generics().as_deref())).unwrap();
    o
}

/// Case kinds:
///   `<kind> <hexsrc>`      ASTWithValidityInfo::new(kind, src)            -> AST transcript (see the module header)
///   `F <hexsrc>`           ASTWithValidityInfo::from_str(src)             -> `<kind> ` + the same AST transcript, or
///                                                                            `HDRERR <n> # E <Kind>:x<msg> <s> <e>..`
///   `NG <kind> <hexsrc>`   YaccGrammar::<u32>::new_with_storaget(kind,src) -> grammar transcript (`gdump`)
///   `FG <hexsrc>`          YaccGrammar::<u32>::from_str(src)               -> grammar transcript (`gdump`)
fn main() {
    gvh::quiet_panics();
    for_each_case(|line| {
        let f: Vec<&str> = line.split_whitespace().collect();
        let kind = f.first().copied().unwrap_or("O").to_string();
        let text = |k: usize| -> String {
            match f.get(k).copied() {
                None | Some("-") => String::new(),
                Some(h) => unhex(h),
            }
        };
        let r = match kind.as_str() {
            "F" => {
                let src = text(1);
                catch(std::panic::AssertUnwindSafe(|| match ASTWithValidityInfo::from_str(&src) {
                    Ok(a) => format!("{} {}", kind_code(a.yacc_kind()), dump(&src, &a)),
                    Err(es) => errs_line("HDRERR", &es),
                }))
            }
            "FG" => {
                let src = text(1);
                catch(std::panic::AssertUnwindSafe(|| gdump(YaccGrammar::<u32>::from_str(&src))))
            }
            "NG" => {
                let k = f.get(1).copied().unwrap_or("O").to_string();
                let src = text(2);
                catch(std::panic::AssertUnwindSafe(|| gdump(YaccGrammar::<u32>::new_with_storaget(yacckind(&k), &src))))
            }
            _ => {
                let src = text(1);
                catch(std::panic::AssertUnwindSafe(|| {
                    let a = ASTWithValidityInfo::new(yacckind(&kind), &src);
                    dump(&src, &a)
                }))
            }
        };
        match r {
            Ok(s) => s,
            Err(m) => format!("PANIC {}", m.replace('\n', " ")),
        }
    });
}
