//! C08: observe the calls `Parser::lr` / `lr_upto` make to the production actions.
//! case:   `<kind> <hexsrc> <rec: 0|1> [costs=<c>,<c>,…] [det=<N>] ; name@s-e name@s-e … ; …`     (one parse per `;` group)
//!         `costs=…` (optional): BOTH builders (the `parse_actions` one and the `parse_map` one) get
//!         `.term_costs(f)` with f(tidx) = the (tidx mod length)-th number of the list (1..=255); without it
//!         `term_costs` is not called (default: every token costs 1)
//!         a lexeme written `name@s-e!` is handed to the parser as a LEXER-SUPPLIED faulty lexeme
//!         (`Lexeme::new_faulty`: public API, a lexer doing its own error handling may produce them)
//! result: `<grammar dump> # <automaton dump> # X… ` then per usable input
//!   ` # IN <tok> <s> <e> …`           the lexemes (token index, byte span)
//!   ` # FM <0|1>…`                    (only when some input lexeme is faulty) one digit per lexeme: its faulty flag
//!   ` # OA <outcome>`                 parse_actions: `acc <k>` | `none` | `panic <msg>`
//!   ` # L <k> <pidx> <ridx> <s> <e> <param> <arg>*`   one per action call, in call order;
//!        <arg> = `l:<tok>:<s>:<e>:<0|1 faulty>` | `v:<k>` (value returned by call k)
//!   ` # EA <tok>:<s>:<e> <stidx> <nrepairs> <repair>*`  one per ParseError (repairs()[0], the applied one:
//!        `I<tidx>` | `D` | `S`)
//!   ` # RA <seq>|<seq>|…`             right after each EA: ALL repair sequences of that error, steps joined by `,`,
//!        sequences sorted (their order is hash order in the implementation); `RA * <n>` when there are more than 64
//!   ` # TA <tree>`                    tree built by the recording actions (`-` if none)
//!   ` # OG … # EG … # RG … # TG <tree>`   the same through parse_map (generic tree mode)
//!   ` # TC <cost of token 0> <cost of token 1> …`   (once per case, only with `costs=`) the cost function in effect
//!   ` # QA <nties> <seq>|<seq>|…`     right after each RA (` # QG …` after each RG): the repair sequences in the ORDER
//!        `repairs()` reports them (not sorted); <nties> = how many of them have the rank key of `repairs()[0]`
//!        (contains an %avoid_insert token, length) — 2 or more: the applied sequence was picked among equals;
//!        `QA <nties> *` when there are more than 64 sequences
//!   ` # DET <rounds> <status>`        only with the head word `det=<N>` and recovery on, for an input on which the first
//!        parse_actions run reported an error: parse_actions and parse_map were run <rounds> more times each, alternately, in
//!        this process, and every run was compared with the first one of its mode (and the first runs of the two modes
//!        with each other) on: verdict, tree, errors and the full ORDERED repairs() list of every error
//!        (`Delete`/`Shift` with their lexemes).  <status> = `same` | `slow` (first runs took long: a later run may be cut by
//!        the recovery time budget; not repeated) | `cut` (two runs differ and one of them has an error without repairs = a search
//!        the budget cut short; not a comparison) | `diff <AG|A|G> <round> <hex first signature> <hex other signature>`
//! trees: `(ridx kid …)` / `[tok s e f]`
use gvh::common::*;
use gvh::util::*;
use cfgrammar::{RIdx, Span};
use lrpar::parser::AStackType;
use lrpar::{LexParseError, Lexeme, NonStreamingLexer, ParseRepair, RTParserBuilder, RecoveryKind};
use std::cell::RefCell;
use std::fmt::Write;

const MAGIC: u64 = 77;

#[derive(Clone, Debug)]
enum T2 {
    Term(u32, usize, usize, bool),
    Nonterm(u32, Vec<T2>),
}

impl T2 {
    fn pp(&self, o: &mut String) {
        match self {
            T2::Term(t, s, e, f) => write!(o, "[{} {} {} {}]", t, s, e, if *f { 1 } else { 0 }).unwrap(),
            T2::Nonterm(r, kids) => {
                write!(o, "({}", r).unwrap();
                for k in kids {
                    o.push(' ');
                    k.pp(o);
                }
                o.push(')');
            }
        }
    }
}

fn term(l: Lx) -> T2 {
    T2::Term(l.tok_id(), l.span().start(), l.span().end(), l.faulty())
}

struct Val {
    id: usize,
    tree: T2,
}

enum Arg {
    Lex(u32, usize, usize, bool),
    Val(usize),
}

struct Call {
    pidx: usize,
    ridx: usize,
    span: (usize, usize),
    param: u64,
    args: Vec<Arg>,
}

type Prm<'p> = (u64, &'p RefCell<Vec<Call>>);

type ActDyn<'b, 'input, 'p> =
    dyn Fn(RIdx<u32>, &'b dyn NonStreamingLexer<'input, LT>, Span, std::vec::Drain<AStackType<Lx, Val>>, Prm<'p>) -> Val + 'p;
type Act<'b, 'input, 'p> = Box<ActDyn<'b, 'input, 'p>>;

fn mk_action<'b, 'input, 'p>(pidx: usize) -> Act<'b, 'input, 'p> {
    Box::new(move |ridx, _lexer, span, args, prm| {
        let mut la = Vec::new();
        let mut kids = Vec::new();
        for a in args {
            match a {
                AStackType::Lexeme(l) => {
                    la.push(Arg::Lex(l.tok_id(), l.span().start(), l.span().end(), l.faulty()));
                    kids.push(term(l));
                }
                AStackType::ActionType(v) => {
                    la.push(Arg::Val(v.id));
                    kids.push(v.tree);
                }
            }
        }
        let mut log = prm.1.borrow_mut();
        let id = log.len();
        log.push(Call { pidx, ridx: usize::from(ridx), span: (span.start(), span.end()), param: prm.0, args: la });
        Val { id, tree: T2::Nonterm(u32::from(ridx), kids) }
    })
}

fn seq_str(sq: &[ParseRepair<Lx, u32>]) -> String {
    let x = sq
        .iter()
        .map(|r| match r {
            ParseRepair::Insert(t) => format!("I{}", usize::from(*t)),
            ParseRepair::Delete(_) => "D".to_string(),
            ParseRepair::Shift(_) => "S".to_string(),
        })
        .collect::<Vec<_>>()
        .join(",");
    if x.is_empty() { "-".to_string() } else { x }
}

/// how many of the reported sequences have the rank key of the first one (simplify_repairs sorts by
/// (contains an %avoid_insert token, length) and by nothing else)
fn first_rank_ties(grm: &cfgrammar::yacc::YaccGrammar<u32>, rs: &[Vec<ParseRepair<Lx, u32>>]) -> usize {
    let key = |sq: &Vec<ParseRepair<Lx, u32>>| {
        (sq.iter().any(|r| matches!(r, ParseRepair::Insert(t) if grm.avoid_insert(*t))), sq.len())
    };
    match rs.first() {
        None => 0,
        Some(f) => {
            let k = key(f);
            rs.iter().filter(|x| key(x) == k).count()
        }
    }
}

/// everything C08 lets a caller observe of one parse, the ORDER of repairs() included
fn signature(verdict: &str, tree: Option<&T2>, errs: &[LexParseError<u32, LT>]) -> (String, bool) {
    let mut o = String::from(verdict);
    let mut cut = false;
    o.push_str(" T ");
    match tree {
        Some(t) => t.pp(&mut o),
        None => o.push('-'),
    }
    for e in errs {
        match e {
            LexParseError::ParseError(e) => {
                let l = e.lexeme();
                write!(o, " E {}:{}:{} {} [", l.tok_id(), l.span().start(), l.span().end(), usize::from(e.stidx())).unwrap();
                if e.repairs().is_empty() {
                    cut = true;
                }
                for (i, sq) in e.repairs().iter().enumerate() {
                    if i > 0 {
                        o.push('|');
                    }
                    for (j, r) in sq.iter().enumerate() {
                        if j > 0 {
                            o.push(',');
                        }
                        match r {
                            ParseRepair::Insert(t) => write!(o, "I{}", usize::from(*t)).unwrap(),
                            ParseRepair::Delete(l) => {
                                write!(o, "D{}:{}:{}", l.tok_id(), l.span().start(), l.span().end()).unwrap()
                            }
                            ParseRepair::Shift(l) => {
                                write!(o, "S{}:{}:{}", l.tok_id(), l.span().start(), l.span().end()).unwrap()
                            }
                        }
                    }
                }
                o.push(']');
            }
            LexParseError::LexError(_) => o.push_str(" E lexerr"),
        }
    }
    (o, cut)
}

fn pp_errors(o: &mut String, tag: &str, rtag: &str, qtag: &str, grm: &cfgrammar::yacc::YaccGrammar<u32>, errs: &[LexParseError<u32, LT>]) {
    for e in errs {
        match e {
            LexParseError::ParseError(e) => {
                let l = e.lexeme();
                write!(o, " # {} {}:{}:{} {} {}", tag, l.tok_id(), l.span().start(), l.span().end(), usize::from(e.stidx()), e.repairs().len())
                    .unwrap();
                if let Some(r0) = e.repairs().first() {
                    for r in r0 {
                        match r {
                            ParseRepair::Insert(t) => write!(o, " I{}", usize::from(*t)).unwrap(),
                            ParseRepair::Delete(_) => o.push_str(" D"),
                            ParseRepair::Shift(_) => o.push_str(" S"),
                        }
                    }
                }
                if e.repairs().len() > 64 {
                    write!(o, " # {} * {}", rtag, e.repairs().len()).unwrap();
                } else if !e.repairs().is_empty() {
                    let mut seqs: Vec<String> = e
                        .repairs()
                        .iter()
                        .map(|sq| {
                            sq.iter()
                                .map(|r| match r {
                                    ParseRepair::Insert(t) => format!("I{}", usize::from(*t)),
                                    ParseRepair::Delete(_) => "D".to_string(),
                                    ParseRepair::Shift(_) => "S".to_string(),
                                })
                                .collect::<Vec<_>>()
                                .join(",")
                        })
                        .map(|x| if x.is_empty() { "-".to_string() } else { x })
                        .collect();
                    seqs.sort();
                    write!(o, " # {} {}", rtag, seqs.join("|")).unwrap();
                }
                if !e.repairs().is_empty() {
                    let nt = first_rank_ties(grm, e.repairs());
                    if e.repairs().len() > 64 {
                        write!(o, " # {} {} *", qtag, nt).unwrap();
                    } else {
                        let ordered: Vec<String> = e.repairs().iter().map(|sq| seq_str(sq)).collect();
                        write!(o, " # {} {} {}", qtag, nt, ordered.join("|")).unwrap();
                    }
                }
            }
            LexParseError::LexError(_) => write!(o, " # {} lexerr", tag).unwrap(),
        }
    }
}

type ActRes = Result<(Option<(usize, T2)>, Vec<LexParseError<u32, LT>>), String>;
type GenRes = Result<(Option<T2>, Vec<LexParseError<u32, LT>>), String>;

struct Input<'x> {
    b: &'x Built,
    toks: &'x [u32],
    spans: &'x [(usize, usize)],
    faulty: &'x [bool],
    rk: RecoveryKind,
    costs: &'x Option<Vec<u8>>,
}

impl Input<'_> {
    // the SAME cost function for both modes (None: term_costs is not called)
    fn cost(&self, t: cfgrammar::TIdx<u32>) -> u8 {
        match self.costs {
            Some(c) if !c.is_empty() => c[usize::from(t) % c.len()],
            _ => 1,
        }
    }

    /// parse_actions with one recording closure per production (a fresh single-shot lexer per run)
    fn run_actions(&self) -> (ActRes, Vec<Call>) {
        let costf = |t: cfgrammar::TIdx<u32>| -> u8 { self.cost(t) };
        let log: RefCell<Vec<Call>> = RefCell::new(Vec::new());
        let lexer = ReplayLexer::with_spans(self.toks.to_vec(), self.spans.to_vec()).with_faulty(self.faulty.to_vec());
        let r = catch(std::panic::AssertUnwindSafe(|| {
            let boxed: Vec<Act> = (0..usize::from(self.b.grm.prods_len())).map(mk_action).collect();
            let actions: Vec<&ActDyn> = boxed.iter().map(|x| &**x).collect();
            let pb = RTParserBuilder::<u32, LT>::new(&self.b.grm, &self.b.st).recoverer(self.rk);
            let pb = if self.costs.is_some() { pb.term_costs(&costf) } else { pb };
            let (v, errs) = pb.parse_actions(&lexer, &actions, (MAGIC, &log));
            (v.map(|v| (v.id, v.tree)), errs)
        }));
        (r, log.into_inner())
    }

    /// the generic tree through parse_map on the same lexemes
    fn run_generic(&self) -> GenRes {
        let costf = |t: cfgrammar::TIdx<u32>| -> u8 { self.cost(t) };
        let lexer = ReplayLexer::with_spans(self.toks.to_vec(), self.spans.to_vec()).with_faulty(self.faulty.to_vec());
        catch(std::panic::AssertUnwindSafe(|| {
            let pb = RTParserBuilder::<u32, LT>::new(&self.b.grm, &self.b.st).recoverer(self.rk);
            let pb = if self.costs.is_some() { pb.term_costs(&costf) } else { pb };
            pb.parse_map(&lexer, &|l: Lx| term(l), &|ridx, nodes| T2::Nonterm(u32::from(ridx), nodes))
        }))
    }
}

fn sig_actions(r: &ActRes) -> (String, bool) {
    match r {
        Err(m) => (format!("panic {}", m.replace('\n', " ")), false),
        Ok((Some((_, t)), errs)) => signature("acc", Some(t), errs),
        Ok((None, errs)) => signature("none", None, errs),
    }
}

fn sig_generic(r: &GenRes) -> (String, bool) {
    match r {
        Err(m) => (format!("panic {}", m.replace('\n', " ")), false),
        Ok((Some(t), errs)) => signature("acc", Some(t), errs),
        Ok((None, errs)) => signature("none", None, errs),
    }
}

fn one_input(o: &mut String, inp: &Input, det: usize) {
    let t0 = std::time::Instant::now();
    let (r, log) = inp.run_actions();
    match &r {
        Err(m) => write!(o, " # OA panic {}", m.replace('\n', " ").replace('#', "")).unwrap(),
        Ok((Some((id, _)), _)) => write!(o, " # OA acc {}", id).unwrap(),
        Ok((None, _)) => o.push_str(" # OA none"),
    }
    for (k, c) in log.iter().enumerate() {
        write!(o, " # L {} {} {} {} {} {}", k, c.pidx, c.ridx, c.span.0, c.span.1, c.param).unwrap();
        for a in &c.args {
            match a {
                Arg::Lex(t, s, e, f) => write!(o, " l:{}:{}:{}:{}", t, s, e, if *f { 1 } else { 0 }).unwrap(),
                Arg::Val(k) => write!(o, " v:{}", k).unwrap(),
            }
        }
    }
    if let Ok((v, errs)) = &r {
        pp_errors(o, "EA", "RA", "QA", &inp.b.grm, errs);
        o.push_str(" # TA ");
        match v {
            Some((_, t)) => t.pp(o),
            None => o.push('-'),
        }
    }
    let rg = inp.run_generic();
    match &rg {
        Err(m) => write!(o, " # OG panic {}", m.replace('\n', " ").replace('#', "")).unwrap(),
        Ok((v, errs)) => {
            o.push_str(if v.is_some() { " # OG acc" } else { " # OG none" });
            pp_errors(o, "EG", "RG", "QG", &inp.b.grm, errs);
            o.push_str(" # TG ");
            match v {
                Some(t) => t.pp(o),
                None => o.push('-'),
            }
        }
    }
    // ---- the applied repair is a function of the input: repeat both modes in this process
    let erroneous = matches!(&r, Ok((_, errs)) if !errs.is_empty());
    if det == 0 || !erroneous || !matches!(inp.rk, RecoveryKind::CPCTPlus) {
        return;
    }
    let first_ms = t0.elapsed().as_millis();
    let (sa0, cut_a) = sig_actions(&r);
    let (sg0, cut_g) = sig_generic(&rg);
    if sa0 != sg0 {
        if cut_a || cut_g {
            write!(o, " # DET 0 cut").unwrap();
        } else {
            write!(o, " # DET 0 diff AG 0 {} {}", hex(&sa0), hex(&sg0)).unwrap();
        }
        return;
    }
    if first_ms > 24 {
        write!(o, " # DET 0 slow").unwrap();
        return;
    }
    for round in 1..=det {
        let (ra, _) = inp.run_actions();
        let (sa, cut) = sig_actions(&ra);
        if sa != sa0 {
            if cut || cut_a {
                write!(o, " # DET {} cut", round).unwrap();
            } else {
                write!(o, " # DET {} diff A {} {} {}", round, round, hex(&sa0), hex(&sa)).unwrap();
            }
            return;
        }
        let rg = inp.run_generic();
        let (sg, cut) = sig_generic(&rg);
        if sg != sg0 {
            if cut || cut_g {
                write!(o, " # DET {} cut", round).unwrap();
            } else {
                write!(o, " # DET {} diff G {} {} {}", round, round, hex(&sg0), hex(&sg)).unwrap();
            }
            return;
        }
    }
    write!(o, " # DET {} same", det).unwrap();
}

fn main() {
    gvh::quiet_panics();
    for_each_case(move |line| {
        let mut parts = line.split(';');
        let head = parts.next().unwrap();
        let mut hs = head.split_whitespace();
        let kind = hs.next().unwrap().to_string();
        let src = unhex(hs.next().unwrap_or(""));
        let rec = hs.next().unwrap_or("0") == "1";
        let opts: Vec<&str> = hs.collect();
        let costs: Option<Vec<u8>> = opts.iter().find_map(|w| w.strip_prefix("costs=")).map(|l| {
            l.split(',').filter(|x| !x.is_empty()).map(|x| x.parse::<u8>().unwrap_or(1).max(1)).collect()
        });
        let det: usize = opts.iter().find_map(|w| w.strip_prefix("det=")).and_then(|x| x.parse().ok()).unwrap_or(0);
        let b = match catch(std::panic::AssertUnwindSafe(|| build(&kind, &src))) {
            Err(m) => return format!("BUILDPANIC {}", m.replace('\n', " ")),
            Ok(Err(e)) => return e,
            Ok(Ok(b)) => b,
        };
        let mut o = dump_grammar(&b.grm);
        o.push_str(" # ");
        o.push_str(&dump_automaton(&b.grm, &b.sg, &b.st));
        match b.st.conflicts() {
            None => o.push_str(" # X none"),
            Some(c) => write!(o, " # X {} {}", c.sr_len(), c.rr_len()).unwrap(),
        }
        write!(o, " # REC {}", if rec { 1 } else { 0 }).unwrap();
        if let Some(c) = &costs {
            if !c.is_empty() {
                o.push_str(" # TC");
                for t in 0..usize::from(b.grm.tokens_len()) {
                    write!(o, " {}", c[t % c.len()]).unwrap();
                }
            }
        }
        for inp in parts {
            let mut toks: Vec<u32> = Vec::new();
            let mut spans: Vec<(usize, usize)> = Vec::new();
            let mut faulty: Vec<bool> = Vec::new();
            let mut ok = true;
            for w in inp.split_whitespace() {
                let (n, sp) = match w.rsplit_once('@') {
                    Some(x) => x,
                    None => {
                        ok = false;
                        continue;
                    }
                };
                let (sp, flt) = match sp.strip_suffix('!') {
                    Some(x) => (x, true),
                    None => (sp, false),
                };
                let (s, e) = match sp.split_once('-') {
                    Some((s, e)) => (s.parse::<usize>().unwrap_or(0), e.parse::<usize>().unwrap_or(0)),
                    None => {
                        ok = false;
                        continue;
                    }
                };
                if e < s {
                    ok = false;
                }
                match b.grm.token_idx(n) {
                    Some(t) if t != b.grm.eof_token_idx() => {
                        toks.push(u32::from(t));
                        spans.push((s, e));
                        faulty.push(flt);
                    }
                    _ => ok = false,
                }
            }
            if !ok {
                continue;
            }
            o.push_str(" # IN");
            for (t, (s, e)) in toks.iter().zip(spans.iter()) {
                write!(o, " {} {} {}", t, s, e).unwrap();
            }
            if faulty.iter().any(|f| *f) {
                o.push_str(" # FM ");
                for f in &faulty {
                    o.push(if *f { '1' } else { '0' });
                }
            }
            let inp = Input {
                b: &b,
                toks: &toks,
                spans: &spans,
                faulty: &faulty,
                rk: if rec { RecoveryKind::CPCTPlus } else { RecoveryKind::None },
                costs: &costs,
            };
            one_input(&mut o, &inp, det);
        }
        o
    });
}
