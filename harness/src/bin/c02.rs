//! C02: Itemset::weakly_compatible / Itemset::weakly_merge (lrtable/src/lib/pager.rs) observed through the
//! cfg(grmtools_verif) hooks `lrtable::verif_weakly_compatible` / `lrtable::verif_weakly_merge`.
//!
//! case lines
//!   `S <ntoks> ; <items of self> ; <items of other>`   explicit item sets; items = `p d la… , p d la… , …`
//!         (`Itemset` cannot be named from outside the crate, but a core state of a StateGraph can be cloned and its
//!          public field `items` emptied and refilled)
//!   `G <kind> <hexsrc>`                                 build the StateGraph of the grammar and probe the REAL core-state
//!         objects: every ordered pair (a, b), a != b, with equal (production, dot) sets, every (a, a), and — to reach the
//!         two early exits — for every a the first b with the same number of items but other cores and the first b
//!         with another number of items
//!   `P <kind> <hexsrc>`                                 build the grammar's StateGraph and report, besides the usual grammar and
//!         automaton dump (G P … N C K E A T …), `X none` | `X <sr> <rr>` (conflicts), the trace recorded by the cfg(grmtools_verif) hook in pager_stategraph
//!         (`lrtable::verif_pager_trace_enable` / `verif_take_pager_trace`; recording is on only around this build): one section `TR <state_i> p d p d …` per iteration of its main loop =
//!         the state processed and the keys of its closed item set in the order the hash map yielded them
//! result: one probe record per probe, ` ## `-separated, each
//!   `W <ntoks> <wc> <mc> # KA p d la… (× items of self, in the order self.items.keys() yields them)
//!      # KB p d la… (× items of other, its own key order) # KM p d la… (× items of self after the merge, sorted)`
//!   wc = 0 | 1 | panic  (weakly_compatible(self, other));  mc = 0 | 1 | panic (changed flag of weakly_merge on a clone of self)
//! G-mode records start with `GP <a> <b> ` before `W`; the line starts with `GR <nstates> <nprobes>`.
use cfgrammar::yacc::{YaccGrammar, YaccKind, YaccOriginalActionKind};
use cfgrammar::{PIdx, SIdx};
use gvh::common::*;
use gvh::util::*;
use lrtable::{from_yacc, Minimiser, StIdx};
use std::fmt::Write;

macro_rules! items_in_key_order {
    ($is:expr) => {{
        let v: Vec<(usize, usize, Vec<usize>)> = $is
            .items
            .keys()
            .map(|k| (usize::from(k.0), usize::from(k.1), $is.items[k].iter_set_bits(..).collect()))
            .collect();
        v
    }};
}

fn put(o: &mut String, tag: &str, items: &[(usize, usize, Vec<usize>)]) {
    for (p, d, la) in items {
        write!(o, " # {} {} {}", tag, p, d).unwrap();
        for a in la {
            write!(o, " {}", a).unwrap();
        }
    }
}

macro_rules! probe {
    ($ntoks:expr, $a:expr, $b:expr) => {{
        let a = $a;
        let b = $b;
        let wc = match catch(std::panic::AssertUnwindSafe(|| lrtable::verif_weakly_compatible::<u32>(a, b))) {
            Ok(true) => "1".to_string(),
            Ok(false) => "0".to_string(),
            Err(_) => "panic".to_string(),
        };
        let mut m = a.clone();
        let mc = match catch(std::panic::AssertUnwindSafe(|| lrtable::verif_weakly_merge::<u32>(&mut m, b))) {
            Ok(true) => "1",
            Ok(false) => "0",
            Err(_) => "panic",
        };
        let mut o = String::new();
        write!(o, "W {} {} {}", $ntoks, wc, mc).unwrap();
        put(&mut o, "KA", &items_in_key_order!(a));
        put(&mut o, "KB", &items_in_key_order!(b));
        if mc != "panic" {
            let mut km = items_in_key_order!(m);
            km.sort();
            put(&mut o, "KM", &km);
        }
        o
    }};
}

fn parse_items(s: &str) -> Vec<(usize, usize, Vec<usize>)> {
    s.split(',')
        .filter(|x| !x.trim().is_empty())
        .map(|it| {
            let v: Vec<usize> = it.split_whitespace().map(|t| t.parse().expect("num")).collect();
            (v[0], v[1], v[2..].to_vec())
        })
        .collect()
}

fn main() {
    gvh::quiet_panics();
    // a template Itemset<u32> (the type is not nameable here): the start core state of a tiny grammar
    let tgrm = YaccGrammar::<u32>::new_with_storaget(
        YaccKind::Original(YaccOriginalActionKind::GenericParseTree),
        "%start S\n%%\nS: 'a';",
    )
    .unwrap();
    let (tsg, _tst) = from_yacc(&tgrm, Minimiser::Pager).unwrap();
    let tmpl = tsg.core_state(tsg.start_state()).clone();
    for_each_case(move |line| {
        let line = line.trim_start();
        if let Some(rest) = line.strip_prefix("S ") {
            let mut parts = rest.split(';');
            let ntoks: usize = parts.next().unwrap().trim().parse().expect("ntoks");
            let mk = |s: &str| {
                let mut is = tmpl.clone();
                let mut v0 = is.items.values().next().unwrap().clone();
                v0.truncate(0);
                v0.resize(ntoks, false);
                is.items.clear();
                for (p, d, la) in parse_items(s) {
                    let mut v = v0.clone();
                    for a in la {
                        v.set(a, true);
                    }
                    is.items.insert((PIdx(p as u32), SIdx(d as u32)), v);
                }
                is
            };
            let a = mk(parts.next().unwrap_or(""));
            let b = mk(parts.next().unwrap_or(""));
            probe!(ntoks, &a, &b)
        } else if let Some(rest) = line.strip_prefix("G ") {
            let mut hs = rest.split_whitespace();
            let kind = hs.next().unwrap().to_string();
            let src = unhex(hs.next().unwrap_or(""));
            let b = match catch(std::panic::AssertUnwindSafe(|| build(&kind, &src))) {
                Err(m) => return format!("BUILDPANIC {}", m.replace('\n', " ")),
                Ok(Err(e)) => return e,
                Ok(Ok(b)) => b,
            };
            let ntoks = usize::from(b.grm.tokens_len());
            let n = usize::from(b.sg.all_states_len());
            let cores: Vec<Vec<(usize, usize)>> = (0..n)
                .map(|s| {
                    let mut k: Vec<(usize, usize)> = b
                        .sg
                        .core_state(StIdx(s as u32))
                        .items
                        .keys()
                        .map(|k| (usize::from(k.0), usize::from(k.1)))
                        .collect();
                    k.sort();
                    k
                })
                .collect();
            let mut recs: Vec<String> = Vec::new();
            for x in 0..n {
                let mut other_cores = false;
                let mut other_len = false;
                for y in 0..n {
                    let take = if cores[x] == cores[y] {
                        true
                    } else if cores[x].len() == cores[y].len() {
                        !std::mem::replace(&mut other_cores, true)
                    } else {
                        !std::mem::replace(&mut other_len, true)
                    };
                    if take {
                        let r = probe!(ntoks, b.sg.core_state(StIdx(x as u32)), b.sg.core_state(StIdx(y as u32)));
                        recs.push(format!("GP {} {} {}", x, y, r));
                    }
                }
            }
            let mut o = format!("GR {} {}", n, recs.len());
            for r in recs {
                o.push_str(" ## ");
                o.push_str(&r);
            }
            o
        } else if let Some(rest) = line.strip_prefix("P ") {
            let mut hs = rest.split_whitespace();
            let kind = hs.next().unwrap().to_string();
            let src = unhex(hs.next().unwrap_or(""));
            let _ = lrtable::verif_take_pager_trace();
            lrtable::verif_pager_trace_enable(true);
            let built = catch(std::panic::AssertUnwindSafe(|| build(&kind, &src)));
            lrtable::verif_pager_trace_enable(false);
            let trace = lrtable::verif_take_pager_trace();
            let b = match built {
                Err(m) => return format!("BUILDPANIC {}", m.replace('\n', " ")),
                Ok(Err(e)) => return e,
                Ok(Ok(b)) => b,
            };
            let mut o = dump_grammar(&b.grm);
            o.push_str(" # ");
            o.push_str(&dump_automaton(&b.grm, &b.sg, &b.st));
            match b.st.conflicts() {
                None => o.push_str(" # X none"),
                Some(c) => write!(o, " # X {} {}", c.sr_len(), c.rr_len()).unwrap(),
            }
            for (st, keys) in trace {
                write!(o, " # TR {}", st).unwrap();
                for (p, d) in keys {
                    write!(o, " {} {}", p, d).unwrap();
                }
            }
            o
        } else {
            "BADCASE".to_string()
        }
    });
}
