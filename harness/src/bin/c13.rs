//! C13: compile-time builders vs run-time pipeline.
//!
//! case lines (first word = mode; text fields hex-encoded):
//!
//! `subst <dirhex> <uid> <actionhex>`
//!     writes a one-production grammar whose action is the given text, runs
//!     CTParserBuilder (Original(UserAction)) and reads the substituted action body
//!     back from the generated file.
//!     -> `OK <hex of the body's string literal>` | `ERR <line> <col> <hexmsg>` | `OTHER <hexmsg>`
//!
//! `gen <dirhex> <name> yk=G|U|O rec=C|N|- ser=F|V|- ed=2015|2018|2021 vis=priv|pub|super|self|crate|in:<hexpath>
//!      mody=<name>|- modl=<name>|- [lf:<flag>=<0|1|num> ...]`
//!      [entry=build|pf] [amp=0|1]
//!     <dir>/<name>.y and <dir>/<name>.l exist; runs CTLexerBuilder + CTParserBuilder with
//!     explicit output paths <dir>/<name>.y.rs, <dir>/<name>.l.rs.  entry=build (default):
//!     `CTLexerBuilder::lrpar_config(..).build()`; entry=pf: the deprecated `CTParserBuilder::process_file`
//!     followed by `CTLexerBuilder::rule_ids_map(<its result>).process_file`; all options are set through the
//!     builders in both cases.  amp: `allow_missing_tokens_in_parser`.
//!     -> `OK` | `ERR <hexmsg>` | `PANIC <hexmsg>`
//!
//! `lexgen <dirhex> <name> [lf:<flag>=<0|1|num> ...]`
//!     <dir>/<name>.l exists; runs CTLexerBuilder alone (no parser) to <dir>/<name>.l.rs — used for the
//!     static check of the quoted flags of lexerdef().   -> `OK` | `ERR <hexmsg>` | `PANIC <hexmsg>`
//!
//! `rt <yfilehex> <lfilehex> yk=G|U|O rec=C|N par=<u64>|- tpl=<hex template> # <inputhex> # <inputhex> ...`
//!     the run-time pipeline on the same sources: YaccGrammar + from_yacc + LRNonStreamingLexerDef::from_str
//!     + set_rule_ids(tokens_map) + RTParserBuilder::{parse_actions, parse_map}.
//!     template (for G/U): `;`-separated `<rulenamehex>.<alt>=<labelhex>:<item>,<item>,…` with items
//!     `A<k>` ($k), `S` ($span), `X` ($lexer.span_str($span)), `D` ($$), `P` (parse param).
//!     -> `OK <meta> ## <result input 1> ## <result input 2> …` | `ERR <hexmsg>`
//!     meta = `EPP <tidx>=<hex|->,… RULES <namehex>=<ridx>,… TOKS <namehex>=<tidx>,… PRODS <syms>;…
//!             PMAP <pidx>=<rulenamehex>.<alt>,… MISSING <n> <n>`
//!     result = `LEX … | VAL … | ERRS … [| RED <reduction log> <id of the result>]` (format:
//!     harness/src/c13_fmt.rs; the log lists per reduction `pidx@spanstart-spanend:` and the drained
//!     stack entries `L<tok>.<start>.<len>.<faulty>` / `V<ridx>.<reduction id>` for the Coq wrapper model)
#[path = "../c13_fmt.rs"]
mod gv;

use cfgrammar::yacc::{YaccGrammar, YaccKind, YaccOriginalActionKind};
use cfgrammar::{RIdx, Span, Symbol};
use gv::{hex, unhex, Lx, LT};
use gvh::util::*;
use lrlex::{CTLexerBuilder, LRNonStreamingLexerDef, LexerDef};
use lrpar::parser::AStackType;
use lrpar::parser::_deprecated_moved_::Node;
use lrpar::{CTParserBuilder, NonStreamingLexer, RTParserBuilder, RecoveryKind, SerialisationFormat};
use lrtable::{from_yacc, Minimiser};
use std::collections::HashMap;
use std::fmt::Write;
use std::path::PathBuf;

fn yk(code: &str) -> YaccKind {
    match code {
        "G" => YaccKind::Grmtools,
        "U" => YaccKind::Original(YaccOriginalActionKind::UserAction),
        "O" => YaccKind::Original(YaccOriginalActionKind::GenericParseTree),
        "N" => YaccKind::Original(YaccOriginalActionKind::NoAction),
        _ => panic!("bad yacckind"),
    }
}

fn kv<'a>(fields: &'a [&'a str], key: &str) -> Option<&'a str> {
    let pre = format!("{}=", key);
    fields.iter().find(|f| f.starts_with(&pre)).map(|f| &f[pre.len()..])
}

fn err_string(e: &dyn std::error::Error) -> String {
    format!("{}", e)
}

// ---- subst ---------------------------------------------------------------

fn mode_subst(fields: &[&str]) -> String {
    let dir = unhex(fields[0]);
    let uid = fields[1];
    let action = unhex(fields[2]);
    let src = format!("%start S\n%actiontype String\n%%\nS: 'a' {{{}}};\n", action);
    let yp = PathBuf::from(&dir).join(format!("s{}.y", uid));
    let op = PathBuf::from(&dir).join(format!("s{}.y.rs", uid));
    std::fs::write(&yp, &src).unwrap();
    let yp2 = yp.clone();
    let op2 = op.clone();
    let r = catch(move || {
        CTParserBuilder::<LT>::new()
            .yacckind(yk("U"))
            .grammar_path(&yp2)
            .output_path(&op2)
            .show_warnings(false)
            .build()
            .map(|_| ())
            .map_err(|e| err_string(&*e))
    });
    let out = match r {
        Err(p) => format!("PANIC {}", hex(&p)),
        Ok(Err(msg)) => {
            // "Error at <path>:<line>:<col>"
            let mut res = format!("OTHER {}", hex(&msg));
            if msg.contains("Unknown text following '$'") {
                if let Some(p) = msg.find(" at ") {
                    let rest = &msg[p + 4..];
                    let line1 = rest.lines().next().unwrap_or("");
                    let parts: Vec<&str> = line1.rsplitn(3, ':').collect();
                    if parts.len() == 3 {
                        res = format!("ERR {} {} {}", parts[1], parts[0], hex(&msg));
                    }
                }
            }
            res
        }
        Ok(Ok(())) => {
            let gen = std::fs::read_to_string(&op).unwrap_or_default();
            // the action of production 0 (production 1 is the added start production? find the one with a body literal)
            let mut res = "NOBODY".to_string();
            if let Some(p) = gen.find("fn __gt_action_") {
                let tail = &gen[p..];
                if let Some(q1) = tail.find('"') {
                    if let Some(q2) = tail[q1 + 1..].find('"') {
                        res = format!("OK {}", hex(&tail[q1..q1 + 1 + q2 + 1]));
                    }
                }
            }
            res
        }
    };
    std::fs::remove_file(&yp).ok();
    std::fs::remove_file(&op).ok();
    out
}

// ---- gen -----------------------------------------------------------------

/// the options of the parser builder: all of them are set THROUGH THE BUILDER, whatever the entry point
struct PCfg {
    ykind: YaccKind,
    ped: lrpar::RustEdition,
    pv: lrpar::Visibility,
    rec: String,
    ser: String,
    mody: Option<&'static str>,
}

fn cfg_parser<'a>(mut cp: CTParserBuilder<'a, LT>, o: &PCfg) -> CTParserBuilder<'a, LT> {
    cp = cp.yacckind(o.ykind).rust_edition(o.ped).visibility(o.pv.clone()).show_warnings(false);
    match o.rec.as_str() {
        "C" => cp = cp.recoverer(RecoveryKind::CPCTPlus),
        "N" => cp = cp.recoverer(RecoveryKind::None),
        _ => {}
    }
    match o.ser.as_str() {
        "F" => cp = cp.serialisation_format(SerialisationFormat::FixedSizeInteger),
        "V" => cp = cp.serialisation_format(SerialisationFormat::VariableSizedInteger),
        _ => {}
    }
    if let Some(m) = o.mody {
        cp = cp.mod_name(m);
    }
    cp
}

fn mode_gen(fields: &[&str]) -> String {
    let dir = unhex(fields[0]);
    let name = fields[1].to_string();
    let opts: Vec<String> = fields[2..].iter().map(|s| s.to_string()).collect();
    let r = catch(move || -> Result<(), String> {
        let opts: Vec<&str> = opts.iter().map(|s| s.as_str()).collect();
        let d = PathBuf::from(&dir);
        let yp = d.join(format!("{}.y", name));
        let lp = d.join(format!("{}.l", name));
        let yo = d.join(format!("{}.y.rs", name));
        let lo = d.join(format!("{}.l.rs", name));
        let ykind = yk(kv(&opts, "yk").unwrap());
        let rec = kv(&opts, "rec").unwrap_or("-").to_string();
        let ser = kv(&opts, "ser").unwrap_or("-").to_string();
        let ed = kv(&opts, "ed").unwrap_or("2021").to_string();
        let vis = kv(&opts, "vis").unwrap_or("priv").to_string();
        let mody = kv(&opts, "mody").unwrap_or("-").to_string();
        let modl = kv(&opts, "modl").unwrap_or("-").to_string();
        let pvis = |v: &str| -> lrpar::Visibility {
            match v {
                "priv" => lrpar::Visibility::Private,
                "pub" => lrpar::Visibility::Public,
                "super" => lrpar::Visibility::PublicSuper,
                "self" => lrpar::Visibility::PublicSelf,
                "crate" => lrpar::Visibility::PublicCrate,
                x if x.starts_with("in:") => lrpar::Visibility::PublicIn(unhex(&x[3..])),
                _ => panic!("vis"),
            }
        };
        let lvis = |v: &str| -> lrlex::Visibility {
            match v {
                "priv" => lrlex::Visibility::Private,
                "pub" => lrlex::Visibility::Public,
                "super" => lrlex::Visibility::PublicSuper,
                "self" => lrlex::Visibility::PublicSelf,
                "crate" => lrlex::Visibility::PublicCrate,
                x if x.starts_with("in:") => lrlex::Visibility::PublicIn(unhex(&x[3..])),
                _ => panic!("vis"),
            }
        };
        let (ped, led) = match ed.as_str() {
            "2015" => (lrpar::RustEdition::Rust2015, lrlex::RustEdition::Rust2015),
            "2018" => (lrpar::RustEdition::Rust2018, lrlex::RustEdition::Rust2018),
            _ => (lrpar::RustEdition::Rust2021, lrlex::RustEdition::Rust2021),
        };
        let pv = pvis(&vis);
        let entry = kv(&opts, "entry").unwrap_or("build").to_string();
        let amp = kv(&opts, "amp").map(|v| v == "1");
        let pcfg = PCfg {
            ykind,
            ped,
            pv,
            rec,
            ser,
            mody: if mody != "-" { Some(Box::leak(mody.clone().into_boxed_str())) } else { None },
        };
        let mut lb: CTLexerBuilder<'static, LT> = CTLexerBuilder::new().rust_edition(led).visibility(lvis(&vis)).show_warnings(false);
        if modl != "-" {
            lb = lb.mod_name(Box::leak(modl.clone().into_boxed_str()));
        }
        if let Some(a) = amp {
            lb = lb.allow_missing_tokens_in_parser(a);
        }
        for o in &opts {
            if let Some(fl) = o.strip_prefix("lf:") {
                let (k, v) = fl.split_once('=').unwrap();
                lb = apply_lex_flag(lb, k, v);
            }
        }
        if entry == "pf" {
            // the deprecated (still public) entry points: CTParserBuilder::process_file gives the token map,
            // which is handed to the lexer builder, whose process_file writes the lexer module
            #[allow(deprecated)]
            let map = cfg_parser(CTParserBuilder::<LT>::new(), &pcfg).process_file(&yp, &yo).map_err(|e| err_string(&*e))?;
            #[allow(deprecated)]
            let r = lb.rule_ids_map(map).process_file(&lp, &lo).map(|_| ()).map_err(|e| err_string(&*e));
            return r;
        }
        let (yp2, yo2) = (yp.clone(), yo.clone());
        lb = lb.lrpar_config(move |cp| cfg_parser(cp, &pcfg).grammar_path(&yp2).output_path(&yo2)).lexer_path(&lp).output_path(&lo);
        lb.build().map(|_| ()).map_err(|e| err_string(&*e))
    });
    match r {
        Err(p) => format!("PANIC {}", hex(&p)),
        Ok(Err(m)) => format!("ERR {}", hex(&m)),
        Ok(Ok(())) => "OK".to_string(),
    }
}

// ---- lexgen --------------------------------------------------------------

fn apply_lex_flag<'a>(lb: CTLexerBuilder<'a, LT>, k: &str, v: &str) -> CTLexerBuilder<'a, LT> {
    let b = v == "1";
    match k {
        "allow_wholeline_comments" => lb.allow_wholeline_comments(b),
        "dot_matches_new_line" => lb.dot_matches_new_line(b),
        "multi_line" => lb.multi_line(b),
        "posix_escapes" => lb.posix_escapes(b),
        "octal" => lb.octal(b),
        "swap_greed" => lb.swap_greed(b),
        "ignore_whitespace" => lb.ignore_whitespace(b),
        "unicode" => lb.unicode(b),
        "case_insensitive" => lb.case_insensitive(b),
        "size_limit" => lb.size_limit(v.parse().unwrap()),
        "dfa_size_limit" => lb.dfa_size_limit(v.parse().unwrap()),
        "nest_limit" => lb.nest_limit(v.parse().unwrap()),
        _ => panic!("unknown lexer flag"),
    }
}

fn mode_lexgen(fields: &[&str]) -> String {
    let dir = unhex(fields[0]);
    let name = fields[1].to_string();
    let opts: Vec<String> = fields[2..].iter().map(|s| s.to_string()).collect();
    let r = catch(move || {
        let d = PathBuf::from(&dir);
        let mut lb = CTLexerBuilder::new()
            .lexer_path(d.join(format!("{}.l", name)))
            .output_path(d.join(format!("{}.l.rs", name)))
            .show_warnings(false);
        for o in &opts {
            if let Some(fl) = o.strip_prefix("lf:") {
                let (k, v) = fl.split_once('=').unwrap();
                lb = apply_lex_flag(lb, k, v);
            }
        }
        lb.build().map(|_| ()).map_err(|e| err_string(&*e))
    });
    match r {
        Err(p) => format!("PANIC {}", hex(&p)),
        Ok(Err(m)) => format!("ERR {}", hex(&m)),
        Ok(Ok(())) => "OK".to_string(),
    }
}

// ---- rt ------------------------------------------------------------------

#[derive(Clone, Debug)]
enum Item {
    Arg(usize),
    Span,
    SpanStr,
    Dollar,
    Param,
}

fn parse_template(t: &str) -> Vec<(String, usize, String, Vec<Item>)> {
    let mut m = Vec::new();
    for ent in t.split(';').filter(|e| !e.is_empty()) {
        let (p, rest) = ent.split_once('=').unwrap();
        let (rule, alt) = p.split_once('.').unwrap();
        let (lab, items) = rest.split_once(':').unwrap();
        let items = items
            .split(',')
            .filter(|i| !i.is_empty())
            .map(|i| match &i[..1] {
                "A" => Item::Arg(i[1..].parse().unwrap()),
                "S" => Item::Span,
                "X" => Item::SpanStr,
                "D" => Item::Dollar,
                "P" => Item::Param,
                _ => panic!("item"),
            })
            .collect();
        m.push((unhex(rule), alt.parse().unwrap(), unhex(lab), items));
    }
    m
}

/// production index of the `alt`-th alternative of rule `name`
fn resolve_template(grm: &YaccGrammar<u32>, t: &[(String, usize, String, Vec<Item>)]) -> HashMap<usize, (String, Vec<Item>)> {
    let mut m = HashMap::new();
    for (rule, alt, lab, items) in t {
        if let Some(ridx) = grm.rule_idx(rule) {
            if let Some(pidx) = grm.rule_to_prods(ridx).get(*alt) {
                m.insert(usize::from(*pidx), (lab.clone(), items.clone()));
            }
        }
    }
    m
}

/// action values at run time: (id of the reduction, rule of the reduction, rendered value)
type AV = (usize, u32, String);
type AFn<'a, 'b, 'input> = dyn Fn(RIdx<u32>, &'b dyn NonStreamingLexer<'input, LT>, Span, std::vec::Drain<AStackType<Lx, AV>>, u64) -> AV + 'a;

/// parse_actions with one hand-written closure per production that (a) computes the value the
/// self-describing generated action must compute and (b) logs the reduction (production, span,
/// drained stack entries) for the Coq model of the wrapper to re-evaluate.
fn run_actions<'b, 'input: 'b>(
    grm: &YaccGrammar<u32>,
    pb: &RTParserBuilder<u32, LT>,
    lexer: &'b dyn NonStreamingLexer<'input, LT>,
    tpl: &HashMap<usize, (String, Vec<Item>)>,
    param: u64,
) -> (Option<String>, Vec<lrpar::LexParseError<u32, LT>>, String) {
    let log: std::cell::RefCell<Vec<String>> = std::cell::RefCell::new(Vec::new());
    let logr = &log;
    let mut boxed: Vec<Box<AFn<'_, 'b, 'input>>> = Vec::new();
    for pidx in grm.iter_pidxs() {
        let p = usize::from(pidx);
        let syms: Vec<Symbol<u32>> = grm.prod(pidx).to_vec();
        let ent = tpl.get(&p).cloned();
        boxed.push(Box::new(move |ridx, lexer, span, args, param| {
            use lrpar::Lexeme;
            let drained: Vec<AStackType<Lx, AV>> = args.collect();
            let mut entry = format!("{}@{}-{}:", p, span.start(), span.end());
            entry.push_str(
                &drained
                    .iter()
                    .map(|a| match a {
                        AStackType::Lexeme(l) => format!("L{}.{}.{}.{}", l.tok_id(), l.span().start(), l.span().len(), if l.faulty() { 1 } else { 0 }),
                        AStackType::ActionType((id, r, _)) => format!("V{}.{}", r, id),
                    })
                    .collect::<Vec<_>>()
                    .join(","),
            );
            // the run-time meaning of the generated wrapper + action: the i-th drained
            // element is the value of the production's i-th symbol
            let vals: Vec<String> = drained
                .into_iter()
                .zip(syms.iter())
                .map(|(a, sy)| match (a, sy) {
                    (AStackType::Lexeme(l), Symbol::Token(_)) => {
                        let r = if l.faulty() { Err(l) } else { Ok(l) };
                        gv::t(lexer, &r)
                    }
                    (AStackType::ActionType((_, _, s)), Symbol::Rule(_)) => s,
                    _ => "KINDMISMATCH".to_string(),
                })
                .collect();
            let v = match &ent {
                None => vals.first().cloned().unwrap_or_default(),
                Some((label, items)) => {
                    let its: Vec<String> = items
                        .iter()
                        .map(|it| match it {
                            Item::Arg(k) => {
                                if *k >= 1 { vals.get(k - 1).cloned().unwrap_or_else(|| "NOARG".to_string()) } else { "NOARG".to_string() }
                            }
                            Item::Span => gv::s(span),
                            Item::SpanStr => gv::x(lexer, span),
                            Item::Dollar => "$".to_string(),
                            Item::Param => format!("{}", param),
                        })
                        .collect();
                    gv::node(label, &its)
                }
            };
            let mut lg = logr.borrow_mut();
            let id = lg.len();
            lg.push(entry);
            (id, u32::from(ridx), v)
        }));
    }
    let refs: Vec<&AFn<'_, 'b, 'input>> = boxed.iter().map(|b| &**b).collect();
    let (v, es) = pb.parse_actions(lexer, &refs, param);
    let lg = log.borrow();
    let red = format!(
        "RED {} {}",
        if lg.is_empty() { "-".to_string() } else { lg.join(";") },
        v.as_ref().map(|x| x.0.to_string()).unwrap_or_else(|| "-".to_string())
    );
    (v.map(|x| x.2), es, red)
}

fn mode_rt(line: &str) -> String {
    let mut secs = line.split(" # ");
    let head: Vec<&str> = secs.next().unwrap().split_whitespace().collect();
    let inputs: Vec<String> = secs.map(|s| unhex(s.trim())).collect();
    let ysrc = std::fs::read_to_string(unhex(head[1])).unwrap();
    let lsrc = std::fs::read_to_string(unhex(head[2])).unwrap();
    let opts = &head[3..];
    let kind = kv(opts, "yk").unwrap().to_string();
    let rec = kv(opts, "rec").unwrap_or("C").to_string();
    let par: u64 = kv(opts, "par").and_then(|p| p.parse().ok()).unwrap_or(0);
    let tpl0 = parse_template(&unhex(kv(opts, "tpl").unwrap_or("")));
    let r = catch(move || -> Result<String, String> {
        let grm = YaccGrammar::<u32>::new_with_storaget(yk(&kind), &ysrc)
            .map_err(|e| format!("grammar: {}", e.iter().map(|x| format!("{}", x)).collect::<Vec<_>>().join("; ")))?;
        let (_sg, st) = from_yacc(&grm, Minimiser::Pager).map_err(|e| format!("table: {}", e))?;
        let tpl = resolve_template(&grm, &tpl0);
        let mut ld = LRNonStreamingLexerDef::<LT>::from_str(&lsrc)
            .map_err(|e| format!("lexer: {}", e.iter().map(|x| format!("{}", x)).collect::<Vec<_>>().join("; ")))?;
        let map: HashMap<&str, u32> = grm.tokens_map().iter().map(|(n, t)| (*n, u32::from(*t))).collect();
        let (mfl, mfp) = ld.set_rule_ids(&map);
        let mut out = String::from("OK EPP ");
        out.push_str(
            &grm.iter_tidxs()
                .map(|t| format!("{}={}", usize::from(t), grm.token_epp(t).map(|s| hex(s)).unwrap_or_else(|| "-".to_string())))
                .collect::<Vec<_>>()
                .join(","),
        );
        out.push_str(" RULES ");
        out.push_str(
            &grm.iter_rules()
                .filter(|r| !grm.rule_to_prods(*r).contains(&grm.start_prod()))
                .map(|r| format!("{}={}", hex(grm.rule_name_str(r)), usize::from(r)))
                .collect::<Vec<_>>()
                .join(","),
        );
        let mut toks: Vec<(String, usize)> = grm.tokens_map().iter().map(|(n, t)| (n.to_string(), usize::from(*t))).collect();
        toks.sort();
        out.push_str(" TOKS ");
        out.push_str(&toks.iter().map(|(n, t)| format!("{}={}", hex(n), t)).collect::<Vec<_>>().join(","));
        out.push_str(" PRODS ");
        out.push_str(
            &grm.iter_pidxs()
                .map(|p| {
                    let syms = grm.prod(p);
                    if syms.is_empty() {
                        "e".to_string()
                    } else {
                        syms.iter()
                            .map(|s| match s {
                                Symbol::Token(t) => (2 * usize::from(*t)).to_string(),
                                Symbol::Rule(r) => (2 * usize::from(*r) + 1).to_string(),
                            })
                            .collect::<Vec<_>>()
                            .join(",")
                    }
                })
                .collect::<Vec<_>>()
                .join(";"),
        );
        out.push_str(" PMAP ");
        out.push_str(
            &grm.iter_rules()
                .flat_map(|r| {
                    let name = hex(grm.rule_name_str(r));
                    grm.rule_to_prods(r).iter().enumerate().map(move |(i, p)| format!("{}={}.{}", usize::from(*p), name, i)).collect::<Vec<_>>()
                })
                .collect::<Vec<_>>()
                .join(","),
        );
        write!(out, " MISSING {} {}", mfl.map(|s| s.len()).unwrap_or(0), mfp.map(|s| s.len()).unwrap_or(0)).unwrap();
        let rk = if rec == "N" { RecoveryKind::None } else { RecoveryKind::CPCTPlus };
        let pb = RTParserBuilder::<u32, LT>::new(&grm, &st).recoverer(rk);
        for inp in &inputs {
            let lexer = ld.lexer(inp);
            out.push_str(" ## ");
            out.push_str(&gv::lexemes(&lexer));
            if kind == "O" {
                let (v, es) = pb.parse_map(&lexer, &|lexeme| Node::Term { lexeme }, &|ridx, nodes| Node::Nonterm { ridx, nodes });
                write!(out, " | {} | {}", gv::val_tree(&v), gv::errs(&es)).unwrap();
            } else {
                let (v, es, red) = run_actions(&grm, &pb, &lexer, &tpl, par);
                write!(out, " | {} | {} | {}", gv::val_string(&v), gv::errs(&es), red).unwrap();
            }
        }
        Ok(out)
    });
    match r {
        Err(p) => format!("PANIC {}", hex(&p)),
        Ok(Err(m)) => format!("ERR {}", hex(&m)),
        Ok(Ok(s)) => s,
    }
}

fn main() {
    gvh::quiet_panics();
    for_each_case(|line| {
        let fields: Vec<&str> = line.split_whitespace().collect();
        match fields[0] {
            "subst" => mode_subst(&fields[1..]),
            "gen" => mode_gen(&fields[1..]),
            "lexgen" => mode_lexgen(&fields[1..]),
            "rt" => mode_rt(line),
            _ => "BADMODE".to_string(),
        }
    });
}
