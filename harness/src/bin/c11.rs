//! C11: what `LRNonStreamingLexerDef::from_str` / `new_with_options` make of a `.l` text.
//!
//! case line: space separated `key=value` tokens (text fields hex, `-` = empty text / none)
//!   src=<hex>          the .l text (required)
//!   opt=<flags>        build with `new_with_options(src, flags)` instead of `from_str(src)`
//!   f=<flags>          flags the generator says are in force (documented defaults are applied to
//!                      the unspecified ones) — used for the oracle regexes / reference lexer only
//!   w=<hex>;<hex>;…    per rule (source order): the regex the generator MEANT (regex-crate syntax,
//!                      lex escapes resolved by the generator's own definition); `-` = do not compare
//!   wn=<n>;<n>;…       per rule: 1 = named rule, 0 = skip rule (reference lexer)
//!   b=<hex>;<hex>;…    battery strings for the regex-equivalence oracle
//!   in=<hex>;<hex>;…   inputs to lex with the built definition (and with the reference lexer)
//!   lim=1              also report the numeric flags of the %grmtools section (LIM section)
//!   nl=<n|d>           (with w=) also report, per written regex, whether the regex crate ON ITS OWN builds it under f= with
//!                      nest_limit n (d = the crate's default): NL section — the reference for "the limit in force is the one written"
//!   lf=<s|->:<d|->     (with w=, own case kind: only the LFI / LFR / LFX sections are printed) the limits on the COMPILED regex: the definition is
//!                      built from src= (its %grmtools section, or opt= with `size:<n>` / `dfa:<n>`), and every written regex w[k] is, independently,
//!                      compiled by the regex crate in the wrapper `\A(?:..)` under f= with size_limit(s) if s is given and dfa_size_limit(d) if d is given
//!   flags = comma list of `<name>:<0|1>` with names dnl ml oct pe awc ci sg iw uni (and `nest:<n>` = nest_limit), or `-`
//!
//! result line: sections joined by ` | `
//!   HDR <pos> <flags>            what the public header parser + `LexFlags::try_from` say (`HDR E` on error,
//!                                `HDR <pos> E` on a conversion error, `HDR P` on a panic)
//!   LIM nest:<v|-> size:<v|-> dfa:<v|->    (with lim=1) the numeric flags `LexFlags::try_from` yields for the parsed section, or
//!   LIM E <kind> { <s> <e> }*                the conversion error with its locations
//!   NL { <k>:<0|1>:<0|1>:<0|1> }*           (with nl=) regex crate alone: does RegexBuilder::new(w[k]) + flags f= build with
//!                                           nest_limit n : with n-1 : with n-2 (0 when negative; d = the default, then 249, 248)
//!   OK <nrules> <nstates> { ; r <namehex|-> <s> <e> x<re_str hex> <id,id..|-> <-|id:op> }* { ; s <id> x<namehex> <0|1> <s> <e> }*
//!   ERRS <n> { ; X <kind> <nspans> {<s> <e>}* }*
//!   PANIC <msg>
//!   SEL { r<k>=x<hex of src[name_span]>|! }* { s<id>=x<hex>|! }* { e<k>.<j>=x<hex>|! }*      (`!` = span does not index src)
//!   WC { <k>:<0|1> }*          (after ERRS, when w= is given) whether the regex crate compiles the k-th written regex under f=
//!   RX { <k>:<neq>:<ndiff>[:x<first differing battery string>:<impl>:<written>] | <k>:IMPLERR | <k>:WRITTENERR }*
//!   LX { x<input>=<tok>:<start>:<len>,… [E<start>] }*      lexemes of the implementation
//!   RL { x<input>=… }*                                     lexemes of the reference lexer (from w=, wn=, f=)
//!   LFI built | LFI E { <kind>:<span start>:<n|-> }* | LFI PANIC      (with lf=) the definition: built, or its errors (n = payload of
//!                                                                     RegexError(CompiledTooBig(n)))
//!   LFR { <k>:built:<u> | <k>:toobig:<n>:<u> | <k>:err }*             (with lf=) the regex crate alone on the k-th written regex under the limits given;
//!                                                                     u = 1 / 0: the compiled program is / is not within d bytes (it builds with size_limit(d)), - = no d
//!   LFX { x<input>=<impl lexemes>/<reference lexemes> }*              (with lf= and in=, when both built) lexemes as in LX / RL
//!   ANCH ok | ANCH { x<input>:<tok>:<start>:<len> }*       (with in=) emitted lexemes whose text is NOT what a rule of that token id
//!                                                          matches when its re_str — compiled on its own under f=, not spliced into a
//!                                                          wrapper — is searched in the remaining input: the match must exist, start
//!                                                          at offset 0 and have the lexeme's length
use cfgrammar::header::GrmtoolsSectionParser;
use cfgrammar::Spanned;
use gvh::common::*;
use gvh::util::*;
use lrlex::{
    DefaultLexerTypes, LRNonStreamingLexerDef, LexFlags, LexerDef, StartStateOperation, UNSPECIFIED_LEX_FLAGS,
};
use lrpar::{Lexeme, Lexer};
use regex::{Regex, RegexBuilder};
use std::fmt::Write;

type Def = LRNonStreamingLexerDef<DefaultLexerTypes<u32>>;

fn uh(s: &str) -> String {
    if s == "-" {
        String::new()
    } else {
        unhex(s)
    }
}

fn list(s: &str) -> Vec<String> {
    if s.is_empty() {
        vec![]
    } else {
        s.split(';').map(|x| x.to_string()).collect()
    }
}

fn parse_flags(s: &str) -> LexFlags {
    let mut f = UNSPECIFIED_LEX_FLAGS;
    if s == "-" || s.is_empty() {
        return f;
    }
    for kv in s.split(',') {
        let (k, v) = kv.split_once(':').expect("flag k:v");
        if k == "nest" {
            // the numeric flag nest_limit (the others are booleans)
            f.nest_limit = Some(v.parse().expect("nest:<u32>"));
            continue;
        }
        if k == "size" {
            f.size_limit = Some(v.parse().expect("size:<usize>"));
            continue;
        }
        if k == "dfa" {
            f.dfa_size_limit = Some(v.parse().expect("dfa:<usize>"));
            continue;
        }
        let v = Some(v == "1");
        match k {
            "dnl" => f.dot_matches_new_line = v,
            "ml" => f.multi_line = v,
            "oct" => f.octal = v,
            "pe" => f.posix_escapes = v,
            "awc" => f.allow_wholeline_comments = v,
            "ci" => f.case_insensitive = v,
            "sg" => f.swap_greed = v,
            "iw" => f.ignore_whitespace = v,
            "uni" => f.unicode = v,
            _ => panic!("unknown flag {}", k),
        }
    }
    f
}

fn show_flags(f: &LexFlags) -> String {
    let mut v = vec![];
    let mut p = |n: &str, x: Option<bool>| {
        if let Some(b) = x {
            v.push(format!("{}:{}", n, b as u8))
        }
    };
    p("dnl", f.dot_matches_new_line);
    p("ml", f.multi_line);
    p("oct", f.octal);
    p("pe", f.posix_escapes);
    p("awc", f.allow_wholeline_comments);
    p("ci", f.case_insensitive);
    p("sg", f.swap_greed);
    p("iw", f.ignore_whitespace);
    p("uni", f.unicode);
    if f.size_limit.is_some() || f.dfa_size_limit.is_some() || f.nest_limit.is_some() {
        v.push("lim:1".to_string());
    }
    if v.is_empty() {
        "-".to_string()
    } else {
        v.join(",")
    }
}

/// `re` compiled under flags `f`, exactly as given (`anchored` = spliced into `\A(?:..)`).
fn build(re: &str, f: &LexFlags, anchored: bool) -> Result<Regex, regex::Error> {
    build_nl(re, f, anchored, None)
}

/// ... with the nest limit `nl` (None = the regex crate's default) applied to exactly the text that is compiled.
fn build_nl(re: &str, f: &LexFlags, anchored: bool, nl: Option<u32>) -> Result<Regex, regex::Error> {
    let mut b = if anchored { RegexBuilder::new(&format!("\\A(?:{})", re)) } else { RegexBuilder::new(re) };
    if let Some(n) = nl {
        b.nest_limit(n);
    }
    b.octal(f.octal.unwrap_or(true))
        .multi_line(f.multi_line.unwrap_or(true))
        .dot_matches_new_line(f.dot_matches_new_line.unwrap_or(true));
    if let Some(x) = f.ignore_whitespace {
        b.ignore_whitespace(x);
    }
    if let Some(x) = f.unicode {
        b.unicode(x);
    }
    if let Some(x) = f.case_insensitive {
        b.case_insensitive(x);
    }
    if let Some(x) = f.swap_greed {
        b.swap_greed(x);
    }
    b.build()
}

/// `re` in the wrapper of `Rule::new`, compiled under flags `f` with the limits on the compiled program exactly as given:
/// `size_limit(s)` if s is given, `dfa_size_limit(d)` if d is given (the regex crate's defaults otherwise).
fn build_limits(re: &str, f: &LexFlags, s: Option<usize>, d: Option<usize>) -> Result<Regex, regex::Error> {
    let mut b = RegexBuilder::new(&format!("\\A(?:{})", re));
    b.nest_limit(252)
        .octal(f.octal.unwrap_or(true))
        .multi_line(f.multi_line.unwrap_or(true))
        .dot_matches_new_line(f.dot_matches_new_line.unwrap_or(true));
    if let Some(x) = f.ignore_whitespace {
        b.ignore_whitespace(x);
    }
    if let Some(x) = f.unicode {
        b.unicode(x);
    }
    if let Some(x) = f.case_insensitive {
        b.case_insensitive(x);
    }
    if let Some(x) = f.swap_greed {
        b.swap_greed(x);
    }
    if let Some(x) = s {
        b.size_limit(x);
    }
    if let Some(x) = d {
        b.dfa_size_limit(x);
    }
    b.build()
}

/// the `lf=` case kind: limits in force on the compiled regexes
fn run_lf(src: &str, opt: Option<LexFlags>, force: &LexFlags, w: &[String], wn: &[String], inputs: &[String], s: Option<usize>, d: Option<usize>) -> String {
    let mut o = String::new();
    let (s2, o2) = (src.to_string(), opt.clone());
    let res = catch(std::panic::AssertUnwindSafe(move || match o2 {
        Some(f) => Def::new_with_options(&s2, f),
        None => Def::from_str(&s2),
    }));
    let def = match res {
        Err(_) => {
            o.push_str("LFI PANIC");
            None
        }
        Ok(Err(errs)) => {
            o.push_str("LFI E");
            for e in errs.iter() {
                let dbg = format!("{:?}", e);
                let n = dbg
                    .find("CompiledTooBig(")
                    .map(|i| dbg[i + 15..].chars().take_while(|c| c.is_ascii_digit()).collect::<String>())
                    .filter(|x| !x.is_empty())
                    .unwrap_or("-".to_string());
                write!(o, " {}:{}:{}", debug_kind(e), e.spans().first().map(|sp| sp.start() as i64).unwrap_or(-1), n).unwrap();
            }
            None
        }
        Ok(Ok(d)) => {
            o.push_str("LFI built");
            Some(d)
        }
    };
    o.push_str(" | LFR");
    let mut refs = vec![];
    for (k, x) in w.iter().enumerate() {
        // u: is the compiled program within d bytes (does it build with size_limit(d) and nothing else)?  `-` when d is not given
        let under = match d {
            Some(d) => (build_limits(&uh(x), force, Some(d), None).is_ok() as u8).to_string(),
            None => "-".to_string(),
        };
        match build_limits(&uh(x), force, s, d) {
            Ok(r) => {
                write!(o, " {}:built:{}", k, under).unwrap();
                refs.push(Some(r));
            }
            Err(regex::Error::CompiledTooBig(n)) => {
                write!(o, " {}:toobig:{}:{}", k, n, under).unwrap();
                refs.push(None);
            }
            Err(_) => {
                write!(o, " {}:err", k).unwrap();
                refs.push(None);
            }
        }
    }
    if let (Some(def), true) = (def, refs.iter().all(|r| r.is_some()) && !inputs.is_empty()) {
        o.push_str(" | LFX");
        for t in inputs {
            write!(o, " x{}=", hex(t)).unwrap();
            let mut parts = vec![];
            for l in def.lexer(t).iter() {
                match l {
                    Ok(l) => parts.push(format!("{}:{}:{}", l.tok_id(), l.span().start(), l.span().len())),
                    Err(e) => parts.push(format!("E{}", lrpar::LexError::span(&e).start())),
                }
            }
            o.push_str(&parts.join(","));
            o.push('/');
            // the reference lexer: longest match over the rules, the first rule on a tie; token ids count the named rules in source order
            let ids: Vec<Option<usize>> = (0..refs.len())
                .map(|k| if wn.get(k).map(|x| x == "1").unwrap_or(true) { Some((0..k).filter(|j| wn.get(*j).map(|x| x == "1").unwrap_or(true)).count()) } else { None })
                .collect();
            let mut parts = vec![];
            let mut i = 0;
            while i < t.len() {
                let (mut longest, mut ridx) = (0, 0);
                for (k, r) in refs.iter().enumerate() {
                    if let Some(m) = r.as_ref().unwrap().find(&t[i..]) {
                        if m.end() > longest {
                            longest = m.end();
                            ridx = k;
                        }
                    }
                }
                if longest == 0 {
                    parts.push(format!("E{}", i));
                    break;
                }
                if let Some(id) = ids[ridx] {
                    parts.push(format!("{}:{}:{}", id, i, longest));
                }
                i += longest;
            }
            o.push_str(&parts.join(","));
        }
    }
    o
}

/// The regex a rule with text `re` is documented to be under flags `f`
/// (documented defaults: dot_matches_new_line, multi_line, octal = true): `re` must be a regular
/// expression on its own; it is then anchored at the start of the remaining input.
fn compile(re: &str, f: &LexFlags) -> Result<Regex, regex::Error> {
    build(re, f, false)?;
    build(re, f, true)
}

fn sel(src: &str, s: usize, e: usize) -> String {
    if s <= e && e <= src.len() && src.is_char_boundary(s) && src.is_char_boundary(e) {
        format!("x{}", hex(&src[s..e]))
    } else {
        "!".to_string()
    }
}

fn debug_kind<T: std::fmt::Debug>(e: &T) -> String {
    let d = format!("{:?}", e);
    let d = match d.find("kind: ") {
        Some(i) => &d[i + 6..],
        None => &d[..],
    };
    let end = d.find(|c: char| !(c.is_ascii_alphanumeric() || c == '_')).unwrap_or(d.len());
    d[..end].to_string()
}

fn op_code(op: &StartStateOperation) -> &'static str {
    match op {
        StartStateOperation::ReplaceStack => "R",
        StartStateOperation::Push => "+",
        StartStateOperation::Pop => "-",
    }
}

fn run(line: &str) -> String {
    let mut src = String::new();
    let mut opt: Option<LexFlags> = None;
    let mut force = UNSPECIFIED_LEX_FLAGS;
    let (mut w, mut wn, mut bat, mut inputs) = (vec![], vec![], vec![], vec![]);
    let mut lim = false;
    let mut nl: Option<Option<u32>> = None;
    let mut lf: Option<(Option<usize>, Option<usize>)> = None;
    for tok in line.split_whitespace() {
        let (k, v) = match tok.split_once('=') {
            Some(x) => x,
            None => return "BADCASE".to_string(),
        };
        match k {
            "src" => src = uh(v),
            "opt" => opt = Some(parse_flags(v)),
            "f" => force = parse_flags(v),
            "w" => w = list(v),
            "wn" => wn = list(v),
            "b" => bat = list(v).iter().map(|x| uh(x)).collect(),
            "in" => inputs = list(v).iter().map(|x| uh(x)).collect(),
            "lim" => lim = v == "1",
            "nl" => nl = Some(if v == "d" { None } else { Some(v.parse().expect("nl=<u32>|d")) }),
            "lf" => {
                let (a, b) = match v.split_once(':') {
                    Some(x) => x,
                    None => return "BADCASE".to_string(),
                };
                let p = |x: &str| if x == "-" { None } else { Some(x.parse::<usize>().expect("lf=<usize|->:<usize|->")) };
                lf = Some((p(a), p(b)));
            }
            _ => return "BADCASE".to_string(),
        }
    }
    if let Some((s, d)) = lf {
        return run_lf(&src, opt, &force, &w, &wn, &inputs, s, d);
    }
    let mut o = String::new();
    // --- what the (public) header parser says: needed as an input of the mirror
    let s2 = src.clone();
    match catch(move || {
        GrmtoolsSectionParser::new(&s2, false).parse().map(|(mut h, pos)| (pos, LexFlags::try_from(&mut h).ok()))
    }) {
        Ok(Ok((pos, Some(f)))) => write!(o, "HDR {} {}", pos, show_flags(&f)).unwrap(),
        Ok(Ok((pos, None))) => write!(o, "HDR {} E", pos).unwrap(),
        Ok(Err(_)) => o.push_str("HDR E"),
        Err(_) => o.push_str("HDR P"),
    }
    if lim {
        let s2 = src.clone();
        match catch(move || {
            GrmtoolsSectionParser::new(&s2, false).parse().map(|(mut h, _)| LexFlags::try_from(&mut h))
        }) {
            Ok(Ok(Ok(f))) => {
                let sh = |x: Option<u128>| x.map(|v| v.to_string()).unwrap_or("-".to_string());
                write!(
                    o,
                    " | LIM nest:{} size:{} dfa:{}",
                    sh(f.nest_limit.map(|v| v as u128)),
                    sh(f.size_limit.map(|v| v as u128)),
                    sh(f.dfa_size_limit.map(|v| v as u128))
                )
                .unwrap()
            }
            Ok(Ok(Err(e))) => {
                write!(o, " | LIM E {}", debug_kind(&e)).unwrap();
                for sp in e.locations.iter() {
                    write!(o, " {} {}", sp.start(), sp.end()).unwrap();
                }
            }
            Ok(Err(_)) => o.push_str(" | LIM HE"),
            Err(_) => o.push_str(" | LIM P"),
        }
    }
    if let Some(n) = nl {
        o.push_str(" | NL");
        for (k, x) in w.iter().enumerate() {
            if x != "-" {
                // under the limit given, under one less and under two less (how large a gap is)
                let v = n.unwrap_or(250);
                let less = |d: u32| v >= d && build_nl(&uh(x), &force, false, Some(v - d)).is_ok();
                write!(o, " {}:{}:{}:{}", k, build_nl(&uh(x), &force, false, n).is_ok() as u8, less(1) as u8, less(2) as u8).unwrap();
            }
        }
    }
    // --- the definition
    let s2 = src.clone();
    let o2 = opt.clone();
    let res = catch(std::panic::AssertUnwindSafe(move || match o2 {
        Some(f) => Def::new_with_options(&s2, f),
        None => Def::from_str(&s2),
    }));
    let def = match res {
        Err(m) => {
            write!(o, " | PANIC {}", m.replace('\n', " ").replace('|', "/")).unwrap();
            return o;
        }
        Ok(Err(errs)) => {
            write!(o, " | ERRS {}", errs.len()).unwrap();
            let mut s = String::new();
            for (k, e) in errs.iter().enumerate() {
                write!(o, " ; X {} {}", debug_kind(e), e.spans().len()).unwrap();
                for (j, sp) in e.spans().iter().enumerate() {
                    write!(o, " {} {}", sp.start(), sp.end()).unwrap();
                    write!(s, " e{}.{}={}", k, j, sel(&src, sp.start(), sp.end())).unwrap();
                }
            }
            write!(o, " | SEL{}", s).unwrap();
            if !w.is_empty() {
                // does the regex crate accept what the generator meant, under the flags in force?
                o.push_str(" | WC");
                for (k, x) in w.iter().enumerate() {
                    if x != "-" {
                        write!(o, " {}:{}", k, compile(&uh(x), &force).is_ok() as u8).unwrap();
                    }
                }
            }
            return o;
        }
        Ok(Ok(d)) => d,
    };
    let nr = def.iter_rules().count();
    write!(o, " | OK {} {}", nr, def.iter_start_states().count()).unwrap();
    let mut s = String::new();
    for (k, r) in def.iter_rules().enumerate() {
        let sp = r.name_span();
        let ss: Vec<String> = r.start_states().iter().map(|x| x.to_string()).collect();
        write!(
            o,
            " ; r {} {} {} x{} {} {}",
            r.name().map(|n| format!("x{}", hex(n))).unwrap_or("-".to_string()),
            sp.start(),
            sp.end(),
            hex(r.re_str()),
            if ss.is_empty() { "-".to_string() } else { ss.join(",") },
            r.target_state().map(|(id, op)| format!("{}:{}", id, op_code(&op))).unwrap_or("-".to_string())
        )
        .unwrap();
        write!(s, " r{}={}", k, sel(&src, sp.start(), sp.end())).unwrap();
    }
    // StartState's fields are observable through its public accessors and its ToTokens/Debug
    // rendering only: id and exclusive come from the derived Debug output.
    for st in def.iter_start_states() {
        let d = format!("{:?}", st);
        let id: usize = d.split("id: ").nth(1).and_then(|x| x.split(',').next()).and_then(|x| x.trim().parse().ok()).unwrap_or(usize::MAX);
        let excl = d.contains("exclusive: true");
        let sp = st.name_span();
        write!(o, " ; s {} x{} {} {} {}", id, hex(st.name()), excl as u8, sp.start(), sp.end()).unwrap();
        write!(s, " s{}={}", id, sel(&src, sp.start(), sp.end())).unwrap();
    }
    write!(o, " | SEL{}", s).unwrap();
    // --- regex equivalence oracle
    if !w.is_empty() {
        o.push_str(" | RX");
        for (k, r) in def.iter_rules().enumerate() {
            if k >= w.len() || w[k] == "-" {
                continue;
            }
            let written = uh(&w[k]);
            let a = match compile(r.re_str(), &force) {
                Ok(a) => a,
                Err(_) => {
                    write!(o, " {}:IMPLERR", k).unwrap();
                    continue;
                }
            };
            let b = match compile(&written, &force) {
                Ok(b) => b,
                Err(_) => {
                    write!(o, " {}:WRITTENERR", k).unwrap();
                    continue;
                }
            };
            let (mut neq, mut ndiff, mut first) = (0, 0, String::new());
            for t in &bat {
                let ma = a.find(t).map(|m| m.end() as i64).unwrap_or(-1);
                let mb = b.find(t).map(|m| m.end() as i64).unwrap_or(-1);
                if ma == mb {
                    neq += 1
                } else {
                    ndiff += 1;
                    if first.is_empty() {
                        first = format!(":x{}:{}:{}", hex(t), ma, mb);
                    }
                }
            }
            write!(o, " {}:{}:{}{}", k, neq, ndiff, first).unwrap();
        }
    }
    // --- lexing behaviour: implementation and reference
    if !inputs.is_empty() {
        o.push_str(" | LX");
        for t in &inputs {
            write!(o, " x{}=", hex(t)).unwrap();
            let lexer = def.lexer(t);
            let mut parts = vec![];
            for l in lexer.iter() {
                match l {
                    Ok(l) => parts.push(format!("{}:{}:{}", l.tok_id(), l.span().start(), l.span().len())),
                    Err(e) => parts.push(format!("E{}", lrpar::LexError::span(&e).start())),
                }
            }
            o.push_str(&parts.join(","));
        }
        // every emitted lexeme is text that one of the rules of its token id matches AT the lexeme's start
        let raw: Vec<(Option<u32>, Option<Regex>)> =
            def.iter_rules().map(|r| (r.tok_id(), build(r.re_str(), &force, false).ok())).collect();
        let mut bad = vec![];
        for t in &inputs {
            let lexer = def.lexer(t);
            for l in lexer.iter().flatten() {
                let (st, len) = (l.span().start(), l.span().len());
                let ok = t.is_char_boundary(st)
                    && raw.iter().any(|(id, re)| {
                        *id == Some(l.tok_id())
                            && re.as_ref().and_then(|re| re.find(&t[st..])).map(|m| m.start() == 0 && m.end() == len).unwrap_or(false)
                    });
                if !ok {
                    bad.push(format!("x{}:{}:{}:{}", hex(t), l.tok_id(), st, len));
                }
            }
        }
        if bad.is_empty() {
            o.push_str(" | ANCH ok");
        } else {
            write!(o, " | ANCH {}", bad.join(" ")).unwrap();
        }
        if !w.is_empty() {
            let res: Vec<Option<Regex>> = w.iter().map(|x| compile(&uh(x), &force).ok()).collect();
            o.push_str(" | RL");
            for t in &inputs {
                write!(o, " x{}=", hex(t)).unwrap();
                let mut parts = vec![];
                let mut i = 0;
                while i < t.len() {
                    let (mut longest, mut ridx) = (0, 0);
                    for (k, r) in res.iter().enumerate() {
                        if let Some(r) = r {
                            if let Some(m) = r.find(&t[i..]) {
                                if m.end() > longest {
                                    longest = m.end();
                                    ridx = k;
                                }
                            }
                        }
                    }
                    if longest == 0 {
                        parts.push(format!("E{}", i));
                        break;
                    }
                    if wn.get(ridx).map(|x| x == "1").unwrap_or(true) {
                        parts.push(format!("{}:{}:{}", ridx, i, longest));
                    }
                    i += longest;
                }
                o.push_str(&parts.join(","));
            }
        }
    }
    o
}

fn main() {
    gvh::quiet_panics();
    for_each_case(|line| match catch(std::panic::AssertUnwindSafe(|| run(line))) {
        Ok(s) => s,
        Err(m) => format!("HARNESSPANIC {}", m.replace('\n', " ")),
    });
}
