//! `gvh lr`: build grammar + table from yacc text, dump them, parse inputs.
//! case:   `<kind> <hexsrc> ; <tok>* ; <tok>* ...`
//! result: `<grammar dump> # <automaton dump> # X… # I <tok>* # O <outcome>` …
//! outcome (recovery off): `acc <tree>` | `rej <k> <st> nerr=<n> val=<0|1>` | `panic <msg>`
use gvh::common::*;
use gvh::util::*;
use lrpar::{LexParseError, Lexeme, RTParserBuilder, RecoveryKind};
use std::fmt::Write;

pub fn conflicts_dump(st: &lrtable::StateTable<u32>) -> String {
    let mut o = String::new();
    match st.conflicts() {
        None => o.push_str("X none"),
        Some(c) => {
            write!(o, "X {} {}", c.sr_len(), c.rr_len()).unwrap();
            let mut sr: Vec<(usize, usize, usize)> = c
                .sr_conflicts()
                .map(|(t, p, s)| (usize::from(*s), usize::from(*t), usize::from(*p)))
                .collect();
            sr.sort();
            for (s, t, p) in sr {
                write!(o, " # XS {} {} {}", s, t, p).unwrap();
            }
            let mut rr: Vec<(usize, usize, usize, usize)> = c
                .rr_conflicts()
                .map(|(t, p1, p2, s)| (usize::from(*s), usize::from(*t), usize::from(*p1), usize::from(*p2)))
                .collect();
            rr.sort();
            for (s, t, p1, p2) in rr {
                write!(o, " # XR {} {} {} {}", s, t, p1, p2).unwrap();
            }
        }
    }
    o
}

pub fn parse_outcome(b: &Built, toks: &[u32], rk: RecoveryKind) -> String {
    let lexer = ReplayLexer::new(toks.to_vec());
    let r = catch(std::panic::AssertUnwindSafe(|| {
        let pb = RTParserBuilder::<u32, LT>::new(&b.grm, &b.st).recoverer(rk);
        pb.parse_map(
            &lexer,
            &|lexeme: Lx| Tree::Term(lexeme.tok_id(), lexeme.span().start(), lexeme.span().len(), lexeme.faulty()),
            &|ridx, nodes| Tree::Nonterm(u32::from(ridx), nodes),
        )
    }));
    match r {
        Err(m) => format!("panic {}", m.replace('\n', " ").replace('#', "")),
        Ok((val, errs)) => {
            let mut o = String::new();
            if errs.is_empty() {
                match val {
                    Some(t) => {
                        o.push_str("acc ");
                        t.pp(&mut o);
                    }
                    None => o.push_str("noval-noerr"),
                }
            } else {
                match &errs[0] {
                    LexParseError::ParseError(e) => {
                        write!(
                            o,
                            "rej {} {} nerr={} val={}",
                            lexeme_index(e.lexeme()),
                            usize::from(e.stidx()),
                            errs.len(),
                            if val.is_some() { 1 } else { 0 }
                        )
                        .unwrap();
                    }
                    LexParseError::LexError(_) => o.push_str("lexerr"),
                }
            }
            o
        }
    }
}

fn main() {
    gvh::quiet_panics();
    let args: Vec<String> = std::env::args().skip(1).collect();
    let rec = args.iter().any(|a| a == "rec");
    for_each_case(move |line| {
        let mut parts = line.split(';');
        let head = parts.next().unwrap();
        let mut hs = head.split_whitespace();
        let kind = hs.next().unwrap().to_string();
        let src = unhex(hs.next().unwrap_or(""));
        let b = match catch(std::panic::AssertUnwindSafe(|| build(&kind, &src))) {
            Err(m) => return format!("BUILDPANIC {}", m.replace('\n', " ")),
            Ok(Err(e)) => return e,
            Ok(Ok(b)) => b,
        };
        let mut o = dump_grammar(&b.grm);
        o.push_str(" # ");
        o.push_str(&dump_automaton(&b.grm, &b.sg, &b.st));
        o.push_str(" # ");
        o.push_str(&conflicts_dump(&b.st));
        for inp in parts {
            // inputs are token NAMES; unknown names make the input unusable (skipped)
            let mut toks: Vec<u32> = Vec::new();
            let mut ok = true;
            for n in inp.split_whitespace() {
                match b.grm.token_idx(n) {
                    Some(t) => toks.push(u32::from(t)),
                    None => ok = false,
                }
            }
            if !ok {
                continue;
            }
            write!(o, " # I").unwrap();
            for t in &toks {
                write!(o, " {}", t).unwrap();
            }
            write!(o, " # O {}", parse_outcome(&b, &toks, RecoveryKind::None)).unwrap();
            if rec {
                let r = parse_outcome(&b, &toks, RecoveryKind::CPCTPlus);
                // with recovery on only the first error position is compared (C04)
                write!(o, " # OR {}", r.split(" nerr").next().unwrap()).unwrap();
            }
        }
        o
    });
}
