//! `gvh lr`: build grammar + table from yacc text, dump them, parse inputs.
//! case:   `<kind> <hexsrc> ; <tok>* ; <tok>* ...`
//! result: `<grammar dump> # <automaton dump> # X… # I <tok>* # O <outcome>` …
//! outcome (recovery off): `acc <tree>` | `rej <k> <st> nerr=<n> val=<0|1>` | `panic <msg>`
//!   `# BO <0|1|2> <0|1|2|3>` (right after `# I`): HOW the recovery-off parser of this input was configured and
//!   run.  First number = the builder's setters: 0 = `.recoverer(None)` only, 1 = `.recoverer(None).term_costs(f)`,
//!   2 = `.term_costs(f).recoverer(None)` (f non-uniform: 1 + tidx % 5, 255 for every 7th token).  Second number =
//!   the entry point: 0 = `parse_map`, 1 = `parse_generictree`, 2 = `parse_actions` (actions building the same
//!   tree), 3 = `parse_noaction` (it returns errors only: when it reports none, the tree printed after `acc` comes from
//!   `parse_map` on an identically configured builder; a rejected input prints val=0).  Both are INPUTS of the harness,
//!   functions of (index of the input within the case line, number of lexemes); the `# O` outcome must not depend
//!   on them (the setters are independent, every entry point runs the same LR loop; the model knows neither).
//!   The `# OR` (CPCT+) parse always uses `.recoverer(CPCTPlus)` + `parse_map`.
use gvh::common::*;
use gvh::util::*;
use cfgrammar::{RIdx, Span};
use lrpar::parser::AStackType;
#[allow(deprecated)]
use lrpar::Node;
use lrpar::{LexParseError, Lexeme, NonStreamingLexer, RTParserBuilder, RecoveryKind};
use std::fmt::Write;

pub fn conflicts_dump(st: &lrtable::StateTable<u32>) -> String {
    let mut o = String::new();
    match st.conflicts() {
        None => o.push_str("X none"),
        Some(c) => {
            write!(o, "X {} {}", c.sr_len(), c.rr_len()).unwrap();
            let mut sr: Vec<(usize, usize, usize)> = c
                .sr_conflicts()
                .map(|(t, p, s)| (usize::from(*s), usize::from(*t), usize::from(*p)))
                .collect();
            sr.sort();
            for (s, t, p) in sr {
                write!(o, " # XS {} {} {}", s, t, p).unwrap();
            }
            let mut rr: Vec<(usize, usize, usize, usize)> = c
                .rr_conflicts()
                .map(|(t, p1, p2, s)| (usize::from(*s), usize::from(*t), usize::from(*p1), usize::from(*p2)))
                .collect();
            rr.sort();
            for (s, t, p1, p2) in rr {
                write!(o, " # XR {} {} {} {}", s, t, p1, p2).unwrap();
            }
        }
    }
    o
}

/// the non-uniform cost function handed to `term_costs` (irrelevant with recovery off: that is the point)
fn odd_costs(t: cfgrammar::TIdx<u32>) -> u8 {
    let t = usize::from(t);
    if t % 7 == 6 { 255 } else { 1 + (t % 5) as u8 }
}

#[allow(deprecated)]
fn node_to_tree(n: Node<Lx, u32>) -> Tree {
    match n {
        Node::Term { lexeme } => mk_term(lexeme),
        Node::Nonterm { ridx, nodes } => Tree::Nonterm(u32::from(ridx), nodes.into_iter().map(node_to_tree).collect()),
    }
}

fn mk_term(lexeme: Lx) -> Tree {
    Tree::Term(lexeme.tok_id(), lexeme.span().start(), lexeme.span().len(), lexeme.faulty())
}

type ActDyn<'b, 'input> =
    dyn Fn(RIdx<u32>, &'b dyn NonStreamingLexer<'input, LT>, Span, std::vec::Drain<AStackType<Lx, Tree>>, ()) -> Tree;

fn tree_action<'b, 'input>(
    ridx: RIdx<u32>,
    _lexer: &'b dyn NonStreamingLexer<'input, LT>,
    _span: Span,
    args: std::vec::Drain<AStackType<Lx, Tree>>,
    _param: (),
) -> Tree {
    Tree::Nonterm(
        u32::from(ridx),
        args.map(|a| match a {
            AStackType::ActionType(t) => t,
            AStackType::Lexeme(l) => mk_term(l),
        })
        .collect(),
    )
}

/// `order`: 0 = `.recoverer(rk)`, 1 = `.recoverer(rk).term_costs(f)`, 2 = `.term_costs(f).recoverer(rk)`;
/// `entry`: 0 parse_map, 1 parse_generictree, 2 parse_actions, 3 parse_noaction (+ parse_map for the tree of an
/// input it reports no error for)
#[allow(deprecated)]
pub fn parse_outcome_cfg(b: &Built, toks: &[u32], rk: RecoveryKind, order: usize, entry: usize) -> String {
    let costs = |t: cfgrammar::TIdx<u32>| odd_costs(t);
    let mk = || {
        let pb = RTParserBuilder::<u32, LT>::new(&b.grm, &b.st);
        match order {
            0 => pb.recoverer(rk),
            1 => pb.recoverer(rk).term_costs(&costs),
            _ => pb.term_costs(&costs).recoverer(rk),
        }
    };
    let via_map = || {
        let lexer = ReplayLexer::new(toks.to_vec());
        mk().parse_map(&lexer, &|lexeme: Lx| mk_term(lexeme), &|ridx, nodes| Tree::Nonterm(u32::from(ridx), nodes))
    };
    let r = catch(std::panic::AssertUnwindSafe(|| match entry {
        0 => via_map(),
        1 => {
            let lexer = ReplayLexer::new(toks.to_vec());
            let (v, errs) = mk().parse_generictree(&lexer);
            (v.map(node_to_tree), errs)
        }
        2 => {
            let lexer = ReplayLexer::new(toks.to_vec());
            let act: &ActDyn = &tree_action;
            let actions: Vec<&ActDyn> = vec![act; usize::from(b.grm.prods_len())];
            let pb = mk();
            let (v, errs) = pb.parse_actions(&lexer, &actions, ());
            (v, errs)
        }
        _ => {
            let lexer = ReplayLexer::new(toks.to_vec());
            let errs = mk().parse_noaction(&lexer);
            if errs.is_empty() {
                // no value to show: the tree comes from parse_map on an identically configured builder
                via_map()
            } else {
                (None, errs)
            }
        }
    }));
    match r {
        Err(m) => format!("panic {}", m.replace('\n', " ").replace('#', "")),
        Ok((val, errs)) => {
            let mut o = String::new();
            if errs.is_empty() {
                match val {
                    Some(t) => {
                        o.push_str("acc ");
                        t.pp(&mut o);
                    }
                    None => o.push_str("noval-noerr"),
                }
            } else {
                match &errs[0] {
                    LexParseError::ParseError(e) => {
                        write!(
                            o,
                            "rej {} {} nerr={} val={}",
                            lexeme_index(e.lexeme()),
                            usize::from(e.stidx()),
                            errs.len(),
                            if val.is_some() { 1 } else { 0 }
                        )
                        .unwrap();
                        // recovery off: a repair sequence attached to the error is an outcome difference
                        if matches!(rk, RecoveryKind::None) && !e.repairs().is_empty() {
                            write!(o, " repairs={}", e.repairs().len()).unwrap();
                        }
                    }
                    LexParseError::LexError(_) => o.push_str("lexerr"),
                }
            }
            o
        }
    }
}

pub fn parse_outcome(b: &Built, toks: &[u32], rk: RecoveryKind) -> String {
    parse_outcome_cfg(b, toks, rk, 0, 0)
}

fn main() {
    gvh::quiet_panics();
    let args: Vec<String> = std::env::args().skip(1).collect();
    let rec = args.iter().any(|a| a == "rec");
    for_each_case(move |line| {
        let mut parts = line.split(';');
        let head = parts.next().unwrap();
        let mut hs = head.split_whitespace();
        let kind = hs.next().unwrap().to_string();
        let src = unhex(hs.next().unwrap_or(""));
        let b = match catch(std::panic::AssertUnwindSafe(|| build(&kind, &src))) {
            Err(m) => return format!("BUILDPANIC {}", m.replace('\n', " ")),
            Ok(Err(e)) => return e,
            Ok(Ok(b)) => b,
        };
        let mut o = dump_grammar(&b.grm);
        o.push_str(" # ");
        o.push_str(&dump_automaton(&b.grm, &b.sg, &b.st));
        o.push_str(" # ");
        o.push_str(&conflicts_dump(&b.st));
        for (idx, inp) in parts.enumerate() {
            // inputs are token NAMES; unknown names make the input unusable (skipped)
            let mut toks: Vec<u32> = Vec::new();
            let mut ok = true;
            for n in inp.split_whitespace() {
                match b.grm.token_idx(n) {
                    Some(t) => toks.push(u32::from(t)),
                    None => ok = false,
                }
            }
            if !ok {
                continue;
            }
            write!(o, " # I").unwrap();
            for t in &toks {
                write!(o, " {}", t).unwrap();
            }
            // builder configuration and entry point of the recovery-off parse: inputs, see the header
            let order = (idx + toks.len()) % 3;
            let entry = (idx / 3 + toks.len()) % 4;
            write!(o, " # BO {} {}", order, entry).unwrap();
            write!(o, " # O {}", parse_outcome_cfg(&b, &toks, RecoveryKind::None, order, entry)).unwrap();
            if rec {
                let r = parse_outcome(&b, &toks, RecoveryKind::CPCTPlus);
                // with recovery on only the first error position is compared (C04)
                write!(o, " # OR {}", r.split(" nerr").next().unwrap()).unwrap();
            }
        }
        o
    });
}
