//! C20: the same grammar / table / parser built with u8, u16 or u32 index storage.
//!
//! case (grammar):  `<kind> <width 8|16|32> <hexsrc> [rec] ; <token names> ; <token names> …`
//! case (lexer):    `L <width 8|16|32> <hexsrc of a .l file>`
//!
//! result (one line), stage by stage, each stage under its own catch_unwind:
//!   `G OK rl=.. pl=.. tl=.. eof=.. sp=.. mpl=.. nr=.. np=.. nt=.. gh=<hash>`
//!        | `G REFUSED <msg>` | `G OTHERPANIC <msg>` | `G ERR <msg>`
//!   ` | T OK ns=.. nst=.. start=.. sr=<#shift/reduce> rr=<#reduce/reduce> unreach=.. rawh=<hash> th=<hash>` | ` | T REFUSED <msg>` | ` | T OTHERPANIC <msg>` | ` | T ERR <msg>`
//!   ` | IT ok <#states>` | ` | IT DIFF st=<raw state> <which iterator> …` | ` | IT PANIC st=<raw state> <which> <msg>`:
//!        the per-state iterators `state_actions` / `state_shifts` / `core_reduces` of EVERY state against the
//!        `action()` cells of that state in THIS width (state_actions = the non-Error cells, state_shifts = the
//!        Shift cells, core_reduces = one production per (rule, length) class of the row's Reduce cells)
//!   ` | P <toks> => <outcome>` per usable input
//!   ` | R <toks> => <outcome>` per usable input, only with the `rec` flag: the same input parsed with
//!        `RecoveryKind::CPCTPlus`: `panic <msg>` | `lexerr` | `val=<tree | tree#hash | -> tm=<ms>` followed by one
//!        ` E <lexeme idx> <canonical state> <applied sequence> <all sequences>` per error; a sequence = steps
//!        `I<tidx>` / `D` / `S` joined by `,` (`-` = empty), all sequences SORTED and joined by `+` (`-` = none)
//! rl/pl/tl/eof/sp are the values REPORTED by rules_len()/prods_len()/tokens_len()/
//! eof_token_idx()/start_prod(); mpl the largest reported prod_len(); nr/np/nt the number of
//! indices handed out by iter_rules/iter_pidxs/iter_tidxs.  gh hashes the complete grammar
//! listing (every rule's name and productions, every production's rule and symbols, every token
//! name), th the complete table listing (every action and goto cell) under a canonical (BFS,
//! symbols sorted) renumbering of the states, rawh the same with the implementation's own state
//! numbers.  GVH_C20_FULL=1 appends the listings themselves.
//! REFUSED = the documented "StorageT is not big enough …" panic (or the lexer's documented try_from message); every other
//! construction panic -- a bare `assertion failed` included -- is OTHERPANIC.
use gvh::common::{hex, unhex, yacckind, Tree};
use gvh::util::*;
use std::fmt::Write;

pub struct Dig {
    h: u64,
    full: Option<String>,
}
impl Dig {
    pub fn new() -> Self {
        Dig { h: 0xcbf29ce484222325, full: if std::env::var("GVH_C20_FULL").is_ok() { Some(String::new()) } else { None } }
    }
    pub fn add(&mut self, s: &str) {
        for b in s.bytes() {
            self.h ^= b as u64;
            self.h = self.h.wrapping_mul(0x100000001b3);
        }
        self.h ^= 0xff;
        self.h = self.h.wrapping_mul(0x100000001b3);
        if let Some(f) = self.full.as_mut() {
            f.push_str(s);
            f.push(',');
        }
    }
    pub fn fin(&self) -> String {
        match &self.full {
            Some(f) => format!("{:016x}[{}]", self.h, f),
            None => format!("{:016x}", self.h),
        }
    }
}

fn clean(m: &str) -> String {
    m.replace('\n', " ").replace('|', "/").replace(';', ",")
}

/// class of a construction panic: REFUSED only for the DOCUMENTED refusals -- grammar.rs / pager.rs / stategraph.rs /
/// statetable.rs "StorageT is not big enough to store …" and the lexer's try_from message.  Anything else, in particular a
/// bare `assertion failed: …` of a constructor (the size asserts StateGraph::new / StateTable::new had before /repo
/// 394c6e3), is OTHERPANIC; checks/C20.py (SIZE_ASSERT_FIXED) decides what an `assertion failed: <size check>` means.
fn refusal(m: &str) -> String {
    if m.contains("not big enough") || m.contains("exceeds the type's maximum value") {
        format!("REFUSED {}", clean(m))
    } else {
        format!("OTHERPANIC {}", clean(m))
    }
}

macro_rules! width_impl {
    ($modname:ident, $T:ty) => {
        mod $modname {
            use super::*;
            use cfgrammar::yacc::YaccGrammar;
            use cfgrammar::{Span, Symbol};
            use lrlex::{DefaultLexeme, DefaultLexerTypes, LRLexError, LRNonStreamingLexerDef, LexerDef};
            use lrpar::{LexParseError, Lexeme, Lexer, NonStreamingLexer, ParseRepair, RTParserBuilder, RecoveryKind};
            use std::collections::{BTreeMap, BTreeSet};
            use lrtable::{from_yacc, Action, Minimiser, StIdx, StateGraph, StateTable};
            use std::collections::VecDeque;

            type T = $T;
            type LT = DefaultLexerTypes<T>;
            type Lx = DefaultLexeme<T>;

            struct Replay {
                toks: Vec<T>,
            }
            impl Lexer<LT> for Replay {
                fn iter<'a>(&'a self) -> Box<dyn Iterator<Item = Result<Lx, LRLexError>> + 'a> {
                    Box::new(self.toks.iter().enumerate().map(|(i, t)| Ok(Lx::new(*t, 2 * i, 1))))
                }
            }
            impl<'input> NonStreamingLexer<'input, LT> for Replay {
                fn span_str(&self, _span: Span) -> &'input str {
                    ""
                }
                fn span_lines_str(&self, _span: Span) -> &'input str {
                    ""
                }
                fn line_col(&self, span: Span) -> ((usize, usize), (usize, usize)) {
                    ((1, span.start() + 1), (1, span.end() + 1))
                }
            }

            fn sym_code(s: &Symbol<T>) -> usize {
                match s {
                    Symbol::Token(t) => 2 * usize::from(*t),
                    Symbol::Rule(r) => 2 * usize::from(*r) + 1,
                }
            }

            fn grammar_listing(grm: &YaccGrammar<T>) -> String {
                let mut d = Dig::new();
                let (mut nr, mut np, mut nt, mut mpl) = (0usize, 0usize, 0usize, 0usize);
                let mut s = String::new();
                for ridx in grm.iter_rules() {
                    nr += 1;
                    s.clear();
                    write!(s, "R{} {}", usize::from(ridx), hex(grm.rule_name_str(ridx))).unwrap();
                    for p in grm.rule_to_prods(ridx) {
                        write!(s, " {}", usize::from(*p)).unwrap();
                    }
                    d.add(&s);
                }
                for pidx in grm.iter_pidxs() {
                    np += 1;
                    s.clear();
                    let pl = usize::from(grm.prod_len(pidx));
                    mpl = mpl.max(pl);
                    write!(s, "P{} {} {}", usize::from(pidx), usize::from(grm.prod_to_rule(pidx)), pl).unwrap();
                    for sy in grm.prod(pidx) {
                        write!(s, " {}", sym_code(sy)).unwrap();
                    }
                    d.add(&s);
                }
                for tidx in grm.iter_tidxs() {
                    nt += 1;
                    s.clear();
                    match grm.token_name(tidx) {
                        Some(n) => write!(s, "T{} {}", usize::from(tidx), hex(n)).unwrap(),
                        None => write!(s, "T{} -", usize::from(tidx)).unwrap(),
                    }
                    d.add(&s);
                }
                // the implicit rule of Eco grammars, when there is one
                if let Some(r) = grm.implicit_rule() {
                    d.add(&format!("I{}", usize::from(r)));
                }
                format!("mpl={} nr={} np={} nt={} gh={}", mpl, nr, np, nt, d.fin())
            }

            /// canonical renumbering: BFS from the start state, out-edges sorted by symbol code
            fn canon_states(sg: &StateGraph<T>) -> Vec<Option<usize>> {
                let n = sg.iter_stidxs().count();
                let mut num: Vec<Option<usize>> = vec![None; n];
                let mut q = VecDeque::new();
                let st = sg.start_state();
                let mut next = 0usize;
                if usize::from(st) < n {
                    num[usize::from(st)] = Some(next);
                    next += 1;
                    q.push_back(st);
                }
                while let Some(s) = q.pop_front() {
                    let mut es: Vec<(usize, StIdx<T>)> = sg.edges(s).iter().map(|(sy, t)| (sym_code(sy), *t)).collect();
                    es.sort_by_key(|x| x.0);
                    for (_, t) in es {
                        let ti = usize::from(t);
                        if num[ti].is_none() {
                            num[ti] = Some(next);
                            next += 1;
                            q.push_back(t);
                        }
                    }
                }
                num
            }

            fn table_listing(grm: &YaccGrammar<T>, sg: &StateGraph<T>, st: &StateTable<T>, canon: &[Option<usize>]) -> String {
                // order of listing = canonical order
                let mut order: Vec<(usize, StIdx<T>)> = Vec::new();
                let mut unreach = 0usize;
                for s in sg.iter_stidxs() {
                    match canon[usize::from(s)] {
                        Some(c) => order.push((c, s)),
                        None => unreach += 1,
                    }
                }
                order.sort_by_key(|x| x.0);
                let mut dc = Dig::new();
                let mut dr = Dig::new();
                let cn = |t: StIdx<T>| -> String {
                    match canon.get(usize::from(t)) {
                        Some(Some(c)) => format!("{}", c),
                        _ => format!("?{}", usize::from(t)),
                    }
                };
                let mut sc = String::new();
                let mut sr = String::new();
                for (c, s) in order {
                    for tidx in grm.iter_tidxs() {
                        sc.clear();
                        sr.clear();
                        match st.action(s, tidx) {
                            Action::Shift(t) => {
                                write!(sc, "A{} {} S{}", c, usize::from(tidx), cn(t)).unwrap();
                                write!(sr, "A{} {} S{}", usize::from(s), usize::from(tidx), usize::from(t)).unwrap();
                            }
                            Action::Reduce(p) => {
                                write!(sc, "A{} {} R{}", c, usize::from(tidx), usize::from(p)).unwrap();
                                write!(sr, "A{} {} R{}", usize::from(s), usize::from(tidx), usize::from(p)).unwrap();
                            }
                            Action::Accept => {
                                write!(sc, "A{} {} A", c, usize::from(tidx)).unwrap();
                                write!(sr, "A{} {} A", usize::from(s), usize::from(tidx)).unwrap();
                            }
                            Action::Error => continue,
                        }
                        dc.add(&sc);
                        dr.add(&sr);
                    }
                    for ridx in grm.iter_rules() {
                        if let Some(t) = st.goto(s, ridx) {
                            sc.clear();
                            sr.clear();
                            write!(sc, "T{} {} {}", c, usize::from(ridx), cn(t)).unwrap();
                            write!(sr, "T{} {} {}", usize::from(s), usize::from(ridx), usize::from(t)).unwrap();
                            dc.add(&sc);
                            dr.add(&sr);
                        }
                    }
                    // number of closed / core items of the state (isomorphism invariant)
                    sc.clear();
                    write!(sc, "K{} {} {}", c, sg.core_state(s).items.len(), sg.closed_state(s).items.len()).unwrap();
                    dc.add(&sc);
                }
                format!("unreach={} rawh={} th={}", unreach, dr.fin(), dc.fin())
            }

            fn parse_outcome(grm: &YaccGrammar<T>, st: &StateTable<T>, canon: &[Option<usize>], toks: &[T]) -> String {
                let lexer = Replay { toks: toks.to_vec() };
                let r = catch(std::panic::AssertUnwindSafe(|| {
                    let pb = RTParserBuilder::<T, LT>::new(grm, st).recoverer(RecoveryKind::None);
                    pb.parse_map(
                        &lexer,
                        &|lexeme: Lx| Tree::Term(lexeme.tok_id() as u32, lexeme.span().start(), lexeme.span().len(), lexeme.faulty()),
                        &|ridx, nodes| Tree::Nonterm(u32::from(ridx), nodes),
                    )
                }));
                match r {
                    Err(m) => format!("panic {}", clean(&m)),
                    Ok((val, errs)) => {
                        let mut o = String::new();
                        if errs.is_empty() {
                            match val {
                                Some(t) => {
                                    let mut s = String::new();
                                    t.pp(&mut s);
                                    if s.len() > 200 {
                                        let mut d = Dig::new();
                                        d.add(&s);
                                        write!(o, "acc tree#{} len={}", d.fin(), s.len()).unwrap();
                                    } else {
                                        write!(o, "acc {}", s).unwrap();
                                    }
                                }
                                None => o.push_str("noval-noerr"),
                            }
                        } else {
                            match &errs[0] {
                                LexParseError::ParseError(e) => {
                                    let l = e.lexeme();
                                    let s = l.span().start();
                                    let li = if l.span().len() == 0 { (s + 1) / 2 } else { s / 2 };
                                    let cs = match canon.get(usize::from(e.stidx())) {
                                        Some(Some(c)) => format!("{}", c),
                                        _ => format!("?{}", usize::from(e.stidx())),
                                    };
                                    write!(o, "rej {} {} nerr={} val={}", li, cs, errs.len(), if val.is_some() { 1 } else { 0 }).unwrap();
                                }
                                LexParseError::LexError(_) => o.push_str("lexerr"),
                            }
                        }
                        o
                    }
                }
            }

            /// the per-state iterators against the cells, state by state (first disagreement / panic is reported)
            fn iterators_check(grm: &YaccGrammar<T>, sg: &StateGraph<T>, st: &StateTable<T>) -> String {
                let mut n = 0usize;
                for s in sg.iter_stidxs() {
                    n += 1;
                    let mut acts: BTreeSet<usize> = BTreeSet::new();
                    let mut shifts: BTreeSet<usize> = BTreeSet::new();
                    let mut reds: BTreeSet<usize> = BTreeSet::new();
                    let mut classes: BTreeSet<(usize, usize)> = BTreeSet::new();
                    for tidx in grm.iter_tidxs() {
                        match st.action(s, tidx) {
                            Action::Error => (),
                            Action::Shift(_) => {
                                acts.insert(usize::from(tidx));
                                shifts.insert(usize::from(tidx));
                            }
                            Action::Reduce(p) => {
                                acts.insert(usize::from(tidx));
                                reds.insert(usize::from(p));
                                classes.insert((usize::from(grm.prod_to_rule(p)), grm.prod(p).len()));
                            }
                            Action::Accept => {
                                acts.insert(usize::from(tidx));
                            }
                        }
                    }
                    let show = |v: &[usize]| v.iter().map(|x| x.to_string()).collect::<Vec<_>>().join(",");
                    let showset = |v: &BTreeSet<usize>| v.iter().map(|x| x.to_string()).collect::<Vec<_>>().join(",");
                    match catch(std::panic::AssertUnwindSafe(|| st.state_actions(s).map(usize::from).collect::<Vec<usize>>())) {
                        Err(m) => return format!("PANIC st={} state_actions {}", usize::from(s), clean(&m)),
                        Ok(v) => {
                            let set: BTreeSet<usize> = v.iter().copied().collect();
                            if set != acts || set.len() != v.len() {
                                return format!("DIFF st={} state_actions lists [{}] non-Error cells [{}]", usize::from(s), show(&v), showset(&acts));
                            }
                        }
                    }
                    match catch(std::panic::AssertUnwindSafe(|| st.state_shifts(s).map(usize::from).collect::<Vec<usize>>())) {
                        Err(m) => return format!("PANIC st={} state_shifts {}", usize::from(s), clean(&m)),
                        Ok(v) => {
                            let set: BTreeSet<usize> = v.iter().copied().collect();
                            if set != shifts || set.len() != v.len() {
                                return format!("DIFF st={} state_shifts lists [{}] Shift cells [{}]", usize::from(s), show(&v), showset(&shifts));
                            }
                        }
                    }
                    match catch(std::panic::AssertUnwindSafe(|| st.core_reduces(s).map(usize::from).collect::<Vec<usize>>())) {
                        Err(m) => return format!("PANIC st={} core_reduces {}", usize::from(s), clean(&m)),
                        Ok(v) => {
                            let np = usize::from(grm.prods_len());
                            let mut seen: BTreeMap<(usize, usize), usize> = BTreeMap::new();
                            let mut good = true;
                            for p in &v {
                                if *p >= np || !reds.contains(p) {
                                    good = false;
                                    break;
                                }
                                let pi = cfgrammar::PIdx(*p as T);
                                *seen.entry((usize::from(grm.prod_to_rule(pi)), grm.prod(pi).len())).or_insert(0) += 1;
                            }
                            if good {
                                good = seen.values().all(|c| *c == 1) && seen.keys().copied().collect::<BTreeSet<_>>() == classes;
                            }
                            if !good {
                                return format!(
                                    "DIFF st={} core_reduces lists [{}] Reduce cells [{}] (one production per (rule,length) class expected)",
                                    usize::from(s),
                                    show(&v),
                                    showset(&reds)
                                );
                            }
                        }
                    }
                }
                format!("ok {}", n)
            }

            fn seq_str(sq: &[ParseRepair<Lx, T>]) -> String {
                if sq.is_empty() {
                    return "-".to_string();
                }
                sq.iter()
                    .map(|r| match r {
                        ParseRepair::Insert(t) => format!("I{}", usize::from(*t)),
                        ParseRepair::Delete(_) => "D".to_string(),
                        ParseRepair::Shift(_) => "S".to_string(),
                    })
                    .collect::<Vec<_>>()
                    .join(",")
            }

            fn rec_outcome(grm: &YaccGrammar<T>, st: &StateTable<T>, canon: &[Option<usize>], toks: &[T]) -> String {
                let lexer = Replay { toks: toks.to_vec() };
                let t0 = std::time::Instant::now();
                let r = catch(std::panic::AssertUnwindSafe(|| {
                    let pb = RTParserBuilder::<T, LT>::new(grm, st).recoverer(RecoveryKind::CPCTPlus);
                    pb.parse_map(
                        &lexer,
                        &|lexeme: Lx| Tree::Term(lexeme.tok_id() as u32, lexeme.span().start(), lexeme.span().len(), lexeme.faulty()),
                        &|ridx, nodes| Tree::Nonterm(u32::from(ridx), nodes),
                    )
                }));
                let tm = t0.elapsed().as_millis();
                match r {
                    Err(m) => format!("panic {}", clean(&m)),
                    Ok((val, errs)) => {
                        let mut o = String::new();
                        match val {
                            Some(t) => {
                                let mut s = String::new();
                                t.pp(&mut s);
                                let s = s.replace(' ', "_");
                                if s.len() > 200 {
                                    let mut d = Dig::new();
                                    d.add(&s);
                                    write!(o, "val=tree#{}", d.fin()).unwrap();
                                } else {
                                    write!(o, "val={}", s).unwrap();
                                }
                            }
                            None => o.push_str("val=-"),
                        }
                        write!(o, " tm={}", tm).unwrap();
                        for e in &errs {
                            match e {
                                LexParseError::ParseError(e) => {
                                    let l = e.lexeme();
                                    let s = l.span().start();
                                    let li = if l.span().len() == 0 { (s + 1) / 2 } else { s / 2 };
                                    let cs = match canon.get(usize::from(e.stidx())) {
                                        Some(Some(c)) => format!("{}", c),
                                        _ => format!("?{}", usize::from(e.stidx())),
                                    };
                                    let applied = e.repairs().first().map(|x| seq_str(x)).unwrap_or_else(|| "none".to_string());
                                    let mut all: Vec<String> = e.repairs().iter().map(|x| seq_str(x)).collect();
                                    all.sort();
                                    let all = if all.is_empty() {
                                        "-".to_string()
                                    } else if all.len() > 200 {
                                        let mut d = Dig::new();
                                        d.add(&all.join("+"));
                                        format!("set#{}#{}", all.len(), d.fin())
                                    } else {
                                        all.join("+")
                                    };
                                    write!(o, " E {} {} {} {}", li, cs, applied, all).unwrap();
                                }
                                LexParseError::LexError(_) => return "lexerr".to_string(),
                            }
                        }
                        o
                    }
                }
            }

            pub fn run(kind: &str, src: &str, inputs: &[&str], rec: bool) -> String {
                let mut o = String::new();
                let g = catch(std::panic::AssertUnwindSafe(|| YaccGrammar::<T>::new_with_storaget(yacckind(kind), src)));
                let grm = match g {
                    Err(m) => return format!("G {}", refusal(&m)),
                    Ok(Err(e)) => {
                        return format!("G ERR {}", clean(&e.iter().map(|x| format!("{}", x)).collect::<Vec<_>>().join(", ")))
                    }
                    Ok(Ok(g)) => g,
                };
                write!(
                    o,
                    "G OK rl={} pl={} tl={} eof={} sp={}",
                    usize::from(grm.rules_len()),
                    usize::from(grm.prods_len()),
                    usize::from(grm.tokens_len()),
                    usize::from(grm.eof_token_idx()),
                    usize::from(grm.start_prod())
                )
                .unwrap();
                match catch(std::panic::AssertUnwindSafe(|| grammar_listing(&grm))) {
                    Ok(l) => write!(o, " {}", l).unwrap(),
                    Err(m) => write!(o, " LISTPANIC {}", clean(&m)).unwrap(),
                }
                let t = catch(std::panic::AssertUnwindSafe(|| from_yacc(&grm, Minimiser::Pager)));
                let (sg, st) = match t {
                    Err(m) => {
                        write!(o, " | T {}", refusal(&m)).unwrap();
                        return o;
                    }
                    Ok(Err(e)) => {
                        write!(o, " | T ERR {}", clean(&format!("{}", e))).unwrap();
                        return o;
                    }
                    Ok(Ok(x)) => x,
                };
                write!(
                    o,
                    " | T OK ns={} nst={} start={}",
                    usize::from(sg.all_states_len()),
                    sg.iter_stidxs().count(),
                    usize::from(st.start_state())
                )
                .unwrap();
                match st.conflicts() {
                    None => write!(o, " sr=0 rr=0").unwrap(),
                    Some(c) => write!(o, " sr={} rr={}", c.sr_len(), c.rr_len()).unwrap(),
                }
                let canon = match catch(std::panic::AssertUnwindSafe(|| canon_states(&sg))) {
                    Ok(c) => c,
                    Err(m) => {
                        write!(o, " CANONPANIC {}", clean(&m)).unwrap();
                        return o;
                    }
                };
                match catch(std::panic::AssertUnwindSafe(|| table_listing(&grm, &sg, &st, &canon))) {
                    Ok(l) => write!(o, " {}", l).unwrap(),
                    Err(m) => write!(o, " LISTPANIC {}", clean(&m)).unwrap(),
                }
                match catch(std::panic::AssertUnwindSafe(|| iterators_check(&grm, &sg, &st))) {
                    Ok(l) => write!(o, " | IT {}", l).unwrap(),
                    Err(m) => write!(o, " | IT PANIC st=? {}", clean(&m)).unwrap(),
                }
                for inp in inputs {
                    let mut toks: Vec<T> = Vec::new();
                    let mut ok = true;
                    for n in inp.split_whitespace() {
                        match grm.token_idx(n) {
                            Some(t) => toks.push(t.as_storaget()),
                            None => ok = false,
                        }
                    }
                    if !ok {
                        continue;
                    }
                    write!(o, " | P").unwrap();
                    if toks.len() <= 8 {
                        for t in &toks {
                            write!(o, " {}", t).unwrap();
                        }
                    } else {
                        write!(o, " n={}", toks.len()).unwrap();
                    }
                    write!(o, " => {}", parse_outcome(&grm, &st, &canon, &toks)).unwrap();
                    if rec {
                        write!(o, " | R").unwrap();
                        if toks.len() <= 8 {
                            for t in &toks {
                                write!(o, " {}", t).unwrap();
                            }
                        } else {
                            write!(o, " n={}", toks.len()).unwrap();
                        }
                        write!(o, " => {}", rec_outcome(&grm, &st, &canon, &toks)).unwrap();
                    }
                }
                o
            }

            pub fn run_lex(src: &str) -> String {
                let r = catch(std::panic::AssertUnwindSafe(|| LRNonStreamingLexerDef::<LT>::from_str(src)));
                let ld = match r {
                    Err(m) => return format!("L {}", refusal(&m)),
                    Ok(Err(e)) => return format!("L ERR {}", clean(&e.iter().map(|x| format!("{}", x)).collect::<Vec<_>>().join(", "))),
                    Ok(Ok(l)) => l,
                };
                let mut d = Dig::new();
                let (mut n, mut maxid, mut in_order) = (0usize, 0usize, true);
                for (i, r) in ld.iter_rules().enumerate() {
                    n += 1;
                    match r.tok_id() {
                        Some(t) => {
                            let t = t as usize;
                            maxid = maxid.max(t);
                            if t != i {
                                in_order = false;
                            }
                            d.add(&format!("{}", t));
                        }
                        None => {
                            in_order = false;
                            d.add("-");
                        }
                    }
                }
                format!("L OK n={} maxid={} ids_are_positions={} lh={}", n, maxid, if in_order { 1 } else { 0 }, d.fin())
            }
        }
    };
}

width_impl!(w8, u8);
width_impl!(w16, u16);
width_impl!(w32, u32);

fn main() {
    gvh::quiet_panics();
    for_each_case(move |line| {
        let mut parts = line.split(';');
        let head = parts.next().unwrap();
        let mut hs = head.split_whitespace();
        let kind = hs.next().unwrap_or("").to_string();
        let width = hs.next().unwrap_or("").to_string();
        let src = unhex(hs.next().unwrap_or(""));
        let rec = hs.next() == Some("rec");
        let inputs: Vec<&str> = parts.collect();
        if kind == "L" {
            return match width.as_str() {
                "8" => w8::run_lex(&src),
                "16" => w16::run_lex(&src),
                "32" => w32::run_lex(&src),
                _ => "BADCASE width".to_string(),
            };
        }
        match width.as_str() {
            "8" => w8::run(&kind, &src, &inputs, rec),
            "16" => w16::run(&kind, &src, &inputs, rec),
            "32" => w32::run(&kind, &src, &inputs, rec),
            _ => "BADCASE width".to_string(),
        }
    });
}
