//! C12: totality of the three specification parsers.
//! case line:  `<which> <hex text>`   (an empty text is written `-`)
//!   which = `H0` / `H1`   %grmtools section parser, required = false / true
//!           `YN` `YG` `YE` (`YO` `YU`)  yacc parser of that kind (ASTWithValidityInfo::new
//!                         + YaccGrammar::new_from_ast_with_validity_info)
//!           `YF`          ASTWithValidityInfo::from_str (kind taken from the %grmtools section)
//!                         + YaccGrammar::new_from_ast_with_validity_info
//!           `ZN` `ZG` `ZE` `ZO` `ZU`  `YaccGrammar::<u32>::new_with_storaget(kind, text)` (= `YaccGrammar::new`), the one-call
//!                         route: text -> grammar; `ZF`: `<YaccGrammar<u32> as FromStr>::from_str(text)`
//!           `L`           LRNonStreamingLexerDef::<DefaultLexerTypes<u32>>::from_str
//!           `LO`          LRNonStreamingLexerDef::new_with_options(text, flags) with flags = allow_wholeline_comments on,
//!                         everything else unspecified.  `new_with_options` unwraps the result of the %grmtools section
//!                         parser (a malformed section is outside what it accepts): such a text is answered `NOTRUN hdr`.
//!           `HS`          as `H0`, but on a thread with an 8 MiB stack (the size of a Linux main
//!                         thread; the harness worker has 256 MiB): probes for native-stack
//!                         exhaustion, which aborts the process (the orchestrator then reports
//!                         `CRASH`)
//! result line:
//!   H: `OK <pos> { E x<keyhex> <s> <e> <val>}*`  |  `ERRS <n> { X <kind> <nspans> {<s> <e>}*}*`
//!      val = `F <0|1> <s> <e>` | `N <hexnum> <s> <e>` | `S x<hex> <s> <e>` | `U <ns>` | `C <ns> <ns>`
//!          | `A <s> <e> <s> <e> <n> <val>*`;  ns = `- x<mem> <s> <e>` | `+ x<ns> <s> <e> x<mem> <s> <e>`
//!   Y/L: `OK` | `ERRS <n> { X <kind> <nspans> {<s> <e>}*}*`
//!   all: `PANIC <msg>`; ` # BADSPAN <what> <s> <e> len=<n>` appended for every span that is not
//!        start <= end <= len on char boundaries; ` # EMPTYERRS` when Err carries no error;
//!        ` # W <n>` number of warnings whose spans were checked (Y only).
//!   (`HANG` is printed by the per-case watchdog of gvh::util::for_each_case.)
use cfgrammar::header::{GrmtoolsSectionParser, HeaderErrorKind, Namespaced, Setting, Value};
use cfgrammar::yacc::{ast::ASTWithValidityInfo, YaccGrammar};
use cfgrammar::{Span, Spanned};
use gvh::common::*;
use gvh::util::*;
use lrlex::{DefaultLexerTypes, LRNonStreamingLexerDef, LexerDef};
use std::fmt::Write;

fn xh(s: &str) -> String {
    format!("x{}", hex(s))
}

fn ns(o: &mut String, n: &Namespaced<Span>, sp: &mut Vec<Span>) {
    match &n.namespace {
        None => write!(o, " - {} {} {}", xh(&n.member.0), n.member.1.start(), n.member.1.end()).unwrap(),
        Some((s, l)) => {
            sp.push(*l);
            write!(o, " + {} {} {} {} {} {}", xh(s), l.start(), l.end(), xh(&n.member.0), n.member.1.start(), n.member.1.end()).unwrap()
        }
    }
    sp.push(n.member.1);
}

fn setting(o: &mut String, s: &Setting<Span>, sp: &mut Vec<Span>) {
    match s {
        Setting::Unitary(n) => {
            o.push_str(" U");
            ns(o, n, sp)
        }
        Setting::Constructor { ctor, arg } => {
            o.push_str(" C");
            ns(o, ctor, sp);
            ns(o, arg, sp)
        }
        Setting::Num(n, l) => {
            sp.push(*l);
            write!(o, " N {:x} {} {}", n, l.start(), l.end()).unwrap()
        }
        Setting::String(s, l) => {
            sp.push(*l);
            write!(o, " S {} {} {}", xh(s), l.start(), l.end()).unwrap()
        }
        Setting::Array(xs, a, b) => {
            sp.push(*a);
            sp.push(*b);
            write!(o, " A {} {} {} {} {}", a.start(), a.end(), b.start(), b.end(), xs.len()).unwrap();
            for x in xs {
                setting(o, x, sp);
            }
        }
    }
}

fn header_kind(k: &HeaderErrorKind) -> String {
    match k {
        HeaderErrorKind::MissingGrmtoolsSection => "Missing".to_string(),
        HeaderErrorKind::IllegalName => "IllegalName".to_string(),
        HeaderErrorKind::ExpectedToken(c) => format!("Expected:{}", *c as u32),
        HeaderErrorKind::UnexpectedToken(c, _) => format!("Unexpected:{}", *c as u32),
        HeaderErrorKind::DuplicateEntry => "Duplicate".to_string(),
        HeaderErrorKind::InvalidEntry(_) => "Invalid".to_string(),
        HeaderErrorKind::ConversionError(_, _) => "Conversion".to_string(),
        _ => "Other".to_string(),
    }
}

/// `kind: Foo(..)` out of a derived Debug rendering `Struct { kind: Foo(..), spans: [...] }`
fn debug_kind<T: std::fmt::Debug>(e: &T) -> String {
    let d = format!("{:?}", e);
    let d = match d.find("kind: ") {
        Some(i) => &d[i + 6..],
        None => &d[..],
    };
    let end = d.find(|c: char| !(c.is_ascii_alphanumeric() || c == '_')).unwrap_or(d.len());
    d[..end].to_string()
}

fn badspans(o: &mut String, what: &str, src: &str, spans: &[Span]) {
    for s in spans {
        let ok = s.start() <= s.end() && s.end() <= src.len() && src.is_char_boundary(s.start()) && src.is_char_boundary(s.end());
        if !ok {
            write!(o, " # BADSPAN {} {} {} len={}", what, s.start(), s.end(), src.len()).unwrap();
        }
    }
}

fn errs_line<E: Spanned>(o: &mut String, src: &str, kinds: Vec<String>, errs: &[E]) {
    write!(o, "ERRS {}", errs.len()).unwrap();
    for (e, k) in errs.iter().zip(kinds) {
        write!(o, " X {} {}", k, e.spans().len()).unwrap();
        for s in e.spans() {
            write!(o, " {} {}", s.start(), s.end()).unwrap();
        }
    }
    if errs.is_empty() {
        o.push_str(" # EMPTYERRS");
    }
    for e in errs {
        if e.spans().is_empty() {
            o.push_str(" # NOSPAN");
        }
        badspans(o, "err", src, e.spans());
    }
}

fn run_header(src: &str, required: bool) -> String {
    let mut o = String::new();
    match GrmtoolsSectionParser::new(src, required).parse() {
        Ok((hdr, pos)) => {
            write!(o, "OK {}", pos).unwrap();
            let mut sp = vec![Span::new(pos, pos)];
            let mut ents: Vec<_> = (&hdr).into_iter().collect();
            ents.sort_by(|a, b| a.0.cmp(b.0));
            for (k, v) in ents {
                sp.push(v.0);
                write!(o, " E {} {} {}", xh(k), v.0.start(), v.0.end()).unwrap();
                match &v.1 {
                    Value::Flag(b, l) => {
                        sp.push(*l);
                        write!(o, " F {} {} {}", *b as u8, l.start(), l.end()).unwrap()
                    }
                    Value::Setting(s) => setting(&mut o, s, &mut sp),
                }
            }
            badspans(&mut o, "val", src, &sp);
        }
        Err(errs) => {
            let kinds = errs.iter().map(|e| header_kind(&e.kind)).collect();
            errs_line(&mut o, src, kinds, &errs);
        }
    }
    o
}

fn run_yacc(src: &str, kind: &str) -> String {
    let mut o = String::new();
    let av = if kind == "F" {
        // the kind is read from the %grmtools section (required there)
        match <ASTWithValidityInfo as std::str::FromStr>::from_str(src) {
            Ok(av) => av,
            Err(errs) => {
                let kinds = errs.iter().map(debug_kind).collect();
                errs_line(&mut o, src, kinds, &errs);
                return o;
            }
        }
    } else {
        ASTWithValidityInfo::new(yacckind(kind), src)
    };
    let warns = av.ast().warnings();
    let res = YaccGrammar::<u32>::new_from_ast_with_validity_info(&av);
    match &res {
        Ok(_) => {
            if !av.is_valid() {
                o.push_str("OK # OKWITHERRS");
            } else {
                o.push_str("OK");
            }
        }
        Err(errs) => {
            let kinds = errs.iter().map(debug_kind).collect();
            errs_line(&mut o, src, kinds, errs);
        }
    }
    // the errors kept by the AST itself (the same list unless grammar construction adds its own)
    for e in av.errors() {
        badspans(&mut o, "asterr", src, e.spans());
    }
    write!(o, " # W {}", warns.len()).unwrap();
    for w in &warns {
        badspans(&mut o, "warn", src, w.spans());
    }
    o
}

/// the one-call routes: text -> YaccGrammar
fn run_yacc_direct(src: &str, kind: &str) -> String {
    let mut o = String::new();
    let res = if kind == "F" {
        <YaccGrammar<u32> as std::str::FromStr>::from_str(src)
    } else {
        YaccGrammar::<u32>::new_with_storaget(yacckind(kind), src)
    };
    match &res {
        Ok(_) => o.push_str("OK"),
        Err(errs) => {
            let kinds = errs.iter().map(debug_kind).collect();
            errs_line(&mut o, src, kinds, errs);
        }
    }
    o
}

fn run_lex(src: &str, with_options: bool) -> String {
    let mut o = String::new();
    if with_options && GrmtoolsSectionParser::new(src, false).parse().is_err() {
        return "NOTRUN hdr".to_string();
    }
    let res = if with_options {
        let mut f = lrlex::UNSPECIFIED_LEX_FLAGS;
        f.allow_wholeline_comments = Some(true);
        LRNonStreamingLexerDef::<DefaultLexerTypes<u32>>::new_with_options(src, f)
    } else {
        LRNonStreamingLexerDef::<DefaultLexerTypes<u32>>::from_str(src)
    };
    match res {
        Ok(_) => o.push_str("OK"),
        Err(errs) => {
            let kinds = errs.iter().map(debug_kind).collect();
            errs_line(&mut o, src, kinds, &errs);
            if o.contains("BADSPAN") {
                // C11 finding: the spans are relative to the text after the %grmtools section;
                // say whether they would be fine relative to that text
                if let Ok(Ok((_, pos))) = catch(|| GrmtoolsSectionParser::new(src, false).parse()) {
                    let rest = &src[pos..];
                    let mut t = String::new();
                    for e in &errs {
                        badspans(&mut t, "rel", rest, e.spans());
                    }
                    write!(o, " # HDRPOS {} {}", pos, if t.is_empty() { "RELOK" } else { "RELBAD" }).unwrap();
                }
            }
        }
    }
    o
}

fn main() {
    gvh::quiet_panics();
    for_each_case(|line| {
        let mut it = line.split_whitespace();
        let which = it.next().unwrap_or("").to_string();
        let h = it.next().unwrap_or("-");
        let src = if h == "-" { String::new() } else { unhex(h) };
        let r = catch(std::panic::AssertUnwindSafe(|| match which.as_str() {
            "H0" => run_header(&src, false),
            "H1" => run_header(&src, true),
            "HS" => {
                let t = src.clone();
                let h = std::thread::Builder::new()
                    .stack_size(8 * 1024 * 1024)
                    .spawn(move || run_header(&t, false))
                    .unwrap();
                match h.join() {
                    Ok(s) => s,
                    Err(_) => "PANIC in 8MiB thread".to_string(),
                }
            }
            "L" => run_lex(&src, false),
            "LO" => run_lex(&src, true),
            w if w.starts_with('Z') => run_yacc_direct(&src, &w[1..]),
            w if w.starts_with('Y') => run_yacc(&src, &w[1..]),
            _ => "BADCASE".to_string(),
        }));
        match r {
            Ok(s) => s,
            Err(m) => format!("PANIC {}", m.replace('\n', " ")),
        }
    });
}
