//! C12: totality of the three specification parsers.
//! case line:  `<which> <hex text>`   (an empty text is written `-`)
//!   which = `H0` / `H1`   %grmtools section parser, required = false / true
//!           `YN` `YG` `YE` (`YO` `YU`)  yacc parser of that kind (ASTWithValidityInfo::new
//!                         + YaccGrammar::new_from_ast_with_validity_info)
//!           `YF`          ASTWithValidityInfo::from_str (kind taken from the %grmtools section)
//!                         + YaccGrammar::new_from_ast_with_validity_info
//!           `ZN` `ZG` `ZE` `ZO` `ZU`  `YaccGrammar::<u32>::new_with_storaget(kind, text)` (= `YaccGrammar::new`), the one-call
//!                         route: text -> grammar; `ZF`: `<YaccGrammar<u32> as FromStr>::from_str(text)`
//!           `L`           LRNonStreamingLexerDef::<DefaultLexerTypes<u32>>::from_str
//!           `LO`          LRNonStreamingLexerDef::new_with_options(text, flags) with flags = allow_wholeline_comments on,
//!                         everything else unspecified.  `new_with_options` unwraps the result of the %grmtools section
//!                         parser (a malformed section is outside what it accepts): such a text is answered `NOTRUN hdr`.
//!           `HS`          as `H0`, but on a thread with an 8 MiB stack (the size of a Linux main
//!                         thread; the harness worker has 256 MiB): probes for native-stack
//!                         exhaustion, which aborts the process (the orchestrator then reports
//!                         `CRASH`)
//! result line:
//!   H: `OK <pos> { E x<keyhex> <s> <e> <val>}*`  |  `ERRS <n> { X <kind> <nspans> {<s> <e>}*}*`
//!      val = `F <0|1> <s> <e>` | `N <hexnum> <s> <e>` | `S x<hex> <s> <e>` | `U <ns>` | `C <ns> <ns>`
//!          | `A <s> <e> <s> <e> <n> <val>*`;  ns = `- x<mem> <s> <e>` | `+ x<ns> <s> <e> x<mem> <s> <e>`
//!   Y/L: `OK` | `ERRS <n> { X <kind> <nspans> {<s> <e>}*}*`
//!   all: `PANIC <msg>`; ` # BADSPAN <what> <s> <e> len=<n>` appended for every span that is not
//!        start <= end <= len on char boundaries; ` # EMPTYERRS` when Err carries no error;
//!        ` # W <n>` number of warnings whose spans were checked (Y only).
//!   rendering ("... so it can always be rendered"): EVERY error and warning a parser returned whose spans passed
//!        the check above is pushed through `lrpar::diagnostics::SpannedDiagnosticFormatter` the way nimbleparse,
//!        CTParserBuilder and CTLexerBuilder print it (`format_error` / `format_warning`, and `file_location_msg`
//!        with its first span), under catch_unwind:
//!        ` # R <tag> <idx> <spanskind E|D|?> <nspans> <start of the first span> <first line number printed by
//!        format_*> <line> <col> (of file_location_msg) <length of the rendering>`  or
//!        ` # RENDERPANIC <tag> <idx> <spanskind> <nspans> <message, blanks as _>`;
//!        ` # RSKIP <tag> <idx>` for a diagnostic without spans or with a malformed span (reported as NOSPAN / BADSPAN:
//!        outside the renderer's domain).
//!        tag: e = error of the parser, w = warning, k/K = error of `YaccKind::try_from` as HeaderError<Span> /
//!        converted to YaccGrammarError, s = SerialisationFormat, l = LexerKind, r = RecoveryKind (locations mapped
//!        back to spans as nimbleparse does), f = LexFlags.
//!   H with an `OK` result: the conversions of the parsed values, applied to EVERY entry of the section
//!        (the conversion is a function of the value, whatever its key), in key order:
//!        ` # YK x<keyhex> OK <G|E|N|U|O>` | ` # YK x<keyhex> ERR <n> {<s> <e>}*`   `YaccKind::try_from(&Value<Span>)`
//!        ` # SF x<keyhex> OK <F|V>` | ` # SF x<keyhex> ERR <n> {<s> <e>}*`        `SerialisationFormat::try_from`
//!        ` # LK …`, ` # RK …` (LexerKind, RecoveryKind: `OK` | `ERR <n> {<s> <e>}*`), ` # LF OK|ERR …` (LexFlags of the
//!        whole section); ` # CONVPANIC <which> <msg>` when a conversion panics, ` # CONVNOLOC <which>` when its error
//!        carries no location or one that is not a span.
//!   (`HANG` is printed by the per-case watchdog of gvh::util::for_each_case.)
use cfgrammar::header::{GrmtoolsSectionParser, HeaderError, HeaderErrorKind, HeaderValue, Namespaced, Setting, Value};
use cfgrammar::yacc::{ast::ASTWithValidityInfo, parser::SpansKind, YaccGrammar, YaccGrammarError, YaccKind, YaccOriginalActionKind};
use cfgrammar::{Location, Span, Spanned};
use lrpar::diagnostics::{DiagnosticFormatter, SpannedDiagnosticFormatter};
use gvh::common::*;
use gvh::util::*;
use lrlex::{DefaultLexerTypes, LRNonStreamingLexerDef, LexerDef};
use std::fmt::Write;

fn xh(s: &str) -> String {
    format!("x{}", hex(s))
}

fn ns(o: &mut String, n: &Namespaced<Span>, sp: &mut Vec<Span>) {
    match &n.namespace {
        None => write!(o, " - {} {} {}", xh(&n.member.0), n.member.1.start(), n.member.1.end()).unwrap(),
        Some((s, l)) => {
            sp.push(*l);
            write!(o, " + {} {} {} {} {} {}", xh(s), l.start(), l.end(), xh(&n.member.0), n.member.1.start(), n.member.1.end()).unwrap()
        }
    }
    sp.push(n.member.1);
}

fn setting(o: &mut String, s: &Setting<Span>, sp: &mut Vec<Span>) {
    match s {
        Setting::Unitary(n) => {
            o.push_str(" U");
            ns(o, n, sp)
        }
        Setting::Constructor { ctor, arg } => {
            o.push_str(" C");
            ns(o, ctor, sp);
            ns(o, arg, sp)
        }
        Setting::Num(n, l) => {
            sp.push(*l);
            write!(o, " N {:x} {} {}", n, l.start(), l.end()).unwrap()
        }
        Setting::String(s, l) => {
            sp.push(*l);
            write!(o, " S {} {} {}", xh(s), l.start(), l.end()).unwrap()
        }
        Setting::Array(xs, a, b) => {
            sp.push(*a);
            sp.push(*b);
            write!(o, " A {} {} {} {} {}", a.start(), a.end(), b.start(), b.end(), xs.len()).unwrap();
            for x in xs {
                setting(o, x, sp);
            }
        }
    }
}

fn header_kind(k: &HeaderErrorKind) -> String {
    match k {
        HeaderErrorKind::MissingGrmtoolsSection => "Missing".to_string(),
        HeaderErrorKind::IllegalName => "IllegalName".to_string(),
        HeaderErrorKind::ExpectedToken(c) => format!("Expected:{}", *c as u32),
        HeaderErrorKind::UnexpectedToken(c, _) => format!("Unexpected:{}", *c as u32),
        HeaderErrorKind::DuplicateEntry => "Duplicate".to_string(),
        HeaderErrorKind::InvalidEntry(_) => "Invalid".to_string(),
        HeaderErrorKind::ConversionError(_, _) => "Conversion".to_string(),
        _ => "Other".to_string(),
    }
}

/// `kind: Foo(..)` out of a derived Debug rendering `Struct { kind: Foo(..), spans: [...] }`
fn debug_kind<T: std::fmt::Debug>(e: &T) -> String {
    let d = format!("{:?}", e);
    let d = match d.find("kind: ") {
        Some(i) => &d[i + 6..],
        None => &d[..],
    };
    let end = d.find(|c: char| !(c.is_ascii_alphanumeric() || c == '_')).unwrap_or(d.len());
    d[..end].to_string()
}

fn badspans(o: &mut String, what: &str, src: &str, spans: &[Span]) {
    for s in spans {
        let ok = s.start() <= s.end() && s.end() <= src.len() && src.is_char_boundary(s.start()) && src.is_char_boundary(s.end());
        if !ok {
            write!(o, " # BADSPAN {} {} {} len={}", what, s.start(), s.end(), src.len()).unwrap();
        }
    }
}

fn span_ok(src: &str, s: &Span) -> bool {
    s.start() <= s.end() && s.end() <= src.len() && src.is_char_boundary(s.start()) && src.is_char_boundary(s.end())
}

fn sk_code(k: SpansKind) -> char {
    match k {
        SpansKind::Error => 'E',
        SpansKind::DuplicationError => 'D',
        #[allow(unreachable_patterns)]
        _ => '?',
    }
}

/// leading decimal number of a rendering (`<line>| <source line>` is its first row); `-` if there is none
fn lead_num(s: &str) -> String {
    let d: String = s.chars().take_while(|c| c.is_ascii_digit()).collect();
    if d.is_empty() || !s[d.len()..].starts_with("| ") {
        "-".to_string()
    } else {
        d
    }
}

/// One ` # R …` / ` # RENDERPANIC …` record: `file_location_msg` with the first span and the rendering
/// produced by `f` (format_error / format_warning), exactly as the tools print a diagnostic.
fn render_with<F: FnOnce(&SpannedDiagnosticFormatter) -> String>(o: &mut String, src: &str, tag: char, idx: usize, sk: SpansKind, spans: &[Span], f: F) {
    if spans.is_empty() || !spans.iter().all(|s| span_ok(src, s)) {
        // reported as NOSPAN / BADSPAN by the span oracle: such a diagnostic is outside the renderer's domain
        write!(o, " # RSKIP {} {}", tag, idx).unwrap();
        return;
    }
    let first = spans[0];
    let path = std::path::PathBuf::from("g.y");
    let r = catch(std::panic::AssertUnwindSafe(|| {
        let diag = SpannedDiagnosticFormatter::new(src, &path);
        let loc = diag.file_location_msg("M", Some(first));
        let text = f(&diag);
        (loc, text)
    }));
    match r {
        Ok((loc, text)) => {
            let mut it = loc.rsplitn(3, ':');
            let col = it.next().unwrap_or("-").to_string();
            let line = it.next().unwrap_or("-").to_string();
            let head_ok = it.next() == Some("M at g.y");
            write!(o, " # R {} {} {} {} {} {} {} {} {}", tag, idx, sk_code(sk), spans.len(), first.start(), lead_num(&text),
                   if head_ok { line } else { "-".to_string() }, col, text.len()).unwrap();
        }
        Err(m) => {
            let m: String = m.chars().take(120).map(|c| if c.is_whitespace() || c == '#' { '_' } else { c }).collect();
            write!(o, " # RENDERPANIC {} {} {} {} {}", tag, idx, sk_code(sk), spans.len(), m).unwrap();
        }
    }
}

fn render_error<E: Spanned + std::error::Error>(o: &mut String, src: &str, tag: char, idx: usize, e: E) {
    let spans = e.spans().to_vec();
    let sk = e.spanskind();
    render_with(o, src, tag, idx, sk, &spans, move |d| d.format_error(e).to_string());
}

fn render_warning<W: Spanned + std::fmt::Display>(o: &mut String, src: &str, tag: char, idx: usize, w: W) {
    let spans = w.spans().to_vec();
    let sk = w.spanskind();
    render_with(o, src, tag, idx, sk, &spans, move |d| d.format_warning(w));
}

fn errs_line<E: Spanned>(o: &mut String, src: &str, kinds: Vec<String>, errs: &[E]) {
    write!(o, "ERRS {}", errs.len()).unwrap();
    for (e, k) in errs.iter().zip(kinds) {
        write!(o, " X {} {}", k, e.spans().len()).unwrap();
        for s in e.spans() {
            write!(o, " {} {}", s.start(), s.end()).unwrap();
        }
    }
    if errs.is_empty() {
        o.push_str(" # EMPTYERRS");
    }
    for e in errs {
        if e.spans().is_empty() {
            o.push_str(" # NOSPAN");
        }
        badspans(o, "err", src, e.spans());
    }
}

fn run_header(src: &str, required: bool) -> String {
    let mut o = String::new();
    match GrmtoolsSectionParser::new(src, required).parse() {
        Ok((hdr, pos)) => {
            write!(o, "OK {}", pos).unwrap();
            let mut sp = vec![Span::new(pos, pos)];
            let mut ents: Vec<_> = (&hdr).into_iter().collect();
            ents.sort_by(|a, b| a.0.cmp(b.0));
            for (k, v) in ents {
                sp.push(v.0);
                write!(o, " E {} {} {}", xh(k), v.0.start(), v.0.end()).unwrap();
                match &v.1 {
                    Value::Flag(b, l) => {
                        sp.push(*l);
                        write!(o, " F {} {} {}", *b as u8, l.start(), l.end()).unwrap()
                    }
                    Value::Setting(s) => setting(&mut o, s, &mut sp),
                }
            }
            badspans(&mut o, "val", src, &sp);
        }
        Err(errs) => {
            let kinds = errs.iter().map(|e| header_kind(&e.kind)).collect();
            errs_line(&mut o, src, kinds, &errs);
            for (i, e) in errs.into_iter().enumerate() {
                render_error(&mut o, src, 'e', i, e);
            }
        }
    }
    if o.starts_with("OK") {
        conversions(&mut o, src);
    }
    o
}

/// ` ERR <n> {<s> <e>}*` of a conversion error + its rendering(s); the locations must be spans of the text
fn conv_err(o: &mut String, src: &str, which: &str, tag: char, idx: usize, e: HeaderError<Span>, also_yacc: bool) {
    write!(o, " ERR {}", e.locations.len()).unwrap();
    for s in &e.locations {
        write!(o, " {} {}", s.start(), s.end()).unwrap();
    }
    if e.locations.is_empty() {
        write!(o, " # CONVNOLOC {}", which).unwrap();
    }
    badspans(o, "conv", src, &e.locations);
    if also_yacc {
        // what ASTWithValidityInfo::from_str / YaccGrammar::from_str return for it
        render_error(o, src, 'K', idx, YaccGrammarError::from(e.clone()));
    }
    render_error(o, src, tag, idx, e);
}

/// nimbleparse's way of printing a HeaderError<Location>: the locations must all be spans
fn loc_err(o: &mut String, which: &str, e: HeaderError<Location>) -> HeaderError<Span> {
    let mut spans = Vec::new();
    for l in &e.locations {
        match l {
            Location::Span(s) => spans.push(*s),
            _ => write!(o, " # CONVNOLOC {}", which).unwrap(),
        }
    }
    HeaderError { kind: e.kind, locations: spans }
}

fn conversions(o: &mut String, src: &str) {
    let parse = || GrmtoolsSectionParser::new(src, false).parse();
    let Ok((hdr, _)) = parse() else { return };
    let mut keys: Vec<String> = hdr.keys().cloned().collect();
    keys.sort();
    for (i, k) in keys.iter().enumerate() {
        let HeaderValue(_, v) = hdr.get(k).unwrap();
        write!(o, " # YK {}", xh(k)).unwrap();
        match catch(std::panic::AssertUnwindSafe(|| YaccKind::try_from(v))) {
            Ok(Ok(yk)) => write!(o, " OK {}", match yk {
                YaccKind::Grmtools => "G",
                YaccKind::Eco => "E",
                YaccKind::Original(YaccOriginalActionKind::NoAction) => "N",
                YaccKind::Original(YaccOriginalActionKind::UserAction) => "U",
                YaccKind::Original(YaccOriginalActionKind::GenericParseTree) => "O",
                #[allow(unreachable_patterns)]
                _ => "?",
            }).unwrap(),
            Ok(Err(e)) => conv_err(o, src, "YaccKind", 'k', i, e, true),
            Err(m) => write!(o, " # CONVPANIC YaccKind {}", m.replace(|c: char| c.is_whitespace() || c == '#', "_")).unwrap(),
        }
        write!(o, " # SF {}", xh(k)).unwrap();
        match catch(std::panic::AssertUnwindSafe(|| lrpar::SerialisationFormat::try_from(v))) {
            Ok(Ok(f)) => write!(o, " OK {}", match f {
                lrpar::SerialisationFormat::FixedSizeInteger => "F",
                lrpar::SerialisationFormat::VariableSizedInteger => "V",
                #[allow(unreachable_patterns)]
                _ => "?",
            }).unwrap(),
            Ok(Err(e)) => conv_err(o, src, "SerialisationFormat", 's', i, e, false),
            Err(m) => write!(o, " # CONVPANIC SerialisationFormat {}", m.replace(|c: char| c.is_whitespace() || c == '#', "_")).unwrap(),
        }
        write!(o, " # LK {}", xh(k)).unwrap();
        match catch(std::panic::AssertUnwindSafe(|| lrlex::LexerKind::try_from(v))) {
            Ok(Ok(_)) => o.push_str(" OK"),
            Ok(Err(e)) => conv_err(o, src, "LexerKind", 'l', i, e, false),
            Err(m) => write!(o, " # CONVPANIC LexerKind {}", m.replace(|c: char| c.is_whitespace() || c == '#', "_")).unwrap(),
        }
    }
    // LexFlags::try_from(&mut Header<Span>) on a copy of the section
    if let Ok((mut h2, _)) = parse() {
        o.push_str(" # LF");
        match catch(std::panic::AssertUnwindSafe(|| lrlex::LexFlags::try_from(&mut h2))) {
            Ok(Ok(_)) => o.push_str(" OK"),
            Ok(Err(e)) => conv_err(o, src, "LexFlags", 'f', 0, e, false),
            Err(m) => write!(o, " # CONVPANIC LexFlags {}", m.replace(|c: char| c.is_whitespace() || c == '#', "_")).unwrap(),
        }
    }
    // RecoveryKind::try_from wants Value<Location> (nimbleparse / CTParserBuilder merge the section into a
    // Header<Location>): owned values out of a further copy
    if let Ok((mut h3, _)) = parse() {
        for (i, k) in keys.iter().enumerate() {
            let Some(hv) = h3.remove(k) else { continue };
            let HeaderValue(_, v): HeaderValue<Location> = hv.into();
            write!(o, " # RK {}", xh(k)).unwrap();
            match catch(std::panic::AssertUnwindSafe(|| lrpar::RecoveryKind::try_from(&v))) {
                Ok(Ok(_)) => o.push_str(" OK"),
                Ok(Err(e)) => {
                    let e = loc_err(o, "RecoveryKind", e);
                    conv_err(o, src, "RecoveryKind", 'r', i, e, false)
                }
                Err(m) => write!(o, " # CONVPANIC RecoveryKind {}", m.replace(|c: char| c.is_whitespace() || c == '#', "_")).unwrap(),
            }
        }
    }
}

fn run_yacc(src: &str, kind: &str) -> String {
    let mut o = String::new();
    let av = if kind == "F" {
        // the kind is read from the %grmtools section (required there)
        match <ASTWithValidityInfo as std::str::FromStr>::from_str(src) {
            Ok(av) => av,
            Err(errs) => {
                let kinds = errs.iter().map(debug_kind).collect();
                errs_line(&mut o, src, kinds, &errs);
                for (i, e) in errs.into_iter().enumerate() {
                    render_error(&mut o, src, 'e', i, e);
                }
                return o;
            }
        }
    } else {
        ASTWithValidityInfo::new(yacckind(kind), src)
    };
    let warns = av.ast().warnings();
    let res = YaccGrammar::<u32>::new_from_ast_with_validity_info(&av);
    match &res {
        Ok(_) => {
            if !av.is_valid() {
                o.push_str("OK # OKWITHERRS");
            } else {
                o.push_str("OK");
            }
        }
        Err(errs) => {
            let kinds = errs.iter().map(debug_kind).collect();
            errs_line(&mut o, src, kinds, errs);
        }
    }
    // the errors kept by the AST itself (the same list unless grammar construction adds its own)
    for e in av.errors() {
        badspans(&mut o, "asterr", src, e.spans());
    }
    write!(o, " # W {}", warns.len()).unwrap();
    for w in &warns {
        badspans(&mut o, "warn", src, w.spans());
    }
    if let Err(errs) = &res {
        for (i, e) in errs.iter().enumerate() {
            render_error(&mut o, src, 'e', i, e.clone());
        }
    }
    for (i, w) in warns.into_iter().enumerate() {
        render_warning(&mut o, src, 'w', i, w);
    }
    o
}

/// the one-call routes: text -> YaccGrammar
fn run_yacc_direct(src: &str, kind: &str) -> String {
    let mut o = String::new();
    let res = if kind == "F" {
        <YaccGrammar<u32> as std::str::FromStr>::from_str(src)
    } else {
        YaccGrammar::<u32>::new_with_storaget(yacckind(kind), src)
    };
    match &res {
        Ok(_) => o.push_str("OK"),
        Err(errs) => {
            let kinds = errs.iter().map(debug_kind).collect();
            errs_line(&mut o, src, kinds, errs);
            for (i, e) in errs.iter().enumerate() {
                render_error(&mut o, src, 'e', i, e.clone());
            }
        }
    }
    o
}

fn run_lex(src: &str, with_options: bool) -> String {
    let mut o = String::new();
    if with_options && GrmtoolsSectionParser::new(src, false).parse().is_err() {
        return "NOTRUN hdr".to_string();
    }
    let res = if with_options {
        let mut f = lrlex::UNSPECIFIED_LEX_FLAGS;
        f.allow_wholeline_comments = Some(true);
        LRNonStreamingLexerDef::<DefaultLexerTypes<u32>>::new_with_options(src, f)
    } else {
        LRNonStreamingLexerDef::<DefaultLexerTypes<u32>>::from_str(src)
    };
    match res {
        Ok(_) => o.push_str("OK"),
        Err(errs) => {
            let kinds = errs.iter().map(debug_kind).collect();
            errs_line(&mut o, src, kinds, &errs);
            if o.contains("BADSPAN") {
                // C11 finding: the spans are relative to the text after the %grmtools section;
                // say whether they would be fine relative to that text
                if let Ok(Ok((_, pos))) = catch(|| GrmtoolsSectionParser::new(src, false).parse()) {
                    let rest = &src[pos..];
                    let mut t = String::new();
                    for e in &errs {
                        badspans(&mut t, "rel", rest, e.spans());
                    }
                    write!(o, " # HDRPOS {} {}", pos, if t.is_empty() { "RELOK" } else { "RELBAD" }).unwrap();
                }
            }
            for (i, e) in errs.into_iter().enumerate() {
                render_error(&mut o, src, 'e', i, e);
            }
        }
    }
    o
}

fn main() {
    gvh::quiet_panics();
    for_each_case(|line| {
        let mut it = line.split_whitespace();
        let which = it.next().unwrap_or("").to_string();
        let h = it.next().unwrap_or("-");
        let src = if h == "-" { String::new() } else { unhex(h) };
        let r = catch(std::panic::AssertUnwindSafe(|| match which.as_str() {
            "H0" => run_header(&src, false),
            "H1" => run_header(&src, true),
            "HS" => {
                let t = src.clone();
                let h = std::thread::Builder::new()
                    .stack_size(8 * 1024 * 1024)
                    .spawn(move || run_header(&t, false))
                    .unwrap();
                match h.join() {
                    Ok(s) => s,
                    Err(_) => "PANIC in 8MiB thread".to_string(),
                }
            }
            "L" => run_lex(&src, false),
            "LO" => run_lex(&src, true),
            w if w.starts_with('Z') => run_yacc_direct(&src, &w[1..]),
            w if w.starts_with('Y') => run_yacc(&src, &w[1..]),
            _ => "BADCASE".to_string(),
        }));
        match r {
            Ok(s) => s,
            Err(m) => format!("PANIC {}", m.replace('\n', " ")),
        }
    });
}
