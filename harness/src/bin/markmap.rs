//! C12 — correspondence harness for cfgrammar::markmap::MarkMap<String, u32> (public API incl. the
//! Entry API).  One case per line: operations separated by " ; ", each `<opcode> <map 0|1> <args…>`
//! (opcodes in the order of the constructors of `op` in coq/theories/C12/MarkMapModel.v).
//! Output: per-operation integer lists joined by " | ", then " # " Debug(map 0) " # " Debug(map 1);
//! a panic ends the case with " | PANIC <msg>".
use cfgrammar::markmap::{Entry, MarkMap, MergeBehavior, MergeError};
use gvh::util::{catch, for_each_case};
use std::cell::RefCell;
use std::panic::AssertUnwindSafe;

type MM = MarkMap<String, u32>;

fn beh(t: &str) -> MergeBehavior {
    match t {
        "1" => MergeBehavior::Theirs,
        "2" => MergeBehavior::Ours,
        "4" => MergeBehavior::MutuallyExclusive,
        _ => panic!("harness: bad behaviour {}", t),
    }
}

fn enc_opt(o: Option<u32>) -> Vec<u64> {
    match o {
        None => vec![0],
        Some(v) => vec![1, v as u64],
    }
}

fn enc_key(k: &str, out: &mut Vec<u64>) {
    out.push(k.len() as u64);
    out.extend(k.bytes().map(|b| b as u64));
}

fn enc_keys<'a, I: Iterator<Item = &'a String>>(ks: I) -> Vec<u64> {
    let ks: Vec<&String> = ks.collect();
    let mut out = vec![ks.len() as u64];
    for k in ks {
        enc_key(k, &mut out);
    }
    out
}

fn framed(out: &mut Vec<u64>, r: Vec<u64>) {
    out.push(r.len() as u64);
    out.extend(r);
}

fn entry_op(map: &mut MM, k: &str, xs: &[&str]) -> Vec<u64> {
    let dbg = format!("{:?}", map);
    let kind: u64 = if map.contains_key(k) {
        0
    } else if dbg.contains(&format!("(\"{}\", ", k)) {
        1
    } else {
        2
    };
    let mut out = vec![kind];
    let mut st: Option<Entry<'_, String, u32>> = Some(map.entry(k.to_string()));
    match (&st, kind) {
        (Some(Entry::Occupied(_)), 0) | (Some(Entry::Vacant(_)), 1) | (Some(Entry::Vacant(_)), 2) => {}
        _ => out[0] = 77, // the entry's variant disagrees with contains_key
    }
    for x in xs {
        let (code, arg) = match x.split_once(':') {
            Some((c, a)) => (c, Some(a)),
            None => (*x, None),
        };
        let code: u32 = code.parse().expect("entry code");
        let r: Vec<u64> = match st.take() {
            None => vec![99],
            Some(Entry::Occupied(mut e)) => match code {
                0 => {
                    let v = *e.get();
                    st = Some(Entry::Occupied(e));
                    vec![v as u64]
                }
                1 => {
                    let old = e.insert(arg.expect("arg").parse().expect("v"));
                    vec![old as u64]
                }
                3 => {
                    let m = e.get_mark();
                    st = Some(Entry::Occupied(e));
                    vec![m as u64]
                }
                4 => {
                    e.mark_used();
                    st = Some(Entry::Occupied(e));
                    vec![]
                }
                5 => {
                    let b = e.is_used();
                    st = Some(Entry::Occupied(e));
                    vec![b as u64]
                }
                6 => {
                    e.mark_required();
                    st = Some(Entry::Occupied(e));
                    vec![]
                }
                7 => {
                    let b = e.is_required();
                    st = Some(Entry::Occupied(e));
                    vec![b as u64]
                }
                8 => {
                    e.set_merge_behavior(beh(arg.expect("arg")));
                    st = Some(Entry::Occupied(e));
                    vec![]
                }
                _ => {
                    st = Some(Entry::Occupied(e));
                    vec![99]
                }
            },
            Some(Entry::Vacant(mut e)) => match code {
                1 => {
                    let _ = e.insert(arg.expect("arg").parse().expect("v"));
                    vec![]
                }
                2 => {
                    let oe = e.insert_entry(arg.expect("arg").parse().expect("v"));
                    st = Some(Entry::Occupied(oe));
                    vec![]
                }
                6 => {
                    e.mark_required();
                    st = Some(Entry::Vacant(e));
                    vec![]
                }
                8 => {
                    e.set_merge_behavior(beh(arg.expect("arg")));
                    st = Some(Entry::Vacant(e));
                    vec![]
                }
                9 => {
                    let mut o = Vec::new();
                    enc_key(e.key(), &mut o);
                    st = Some(Entry::Vacant(e));
                    o
                }
                _ => {
                    st = Some(Entry::Vacant(e));
                    vec![99]
                }
            },
        };
        framed(&mut out, r);
    }
    out
}

fn one_op(maps: &mut [MM; 2], toks: &[&str]) -> Vec<u64> {
    let opc: u32 = toks[0].parse().expect("opcode");
    let i: usize = toks[1].parse().expect("map index");
    let a = &toks[2..];
    match opc {
        0 => enc_opt(maps[i].insert(a[0].to_string(), a[1].parse().expect("v"))),
        1 => enc_opt(maps[i].get(a[0]).copied()),
        2 => vec![maps[i].contains_key(a[0]) as u64],
        3 => enc_opt(maps[i].remove(&a[0].to_string())),
        4 => {
            maps[i].mark_used(&a[0].to_string());
            vec![]
        }
        5 => {
            maps[i].mark_required(&a[0].to_string());
            vec![]
        }
        6 => vec![maps[i].is_used(a[0]) as u64],
        7 => vec![maps[i].is_required(&a[0].to_string()) as u64],
        8 => {
            maps[i].set_default_merge_behavior(beh(a[0]));
            vec![]
        }
        9 => {
            maps[i].set_merge_behavior(&a[0].to_string(), beh(a[1]));
            vec![]
        }
        10 => entry_op(&mut maps[i], a[0], &a[1..]),
        11 => {
            let other: MM = std::mem::replace(&mut maps[1 - i], MarkMap::new());
            match maps[i].merge_from(other) {
                Ok(()) => vec![0],
                Err(MergeError::Exclusivity(k, v)) => {
                    let mut o = vec![1];
                    enc_key(&k, &mut o);
                    o.push(*v as u64);
                    o
                }
            }
        }
        12 => {
            let u = maps[i].unused();
            enc_keys(u.iter())
        }
        13 => enc_keys(maps[i].missing().into_iter()),
        14 => enc_keys(maps[i].keys()),
        15 => {
            let l: Vec<(&String, &u32)> = (&maps[i]).into_iter().collect();
            let mut o = vec![l.len() as u64];
            for (k, v) in l {
                enc_key(k, &mut o);
                o.push(*v as u64);
            }
            o
        }
        _ => panic!("harness: bad opcode {}", opc),
    }
}

fn render(r: &[u64]) -> String {
    r.iter().map(|x| x.to_string()).collect::<Vec<_>>().join(" ")
}

fn case(line: &str) -> String {
    let results: RefCell<Vec<String>> = RefCell::new(Vec::new());
    let ops: Vec<Vec<&str>> = line
        .split(';')
        .map(|o| o.split_whitespace().collect::<Vec<_>>())
        .filter(|t| !t.is_empty())
        .collect();
    let r = catch(AssertUnwindSafe(|| {
        let mut maps: [MM; 2] = [MarkMap::new(), MarkMap::new()];
        for toks in &ops {
            let r = one_op(&mut maps, toks);
            results.borrow_mut().push(render(&r));
        }
        format!(" # {:?} # {:?}", maps[0], maps[1])
    }));
    let head = results.borrow().join(" | ");
    match r {
        Ok(tail) => format!("{}{}", head, tail),
        Err(msg) => format!("{} | PANIC {}", head, msg.replace('\n', " ")),
    }
}

fn main() {
    gvh::quiet_panics();
    for_each_case(|line| case(line));
}
