//! `c16`: build grammar + table from yacc text and dump them (as `lr` does)
//! together with the derived views of the state table.
//! case:   `<kind> <hexsrc>`            (anything after a `;` is ignored)
//! result: `<grammar dump> # <automaton dump> # X… # VA st tok… # VSH st tok… # VCR st pidx… # VRO st 0|1` per state
//! (views are taken through the public accessors state_actions / state_shifts /
//! core_reduces / reduce_only_state only).
use gvh::common::*;
use gvh::util::*;
use std::fmt::Write;

fn conflicts_dump(st: &lrtable::StateTable<u32>) -> String {
    let mut o = String::new();
    match st.conflicts() {
        None => o.push_str("X none"),
        Some(c) => {
            write!(o, "X {} {}", c.sr_len(), c.rr_len()).unwrap();
            let mut sr: Vec<(usize, usize, usize)> = c
                .sr_conflicts()
                .map(|(t, p, s)| (usize::from(*s), usize::from(*t), usize::from(*p)))
                .collect();
            sr.sort();
            for (s, t, p) in sr {
                write!(o, " # XS {} {} {}", s, t, p).unwrap();
            }
            let mut rr: Vec<(usize, usize, usize, usize)> = c
                .rr_conflicts()
                .map(|(t, p1, p2, s)| (usize::from(*s), usize::from(*t), usize::from(*p1), usize::from(*p2)))
                .collect();
            rr.sort();
            for (s, t, p1, p2) in rr {
                write!(o, " # XR {} {} {} {}", s, t, p1, p2).unwrap();
            }
        }
    }
    o
}

fn views_dump(b: &Built) -> String {
    let mut o = String::new();
    for stidx in b.sg.iter_stidxs() {
        let s = usize::from(stidx);
        write!(o, " # VA {}", s).unwrap();
        for t in b.st.state_actions(stidx) {
            write!(o, " {}", usize::from(t)).unwrap();
        }
        write!(o, " # VSH {}", s).unwrap();
        for t in b.st.state_shifts(stidx) {
            write!(o, " {}", usize::from(t)).unwrap();
        }
        write!(o, " # VCR {}", s).unwrap();
        for p in b.st.core_reduces(stidx) {
            write!(o, " {}", usize::from(p)).unwrap();
        }
        write!(o, " # VRO {} {}", s, if b.st.reduce_only_state(stidx) { 1 } else { 0 }).unwrap();
    }
    o
}

fn main() {
    gvh::quiet_panics();
    for_each_case(move |line| {
        let head = line.split(';').next().unwrap();
        let mut hs = head.split_whitespace();
        let kind = hs.next().unwrap().to_string();
        let src = unhex(hs.next().unwrap_or(""));
        let b = match catch(std::panic::AssertUnwindSafe(|| build(&kind, &src))) {
            Err(m) => return format!("BUILDPANIC {}", m.replace('\n', " ")),
            Ok(Err(e)) => return e,
            Ok(Ok(b)) => b,
        };
        let views = match catch(std::panic::AssertUnwindSafe(|| views_dump(&b))) {
            Err(m) => return format!("VIEWPANIC {}", m.replace('\n', " ")),
            Ok(v) => v,
        };
        let mut o = dump_grammar(&b.grm);
        o.push_str(" # ");
        o.push_str(&dump_automaton(&b.grm, &b.sg, &b.st));
        o.push_str(" # ");
        o.push_str(&conflicts_dump(&b.st));
        o.push_str(&views);
        o
    });
}
