//! C14: serialise grammar + state table the way lrpar's ctbuilder does, reconstitute them
//! the way every generated parser does at start-up, and ask every public query of both.
//!
//! The two wincode configurations (build-time `serialize`, start-up `_reconstitute`) are the expressions
//! of /repo's lrpar/src/lib/ctbuilder.rs, copied verbatim into `../c14_config.rs` by vlib/ctconfig.py
//! before every build of this binary (macros `ct_write_config_{fix,var}!`, `ct_read_config_{fix,var}!`).
//!
//! case:   `<kind> <hexsrc> <width: 8|16|32> <enc: fix|var> [o|r|d] [; <hex token name>* ]*`
//!         (`o` / `r`: run the parses on the originals / the reconstituted objects only — used by the
//!          check to find out which side does not return when a case hangs;
//!          `d`: digest mode for big cases — answers longer than 96 bytes are printed as
//!          `~<crc32 hex>:<length>`; the DIFF sections are still computed on the full answers)
//!         `SIZES <width>`: `SIZES G <label>=<size_of> ... # S <label>=<size_of> ...` — the in-memory size of
//!          the element type of every sequence field of YaccGrammar / StateTable, in encoding order
//! result: ` # `-separated sections
//!   `C <width> <enc>` · `BG <hex>` (grammar bytes) · `BS <hex>` (state table bytes) · `NST <n>`
//!   `O <key> <answer>` … (originals) · `R <key> <answer>` … (reconstituted)
//!   `DIFF <key> …` for every query whose answers differ · `RECONPANIC <msg>`
//! or one of `GRMERR …` / `TBLERR …` / `BUILDPANIC …` /
//!   `SERERR <msg> # UG <hex> # US <hex> # NST <n>` (the build-time `serialize` returned Err — ctbuilder's
//!   `?` makes `build()` fail; UG/US: what the same configuration writes with its preallocation size limit
//!   disabled, for the model to say whether that limit explains the error).
//! Text answers are hex; `-` is None.
use cfgrammar::yacc::{YaccGrammar, YaccKind, YaccOriginalActionKind};
use cfgrammar::{PIdx, RIdx, Span, Symbol, TIdx};
use gvh::common::{assoc_code, hex, unhex, Tree};
use gvh::util::*;
use lrlex::{DefaultLexeme, DefaultLexerTypes, LRLexError};
use lrpar::ctbuilder::wincode;
use lrpar::{LexParseError, Lexeme, Lexer, NonStreamingLexer, RTParserBuilder, RecoveryKind};
use lrtable::{from_yacc, Action, Minimiser, StIdx, StateTable};
use num_traits::{AsPrimitive, PrimInt, Unsigned};
use std::fmt::{Debug, Write};
use std::hash::Hash;

include!("../c14_config.rs");

fn crc32(b: &[u8]) -> u32 {
    let mut c: u32 = !0;
    for x in b {
        c ^= *x as u32;
        for _ in 0..8 {
            c = if c & 1 != 0 { (c >> 1) ^ 0xEDB8_8320 } else { c >> 1 };
        }
    }
    !c
}

/// digest mode: a long answer as `~crc32:len`
fn dg(v: &str, digest: bool) -> String {
    if digest && v.len() > 96 {
        format!("~{:08x}:{}", crc32(v.as_bytes()), v.len())
    } else {
        v.to_string()
    }
}

/// size_of the element type of every sequence field, in the order of the encoding (a sequence of
/// sequences / strings: the outer element first, then the inner one; strings are sequences of u8)
fn sizes<T>() -> String {
    use cfgrammar::yacc::Precedence;
    use std::mem::size_of as sz;
    let g: Vec<(&str, usize)> = vec![
        ("rule_names:(String,Span)", sz::<(String, Span)>()),
        ("rule_names.0:u8", sz::<u8>()),
        ("token_names:Option<(Span,String)>", sz::<Option<(Span, String)>>()),
        ("token_names.1:u8", sz::<u8>()),
        ("token_precs:Option<Precedence>", sz::<Option<Precedence>>()),
        ("token_epp:Option<String>", sz::<Option<String>>()),
        ("token_epp.0:u8", sz::<u8>()),
        ("prods:Box<[Symbol]>", sz::<Box<[Symbol<T>]>>()),
        ("prods.0:Symbol", sz::<Symbol<T>>()),
        ("rules_prods:Box<[PIdx]>", sz::<Box<[PIdx<T>]>>()),
        ("rules_prods.0:PIdx", sz::<PIdx<T>>()),
        ("prods_rules:RIdx", sz::<RIdx<T>>()),
        ("prod_precs:Option<Precedence>", sz::<Option<Precedence>>()),
        ("prod_spans:Span", sz::<Span>()),
        ("actions:Option<String>", sz::<Option<String>>()),
        ("actions.0:u8", sz::<u8>()),
        ("action_spans:Option<Span>", sz::<Option<Span>>()),
        ("parse_param.0:u8", sz::<u8>()),
        ("parse_param.1:u8", sz::<u8>()),
        ("parse_generics:u8", sz::<u8>()),
        ("programs:u8", sz::<u8>()),
        ("actiontypes:Option<String>", sz::<Option<String>>()),
        ("actiontypes.0:u8", sz::<u8>()),
        ("avoid_insert.vec:usize", sz::<usize>()),
    ];
    let s: Vec<(&str, usize)> = vec![
        ("actions.displacement:usize", sz::<usize>()),
        ("actions.empties.vec:u64", sz::<u64>()),
        ("actions.data.data:u64", sz::<u64>()),
        ("state_actions.vec:u64", sz::<u64>()),
        ("gotos.displacement:usize", sz::<usize>()),
        ("gotos.empties.vec:u64", sz::<u64>()),
        ("gotos.data.data:u64", sz::<u64>()),
        ("core_reduces.vec:u64", sz::<u64>()),
        ("state_shifts.vec:u64", sz::<u64>()),
        ("reduce_states.vec:u64", sz::<u64>()),
        ("conflicts.reduce_reduce:(TIdx,PIdx,PIdx,StIdx)", sz::<(TIdx<T>, PIdx<T>, PIdx<T>, StIdx<T>)>()),
        ("conflicts.shift_reduce:(TIdx,PIdx,StIdx)", sz::<(TIdx<T>, PIdx<T>, StIdx<T>)>()),
    ];
    let f = |v: &Vec<(&str, usize)>| v.iter().map(|(l, n)| format!("{}={}", l, n)).collect::<Vec<_>>().join(" ");
    format!("SIZES G {} # S {}", f(&g), f(&s))
}

fn yacckind(code: &str) -> YaccKind {
    match code {
        "O" => YaccKind::Original(YaccOriginalActionKind::GenericParseTree),
        "N" => YaccKind::Original(YaccOriginalActionKind::NoAction),
        "U" => YaccKind::Original(YaccOriginalActionKind::UserAction),
        "G" => YaccKind::Grmtools,
        "E" => YaccKind::Eco,
        _ => panic!("bad yacckind code"),
    }
}

struct RLex<T> {
    toks: Vec<T>,
}

impl<T> Lexer<DefaultLexerTypes<T>> for RLex<T>
where
    T: 'static + Debug + Hash + PrimInt + Unsigned,
    usize: AsPrimitive<T>,
{
    fn iter<'a>(&'a self) -> Box<dyn Iterator<Item = Result<DefaultLexeme<T>, LRLexError>> + 'a> {
        Box::new(self.toks.iter().enumerate().map(|(i, t)| Ok(DefaultLexeme::new(*t, 2 * i, 1))))
    }
}

impl<'input, T> NonStreamingLexer<'input, DefaultLexerTypes<T>> for RLex<T>
where
    T: 'static + Debug + Hash + PrimInt + Unsigned,
    usize: AsPrimitive<T>,
{
    fn span_str(&self, _span: Span) -> &'input str {
        ""
    }
    fn span_lines_str(&self, _span: Span) -> &'input str {
        ""
    }
    fn line_col(&self, span: Span) -> ((usize, usize), (usize, usize)) {
        ((1, span.start() + 1), (1, span.end() + 1))
    }
}

fn us<T: PrimInt + Unsigned>(x: T) -> usize {
    num_traits::cast(x).unwrap()
}

fn span_s(s: Span) -> String {
    format!("{}..{}", s.start(), s.end())
}

fn opt_str(s: Option<&str>) -> String {
    match s {
        Some(x) => format!("s{}", hex(x)),
        None => "-".to_string(),
    }
}

fn prec_s(p: Option<cfgrammar::yacc::Precedence>) -> String {
    match p {
        Some(p) => format!("{}:{}", p.level, assoc_code(p.kind)),
        None => "-".to_string(),
    }
}

type Tr = Vec<(String, String)>;

fn q<F: FnOnce() -> String + std::panic::UnwindSafe>(tr: &mut Tr, key: String, f: F) {
    let v = match catch(f) {
        Ok(v) => v,
        Err(m) => format!("PANIC:{}", hex(&m)),
    };
    tr.push((key, v));
}

fn transcript<T>(
    grm: &YaccGrammar<T>,
    st: &StateTable<T>,
    nstates: usize,
    inputs: &[Vec<usize>],
) -> Tr
where
    T: 'static + Debug + Hash + PrimInt + Unsigned + std::panic::RefUnwindSafe,
    usize: AsPrimitive<T>,
{
    use std::panic::AssertUnwindSafe as A;
    let mut tr: Tr = Vec::new();
    let t = &mut tr;
    let nr = us(grm.rules_len().0);
    let nt = us(grm.tokens_len().0);
    let np = us(grm.prods_len().0);
    q(t, "g.rules_len".into(), A(|| nr.to_string()));
    q(t, "g.tokens_len".into(), A(|| nt.to_string()));
    q(t, "g.prods_len".into(), A(|| np.to_string()));
    q(t, "g.start_prod".into(), A(|| us(grm.start_prod().0).to_string()));
    q(t, "g.start_rule_idx".into(), A(|| us(grm.start_rule_idx().0).to_string()));
    q(t, "g.eof_token_idx".into(), A(|| us(grm.eof_token_idx().0).to_string()));
    q(t, "g.implicit_rule".into(), A(|| match grm.implicit_rule() {
        Some(r) => us(r.0).to_string(),
        None => "-".into(),
    }));
    q(t, "g.parse_param".into(), A(|| match grm.parse_param() {
        Some((a, b)) => format!("s{},s{}", hex(a), hex(b)),
        None => "-".into(),
    }));
    q(t, "g.parse_generics".into(), A(|| opt_str(grm.parse_generics().as_deref())));
    q(t, "g.programs".into(), A(|| opt_str(grm.programs().as_deref())));
    q(t, "g.expect".into(), A(|| grm.expect().map(|x| x.to_string()).unwrap_or("-".into())));
    q(t, "g.expectrr".into(), A(|| grm.expectrr().map(|x| x.to_string()).unwrap_or("-".into())));
    q(t, "g.iter_rules".into(), A(|| grm.iter_rules().map(|r| us(r.0).to_string()).collect::<Vec<_>>().join(",")));
    q(t, "g.iter_tidxs".into(), A(|| grm.iter_tidxs().map(|r| us(r.0).to_string()).collect::<Vec<_>>().join(",")));
    q(t, "g.iter_pidxs".into(), A(|| grm.iter_pidxs().map(|r| us(r.0).to_string()).collect::<Vec<_>>().join(",")));
    q(t, "g.tokens_map".into(), A(|| {
        let mut m: Vec<(String, usize)> = grm.tokens_map().into_iter().map(|(k, v)| (hex(k), us(v.0))).collect();
        m.sort();
        m.iter().map(|(k, v)| format!("s{}={}", k, v)).collect::<Vec<_>>().join(",")
    }));
    for r in 0..nr {
        let ridx = RIdx(r.as_());
        q(t, format!("g.rule.{}.name", r), A(|| opt_str(Some(grm.rule_name_str(ridx)))));
        q(t, format!("g.rule.{}.name_span", r), A(|| span_s(grm.rule_name_span(ridx))));
        q(t, format!("g.rule.{}.prods", r), A(|| {
            grm.rule_to_prods(ridx).iter().map(|p| us(p.0).to_string()).collect::<Vec<_>>().join(",")
        }));
        q(t, format!("g.rule.{}.actiontype", r), A(|| opt_str(grm.actiontype(ridx).as_deref())));
        q(t, format!("g.rule.{}.rule_idx_of_name", r), A(|| {
            let n = grm.rule_name_str(ridx).to_string();
            grm.rule_idx(&n).map(|x| us(x.0).to_string()).unwrap_or("-".into())
        }));
        q(t, format!("g.rule.{}.has_path", r), A(|| {
            (0..nr).map(|r2| if grm.has_path(ridx, RIdx(r2.as_())) { "1" } else { "0" }).collect::<Vec<_>>().join("")
        }));
    }
    for k in 0..nt {
        let tidx = TIdx(k.as_());
        q(t, format!("g.tok.{}.name", k), A(|| opt_str(grm.token_name(tidx))));
        q(t, format!("g.tok.{}.prec", k), A(|| prec_s(grm.token_precedence(tidx))));
        q(t, format!("g.tok.{}.epp", k), A(|| opt_str(grm.token_epp(tidx))));
        q(t, format!("g.tok.{}.span", k), A(|| grm.token_span(tidx).map(span_s).unwrap_or("-".into())));
        q(t, format!("g.tok.{}.avoid_insert", k), A(|| (grm.avoid_insert(tidx) as u8).to_string()));
        q(t, format!("g.tok.{}.token_idx_of_name", k), A(|| match grm.token_name(tidx) {
            Some(n) => {
                let n = n.to_string();
                grm.token_idx(&n).map(|x| us(x.0).to_string()).unwrap_or("-".into())
            }
            None => "noname".into(),
        }));
    }
    for p in 0..np {
        let pidx = PIdx(p.as_());
        q(t, format!("g.prod.{}.syms", p), A(|| {
            grm.prod(pidx)
                .iter()
                .map(|s| match s {
                    Symbol::Token(x) => (2 * us(x.0)).to_string(),
                    Symbol::Rule(x) => (2 * us(x.0) + 1).to_string(),
                })
                .collect::<Vec<_>>()
                .join(",")
        }));
        q(t, format!("g.prod.{}.len", p), A(|| us(grm.prod_len(pidx).0).to_string()));
        q(t, format!("g.prod.{}.rule", p), A(|| us(grm.prod_to_rule(pidx).0).to_string()));
        q(t, format!("g.prod.{}.prec", p), A(|| prec_s(grm.prod_precedence(pidx))));
        q(t, format!("g.prod.{}.span", p), A(|| span_s(grm.prod_span(pidx))));
        q(t, format!("g.prod.{}.action", p), A(|| opt_str(grm.action(pidx).as_deref())));
        q(t, format!("g.prod.{}.action_span", p), A(|| grm.action_span(pidx).map(span_s).unwrap_or("-".into())));
        q(t, format!("g.prod.{}.pp", p), A(|| opt_str(Some(&grm.pp_prod(pidx)))));
    }
    // ---- state table
    q(t, "s.start_state".into(), A(|| us(st.start_state().0).to_string()));
    for s in 0..nstates {
        let stidx = StIdx(s.as_());
        q(t, format!("s.{}.actions", s), A(|| {
            (0..nt)
                .map(|k| match st.action(stidx, TIdx(k.as_())) {
                    Action::Shift(x) => format!("s{}", us(x.0)),
                    Action::Reduce(x) => format!("r{}", us(x.0)),
                    Action::Accept => "a".to_string(),
                    Action::Error => "e".to_string(),
                })
                .collect::<Vec<_>>()
                .join(",")
        }));
        q(t, format!("s.{}.gotos", s), A(|| {
            (0..nr)
                .map(|r| match st.goto(stidx, RIdx(r.as_())) {
                    Some(x) => us(x.0).to_string(),
                    None => "-".to_string(),
                })
                .collect::<Vec<_>>()
                .join(",")
        }));
        q(t, format!("s.{}.state_actions", s), A(|| {
            st.state_actions(stidx).map(|x| us(x.0).to_string()).collect::<Vec<_>>().join(",")
        }));
        q(t, format!("s.{}.state_shifts", s), A(|| {
            st.state_shifts(stidx).map(|x| us(x.0).to_string()).collect::<Vec<_>>().join(",")
        }));
        q(t, format!("s.{}.reduce_only", s), A(|| (st.reduce_only_state(stidx) as u8).to_string()));
        q(t, format!("s.{}.core_reduces", s), A(|| {
            st.core_reduces(stidx).map(|x| us(x.0).to_string()).collect::<Vec<_>>().join(",")
        }));
    }
    q(t, "s.conflicts".into(), A(|| match st.conflicts() {
        None => "-".to_string(),
        Some(c) => {
            let sr: Vec<String> = c
                .sr_conflicts()
                .map(|(a, b, d)| format!("{}:{}:{}", us(a.0), us(b.0), us(d.0)))
                .collect();
            let rr: Vec<String> = c
                .rr_conflicts()
                .map(|(a, b, b2, d)| format!("{}:{}:{}:{}", us(a.0), us(b.0), us(b2.0), us(d.0)))
                .collect();
            format!("sr{}[{}]rr{}[{}]pp{}", c.sr_len(), sr.join(","), c.rr_len(), rr.join(","), hex(&format!("{}{}", c.pp_rr(grm), c.pp_sr(grm))))
        }
    }));
    // ---- parses
    for (i, inp) in inputs.iter().enumerate() {
        q(t, format!("parse.{}", i), A(|| {
            let lexer = RLex::<T> { toks: inp.iter().map(|x| (*x).as_()).collect() };
            let pb = RTParserBuilder::<T, DefaultLexerTypes<T>>::new(grm, st).recoverer(RecoveryKind::None);
            let (val, errs) = pb.parse_map(
                &lexer,
                &|lexeme: DefaultLexeme<T>| {
                    Tree::Term(us(lexeme.tok_id()) as u32, lexeme.span().start(), lexeme.span().len(), lexeme.faulty())
                },
                &|ridx, nodes| Tree::Nonterm(us(ridx.0) as u32, nodes),
            );
            let mut o = String::new();
            write!(o, "in[{}]", inp.iter().map(|x| x.to_string()).collect::<Vec<_>>().join(",")).unwrap();
            match val {
                Some(tree) => {
                    o.push_str("val:");
                    let mut s = String::new();
                    tree.pp(&mut s);
                    o.push_str(&s.replace(' ', "_"));
                }
                None => o.push_str("val:-"),
            }
            write!(o, ";nerr={}", errs.len()).unwrap();
            for e in errs.iter() {
                match e {
                    LexParseError::ParseError(pe) => {
                        write!(o, ";perr@{}st{}tok{}", pe.lexeme().span().start(), us(pe.stidx().0), us(pe.lexeme().tok_id())).unwrap()
                    }
                    LexParseError::LexError(_) => o.push_str(";lexerr"),
                }
            }
            o
        }));
    }
    tr
}

fn hexb(b: &[u8]) -> String {
    b.iter().map(|x| format!("{:02x}", x)).collect()
}

macro_rules! run_case {
    ($T:ty, $kind:expr, $src:expr, $enc:expr, $w:expr, $inputs:expr, $mode:expr) => {{
        let built = catch(std::panic::AssertUnwindSafe(|| {
            let grm = YaccGrammar::<$T>::new_with_storaget(yacckind($kind), $src).map_err(|e| {
                format!("GRMERR {}", e.iter().map(|x| format!("{}", x)).collect::<Vec<_>>().join("; ").replace('\n', " ").replace('#', ""))
            })?;
            let (sg, st) = from_yacc(&grm, Minimiser::Pager).map_err(|e| format!("TBLERR {}", e))?;
            Ok::<_, String>((grm, us(sg.all_states_len().0), st))
        }));
        match built {
            Err(m) => format!("BUILDPANIC {}", m.replace('\n', " ").replace('#', "")),
            Ok(Err(e)) => e,
            Ok(Ok((grm, nstates, st))) => {
                // token names -> indices (inputs with unknown names are dropped)
                let inputs: Vec<Vec<usize>> = $inputs
                    .iter()
                    .filter_map(|names: &Vec<String>| {
                        names.iter().map(|n| grm.token_idx(n).map(|t| us(t.0))).collect::<Option<Vec<usize>>>()
                    })
                    .collect();
                // exactly what CTParserBuilder does at build time (ctbuilder.rs, "serialisation_format")
                // (the configuration expressions are ctbuilder.rs's own: ../c14_config.rs)
                let digest = $mode == "d";
                let ser: Result<(Vec<u8>, Vec<u8>), String> = if $enc == "fix" {
                    let config = ct_write_config_fix!();
                    wincode::config::serialize(&grm, config)
                        .and_then(|g| wincode::config::serialize(&st, config).map(|s| (g, s)))
                        .map_err(|e| format!("{}", e))
                } else {
                    let config = ct_write_config_var!();
                    wincode::config::serialize(&grm, config)
                        .and_then(|g| wincode::config::serialize(&st, config).map(|s| (g, s)))
                        .map_err(|e| format!("{}", e))
                };
                match ser {
                    Err(e) => {
                        // the same configuration without its preallocation size limit
                        let un: Result<(Vec<u8>, Vec<u8>), String> = if $enc == "fix" {
                            let config = ct_write_config_fix!().disable_preallocation_size_limit();
                            wincode::config::serialize(&grm, config)
                                .and_then(|g| wincode::config::serialize(&st, config).map(|s| (g, s)))
                                .map_err(|e| format!("{}", e))
                        } else {
                            let config = ct_write_config_var!().disable_preallocation_size_limit();
                            wincode::config::serialize(&grm, config)
                                .and_then(|g| wincode::config::serialize(&st, config).map(|s| (g, s)))
                                .map_err(|e| format!("{}", e))
                        };
                        let mut o = format!("SERERR {}", e.replace('\n', " ").replace('#', ""));
                        if let Ok((gb, sb)) = un {
                            write!(o, " # UG {} # US {} # NST {}", hexb(&gb), hexb(&sb), nstates).unwrap();
                        }
                        o
                    }
                    Ok((gb, sb)) => {
                        let mut o = String::new();
                        write!(o, "C {} {} # BG {} # BS {} # NST {}", $w, $enc, hexb(&gb), hexb(&sb), nstates).unwrap();
                        let none: Vec<Vec<usize>> = Vec::new();
                        let orig = transcript::<$T>(&grm, &st, nstates, if $mode == "r" { &none } else { &inputs });
                        for (k, v) in orig.iter() {
                            write!(o, " # O {} {}", k, dg(v, digest)).unwrap();
                        }
                        // exactly what generated code does at start-up (`__lrpar_parser_data`)
                        let recon = catch(std::panic::AssertUnwindSafe(|| {
                            if $enc == "fix" {
                                lrpar::ctbuilder::_reconstitute::<_, $T>(
                                    &gb,
                                    &sb,
                                    ct_read_config_fix!(),
                                )
                            } else {
                                lrpar::ctbuilder::_reconstitute::<_, $T>(
                                    &gb,
                                    &sb,
                                    ct_read_config_var!(),
                                )
                            }
                        }));
                        match recon {
                            Err(m) => {
                                write!(o, " # RECONPANIC {} # DIFF reconstitute panics", hex(&m)).unwrap();
                            }
                            Ok(pd) => {
                                let rec = transcript::<$T>(pd.grm(), pd.stable(), nstates, if $mode == "o" { &none } else { &inputs });
                                for (k, v) in rec.iter() {
                                    write!(o, " # R {} {}", k, dg(v, digest)).unwrap();
                                }
                                let one_sided = $mode == "o" || $mode == "r";
                                let keep = |t: &Tr| -> Tr {
                                    t.iter().filter(|(k, _)| !(one_sided && k.starts_with("parse."))).cloned().collect()
                                };
                                let (oc, rc) = (keep(&orig), keep(&rec));
                                if oc.len() != rc.len() {
                                    write!(o, " # DIFF number-of-queries {} {}", oc.len(), rc.len()).unwrap();
                                }
                                for ((k1, v1), (k2, v2)) in oc.iter().zip(rc.iter()) {
                                    if k1 != k2 || v1 != v2 {
                                        write!(o, " # DIFF {} orig={} recon={}:{}", k1, dg(v1, digest), k2, dg(v2, digest)).unwrap();
                                    }
                                }
                            }
                        }
                        o
                    }
                }
            }
        }
    }};
}

fn main() {
    gvh::quiet_panics();
    for_each_case(|line| {
        let mut parts = line.split(';');
        let head: Vec<&str> = parts.next().unwrap().split_whitespace().collect();
        if head.len() == 2 && head[0] == "SIZES" {
            return match head[1] {
                "8" => sizes::<u8>(),
                "16" => sizes::<u16>(),
                "32" => sizes::<u32>(),
                _ => "BADCASE".to_string(),
            };
        }
        if head.len() != 4 && head.len() != 5 {
            return "BADCASE".to_string();
        }
        let mode = if head.len() == 5 { head[4].to_string() } else { "b".to_string() };
        let kind = head[0].to_string();
        let src = unhex(head[1]);
        let width = head[2].to_string();
        let enc = head[3].to_string();
        let inputs: Vec<Vec<String>> = parts.map(|p| p.split_whitespace().map(unhex).collect()).collect();
        match width.as_str() {
            "8" => run_case!(u8, &kind, &src, enc.as_str(), 8, inputs, mode.as_str()),
            "16" => run_case!(u16, &kind, &src, enc.as_str(), 16, inputs, mode.as_str()),
            "32" => run_case!(u32, &kind, &src, enc.as_str(), 32, inputs, mode.as_str()),
            _ => "BADCASE".to_string(),
        }
    });
}
